"""Source mutations used to self-test the monitors (see vf/muttest.py).
Each must make the named property's quick check report a VIOLATION."""
MUTATIONS = []


def M(prop, file, old, new, note, **kw):
    MUTATIONS.append(dict(prop=prop, file=file, old=old, new=new, note=note, **kw))


EV = "pymbolic/mapper/evaluator.py"
M("C02", EV, "return self.rec(expr.numerator) // self.rec(expr.denominator)",
  "return self.rec(expr.denominator) // self.rec(expr.numerator)", "floordiv operands swapped")
M("C02", EV, "return reduce(op.xor, (self.rec(ch) for ch in expr.children))",
  "return reduce(op.or_, (self.rec(ch) for ch in expr.children))", "xor -> or")
M("C02", EV, """        if self.rec(expr.condition):
            return self.rec(expr.then)
        else:
            return self.rec(expr.else_)""",
  """        then, else_ = self.rec(expr.then), self.rec(expr.else_)
        return then if self.rec(expr.condition) else else_""", "eager If")
M("C02", EV, "return min(self.rec(child) for child in expr.children)",
  "return max(self.rec(child) for child in expr.children)", "min -> max")
M("C02", EV, """        return self.rec(expr.function)(*args, **kwargs)""",
  """        return self.rec(expr.function)(*args)""", "kwargs dropped in call")
M("C02", EV, "return any(self.rec(ch) for ch in expr.children)",
  "return any([self.rec(ch) for ch in expr.children])", "logical or evaluates all operands")
M("C02", EV, "return self.rec(expr.shiftee) >> self.rec(expr.shift)",
  "return self.rec(expr.shiftee) >> abs(self.rec(expr.shift))", "negative shift accepted")
M("C02", EV, """            raise UnknownVariableError(expr.name) from None""",
  """            return 0""", "unknown variable evaluates to 0")
M("C02", "pymbolic/mapper/__init__.py", """        return (type(expr), expr, args, immutabledict(kwargs))""",
  """        return (expr, args, immutabledict(kwargs))""", "cache key without type (1 vs True vs 1.0)")
