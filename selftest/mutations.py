"""Source mutations used to self-test the monitors (see vf/muttest.py).
Each must make the named property's quick check report a VIOLATION."""
MUTATIONS = []


def M(prop, file, old, new, note, **kw):
    MUTATIONS.append(dict(prop=prop, file=file, old=old, new=new, note=note, **kw))


EV = "pymbolic/mapper/evaluator.py"
M("C02", EV, "return self.rec(expr.numerator) // self.rec(expr.denominator)",
  "return self.rec(expr.denominator) // self.rec(expr.numerator)", "floordiv operands swapped")
M("C02", EV, "return reduce(op.xor, (self.rec(ch) for ch in expr.children))",
  "return reduce(op.or_, (self.rec(ch) for ch in expr.children))", "xor -> or")
M("C02", EV, """        if self.rec(expr.condition):
            return self.rec(expr.then)
        else:
            return self.rec(expr.else_)""",
  """        then, else_ = self.rec(expr.then), self.rec(expr.else_)
        return then if self.rec(expr.condition) else else_""", "eager If")
M("C02", EV, "return min(self.rec(child) for child in expr.children)",
  "return max(self.rec(child) for child in expr.children)", "min -> max")
M("C02", EV, """        return self.rec(expr.function)(*args, **kwargs)""",
  """        return self.rec(expr.function)(*args)""", "kwargs dropped in call")
M("C02", EV, "return any(self.rec(ch) for ch in expr.children)",
  "return any([self.rec(ch) for ch in expr.children])", "logical or evaluates all operands")
M("C02", EV, "return self.rec(expr.shiftee) >> self.rec(expr.shift)",
  "return self.rec(expr.shiftee) >> abs(self.rec(expr.shift))", "negative shift accepted")
M("C02", EV, """            raise UnknownVariableError(expr.name) from None""",
  """            return 0""", "unknown variable evaluates to 0")
M("C02", "pymbolic/mapper/__init__.py", """        return (type(expr), expr, args, immutabledict(kwargs))""",
  """        return (expr, args, immutabledict(kwargs))""", "cache key without type (1 vs True vs 1.0)")

PR = "pymbolic/primitives.py"
M("C01", PR, """    comparison = " and ".join(
            f"self.{fld.name} == other.{fld.name}"
            for fld in fields(cls))""", """    comparison = " and ".join(
            f"self.{fld.name} == other.{fld.name}"
            for fld in fields(cls)[:2])""", "third field left out of generated __eq__")
M("C01", PR, """            object.__setattr__(self, "kw_parameters", immutabledict(self.kw_parameters))""",
  """            pass""", "dict kw_parameters not normalised")
M("C01", PR, "dc_cls = dataclass(init=init, eq=False, frozen=__debug__, repr=False)(cls)",
  "dc_cls = dataclass(init=init, eq=False, frozen=False, repr=False)(cls)", "not frozen")
M("C01", PR, """        return (type(other) is type(self)
                and self.__getinitargs__() == other.__getinitargs__())""",
  """        return (type(other) is type(self)
                and self.__getinitargs__()[:1] == other.__getinitargs__()[:1])""",
  "legacy is_equal compares first init arg only")
M("C01", PR, """            if self.__class__ is not other.__class__:
                return False
            if hash(self) != hash(other):""", """            if hash(self) != hash(other):""",
  "both class checks dropped from generated __eq__ (1/2)", also=[(PR,
   """            return self.__class__ == other.__class__ and {comparison}""",
   """            return {comparison}""")])

M("C03", PR, """    def __rsub__(self, other: object) -> ArithmeticExpressionT:
        if not is_constant(other):
            return NotImplemented

        if is_nonzero(other):
            return Sum((other, -self))""", """    def __rsub__(self, other: object) -> ArithmeticExpressionT:
        if not is_constant(other):
            return NotImplemented

        if is_nonzero(other):
            return Sum((-other, self))""", "reflected subtraction computes self - other")
M("C03", PR, """    def __rmul__(self, other: object) -> ArithmeticExpressionT:
        if not is_constant(other):
            return NotImplemented

        if is_zero(other-1):
            return self""", """    def __rmul__(self, other: object) -> ArithmeticExpressionT:
        if not is_constant(other):
            return NotImplemented

        if is_zero(other+1):
            return self""", "rmul shortcut tests other == -1")
M("C03", PR, """        if isinstance(other, Sum):
            return Sum(self.children + other.children)
        if not other:
            return self
        return Sum((*self.children, other))""", """        if isinstance(other, Sum):
            return Sum(other.children + self.children)
        if not other:
            return self
        return Sum((*self.children, other))""", "Sum+Sum splices in the wrong order (only visible non-commutatively... must stay silent? no: matrices commute under +)",
  expect="MISSED")
M("C03", PR, """        if not other:
            return self
        return Sum((*self.children, -other))""", """        if not other:
            return self
        return Sum((*self.children, other))""", "Sum.__sub__ loses the sign")
M("C03", PR, """    def __lt__(self, other) -> NoReturn:
        raise TypeError("expressions don't have an order")""", """    def __lt__(self, other):
        return Comparison(self, "<", other)""", "__lt__ builds a Comparison")
M("C03", PR, """    if not (denominator-1):
        return numerator""", """    if not (denominator-1) or not (denominator+1):
        return numerator""", "quotient() returns numerator for denominator -1")
M("C03", PR, """        if is_zero(other):  # exponent zero
            return 1
        elif is_zero(other-1):  # exponent one
            return self
        return Power(self, other)""", """        if is_zero(other):  # exponent zero
            return 1
        elif is_zero(other-1) or is_zero(other+1):  # exponent one
            return self
        return Power(self, other)""", "x**-1 folded to x")

SB = "pymbolic/mapper/substitutor.py"
M("C08", SB, """    variable_assignments.update(kwargs)
""", """    pass
""", "substitute() ignores keyword assignments")
M("C08", SB, """        try:
            return variable_assignments[var]
        except KeyError:
            if isinstance(var, primitives.Variable):
                try:
                    return variable_assignments[var.name]
                except KeyError:
                    return None
            else:
                return None""", """        if isinstance(var, primitives.Variable) and var.name in variable_assignments:
            return variable_assignments[var.name]
        try:
            return variable_assignments[var]
        except KeyError:
            return None""", "name lookup before expression lookup")
M("C08", SB, """    def map_lookup(self, expr):
        result = self.subst_func(expr)
        if result is not None:
            return result
        else:
            return IdentityMapper.map_lookup(self, expr)""", """    def map_lookup(self, expr):
        return IdentityMapper.map_lookup(self, expr)""", "lookup keys no longer intercepted")
M("C08", SB, """    def map_variable(self, expr):
        result = self.subst_func(expr)
        if result is not None:
            return result""", """    def map_variable(self, expr):
        result = self.subst_func(expr)
        if result is not None:
            return self.rec(result) if result != expr else result""", "replacement substituted again")
M("C08", SB, """    def map_variable(self, expr):
        result = self.subst_func(expr)
        if result is not None:
            return result
        else:
            return expr""", """    def map_variable(self, expr):
        result = self.subst_func(expr)
        if result:
            return result
        else:
            return expr""", "falsy replacement (0) ignored")

DP = "pymbolic/mapper/dependency.py"
M("C09", DP, """    def map_lookup(self, expr, *args, **kwargs):
        if self.include_lookups:""", """    def map_lookup(self, expr, *args, **kwargs):
        if self.include_subscripts:""", "lookup handler tests the subscript flag")
M("C09", DP, """            return self.combine(
                    [self.rec(child, *args, **kwargs) for child in expr.parameters]
                    + [self.rec(val, *args, **kwargs) for name, val in
                    expr.kw_parameters.items()]
                    )""", """            return self.combine(
                    [self.rec(child, *args, **kwargs) for child in expr.parameters]
                    )""", "kw-argument values skipped under descend_args")
M("C09", DP, """        if composite_leaves is False:
            include_subscripts = False
            include_lookups = False
            include_calls = False""", """        if composite_leaves is False:
            include_subscripts = False
            include_calls = False""", "composite_leaves=False forgets lookups")
M("C09", DP, """        if self.include_calls == "descend_args":
            return self.combine(
                    [self.rec(child, *args, **kwargs) for child in expr.parameters])""",
  """        if self.include_calls == "descend_args":
            return self.combine(
                    [self.rec(expr.function, *args, **kwargs)]
                    + [self.rec(child, *args, **kwargs) for child in expr.parameters])""",
  "function position reported under descend_args")
FC = "pymbolic/mapper/flop_counter.py"
M("C09", FC, "return len(expr.children) - 1 + sum(self.rec(ch) for ch in expr.children)",
  "return len(expr.children) + sum(self.rec(ch) for ch in expr.children)", "n flops per n-ary sum")
M("C09", FC, """    def map_quotient(self, expr, *args):
        return 1 + self.rec(expr.numerator) + self.rec(expr.denominator)""",
  """    def map_quotient(self, expr, *args):
        return self.rec(expr.numerator) + self.rec(expr.denominator)""", "quotient counted as 0 flops")
M("C09", FC, """    def __init__(self):
        super().__init__()
        self.cse_seen_set = set()""", """    cse_seen_set = set()

    def __init__(self):
        super().__init__()""", "CSE seen-set shared between counter instances")
M("C09", "pymbolic/mapper/analysis.py", """    def post_visit(self, expr) -> None:
        self.count += 1""", """    def visit(self, expr) -> bool:
        self.count += 1
        return not isinstance(expr, tuple)""", "node counter does not descend into tuples")

DF = "pymbolic/mapper/differentiator.py"
M("C10", DF, "            return (df*g-dg*f)/g**2", "            return (df*g+dg*f)/g**2", "quotient rule sign")
M("C10", DF, "            return g * f**(g-1) * df\n        else:", "            return g * f**(g+1) * df\n        else:", "power rule g+1")
M("C10", DF, """        return make_f("cos")(*pars)
    elif func == make_f("cos") and len(pars) == 1:
        return -make_f("sin")(*pars)""", """        return make_f("cos")(*pars)
    elif func == make_f("cos") and len(pars) == 1:
        return make_f("sin")(*pars)""", "cos' = sin")
M("C10", DF, """        elif (not df):
            return -f*dg/g**2""", """        elif (not df):
            return self.rec(f, *args)/g""", "(not df) branch returns the (not dg) formula")
M("C10", DF, """        if allowed_nonsmoothness in ["continuous", "discontinuous"]:
            from pymbolic.functions import sign""", """        if allowed_nonsmoothness in ["none", "continuous", "discontinuous"]:
            from pymbolic.functions import sign""", "fabs allowed under 'none'")
M("C10", DF, """        if self.allowed_nonsmoothness != "discontinuous":
            raise ValueError("cannot differentiate 'If' nodes unless \"""",
  """        if self.allowed_nonsmoothness == "none":
            raise ValueError("cannot differentiate 'If' nodes unless \"""", "If allowed under 'continuous'")
M("C10", DF, """        return make_f("tan")(*pars)**2+1""", """        return make_f("tan")(*pars)**2-1""", "tan' = tan^2 - 1")
M("C10", DF, """    elif func == make_f("expm1") and len(pars) == 1:
        return make_f("exp")(*pars)""", """    elif func == make_f("expm1") and len(pars) == 1:
        return make_f("expm1")(*pars)""", "expm1' = expm1")
M("C10", DF, """                [self.rec_undiff(ch, *args) for ch in expr.children[0:i]]
                + [self.rec(child, *args)]
                + [self.rec_undiff(ch, *args) for ch in expr.children[i+1:]]""",
  """                [self.rec_undiff(ch, *args) for ch in expr.children[0:i]]
                + [self.rec(child, *args)]
                + [self.rec_undiff(ch, *args) for ch in expr.children[i+2:]]""", "product rule skips a factor")

CS = "pymbolic/cse.py"
M("C12", CS, "        if count > 1}", "        if count > 2}", "count > 2 before tagging")
M("C12", CS, """            return type(expr), frozenset(kid_count.items())""",
  """            return type(expr), tuple(kid_count.items())""", "key getter does not normalise order")
M("C12", CS, """        try:
            return self.canonical_subexprs[key]
        except KeyError:
            new_expr = prim.wrap_in_cse(
                    getattr(IdentityMapper, expr.mapper_method)(self, expr))
            self.canonical_subexprs[key] = new_expr
            return new_expr""", """        try:
            return self.canonical_subexprs[expr]
        except KeyError:
            new_expr = prim.wrap_in_cse(
                    getattr(IdentityMapper, expr.mapper_method)(self, expr))
            self.canonical_subexprs[expr] = new_expr
            return new_expr""", "canonical table keyed by the un-normalised node")
M("C12", CS, """        if type(expr) is prim.CommonSubexpression:
            return prim.wrap_in_cse(self.rec(expr.child), expr.prefix)""",
  """        if type(expr) is prim.CommonSubexpression:
            return prim.CommonSubexpression(self.rec(expr.child), expr.prefix)""", "existing wrapper wrapped again")
M("C12", "pymbolic/mapper/evaluator.py", """    def map_common_subexpression_uncached(self, expr):
        return self.rec(expr.child)""", """    def map_common_subexpression(self, expr):
        return self.rec(expr.child)

    def map_common_subexpression_uncached(self, expr):
        return self.rec(expr.child)""", "evaluator CSE cache bypassed")
M("C12", PR, """    if isinstance(expr, (Variable, Subscript)):
        return expr

    if isinstance(expr, CommonSubexpression):
        if prefix is None:
            return expr""", """    if isinstance(expr, (Variable,)):
        return expr

    if isinstance(expr, CommonSubexpression):
        if prefix is None:
            return expr""", "wrap_in_cse wraps subscripts")
M("C12", CS, """    map_product = map_sum
    map_power = map_sum
    map_quotient = map_sum""", """    map_product = map_sum
    map_quotient = map_sum""", "powers no longer eliminated")

GA = "pymbolic/geometric_algebra/__init__.py"
M("C18", GA, """    a_bits = a_bits >> 1
    s = 0""", """    s = 0""", "reordering sign counts a_bits without the initial shift")
M("C18", GA, """        if shared_bits == a_bits:
            return _shared_metric_coeff(shared_bits, space)
        else:
            return 0


class _RightContractionProduct""", """        if shared_bits == b_bits:
            return _shared_metric_coeff(shared_bits, space)
        else:
            return 0


class _RightContractionProduct""", "left contraction uses the right-contraction condition")
M("C18", GA, """            if grade*(grade-1)//2 % 2 == 0:
                new_data[bits] = coeff
            else:
                new_data[bits] = -coeff

        return MultiVector(new_data, self.space)

    def invol""", """            if grade*(grade+1)//2 % 2 == 0:
                new_data[bits] = coeff
            else:
                new_data[bits] = -coeff

        return MultiVector(new_data, self.space)

    def invol""", "reverse uses g(g+1)/2")
M("C18", GA, """        grade = bit_count(bits)
        if grade*(grade-1)//2 % 2:
            coeff = -coeff

        coeff = coeff/nsqr""", """        grade = bit_count(bits)
        coeff = coeff/nsqr""", "inverse of a blade forgets the reversion sign")
M("C18", GA, """    def __bool__(self):
        return bool(self.data)""", """    def __bool__(self):
        return True""", "multivector always truthy")
M("C18", GA, """        if shared_bits == a_bits or shared_bits == b_bits:
            return _shared_metric_coeff(shared_bits, space)""", """        if shared_bits == a_bits and shared_bits == b_bits:
            return _shared_metric_coeff(shared_bits, space)""", "inner product only for equal blades")
M("C18", GA, """                    new_coeff = new_data.setdefault(new_bits, 0) + coeff
                    if is_zero(new_coeff):
                        del new_data[new_bits]
                    else:
                        new_data[new_bits] = new_coeff

        return MultiVector(new_data, self.space)""", """                    new_data[new_bits] = coeff

        return MultiVector(new_data, self.space)""", "product overwrites instead of accumulating (bilinearity)")
M("C18", GA, """            data = {bits: coeff for bits, coeff in data.items()
                    if not is_zero(coeff)}""", """            pass""", "revert of fix 0178b1f (explicit zeros kept)")

M("C16", "pymbolic/mapper/unifier.py", """            expr, other, unis, _make_regrouper(Product)))""", """            expr, other, unis, __import__("pymbolic").primitives.flattened_product))""", "revert of fix 4f1d12c (leftover product operands simplified away)")
M("C16", "pymbolic/mapper/unifier.py", """            expr, other, unis, _make_regrouper(Sum)))""", """            expr, other, unis, __import__("pymbolic").primitives.flattened_sum))""", "revert of fix 4f1d12c (leftover sum operands simplified away)")
M("C13", "pymbolic/interop/ast.py", """        elif ((isinstance(expr, (int, float)) and expr < 0)
                or (isinstance(expr, (float, complex))
                    and repr(expr).startswith("-"))):""", """        elif isinstance(expr, (int, float)) and expr < 0:""", "revert of fix 261077d (negative zero / imaginary constants under a power)")
M("C07", "pymbolic/parser.py", """            if pstate.is_at_end() or pstate.next_tag() in (_closepar, _closebracket):""", """            if pstate.is_at_end() or pstate.next_tag() is _closepar:""", "revert of fix 294cf90 (trailing comma before a closing bracket)")
AL = "pymbolic/algorithm.py"
M("C19", "pymbolic/algorithm.py", """            aux = aux * x""", """            aux *= x""", "revert of fix 9cda97f (identity element multiplied in place)")
M("C19", "pymbolic/rational.py", """            numerator //= d_unit
            denominator //= d_unit""", """            numerator /= d_unit
            denominator /= d_unit""", "revert of fix 01bce4f (Rational keeps integers exact)")
M("C10", "pymbolic/rational.py", """            numerator //= d_unit
            denominator //= d_unit""", """            numerator /= d_unit
            denominator /= d_unit""", "revert of fix 01bce4f (log of a constant differentiates)")
M("C19", AL, """        x = x * x
        n //= 2""", """        x = x * x
        n -= 1""", "square-and-multiply halves wrongly")
M("C19", AL, """        p, a, b = extended_euclidean(r, q)
        return p, b, a""", """        p, a, b = extended_euclidean(r, q)
        return p, a, b""", "Euclid returns unswapped cofactors")
M("C19", AL, """                    sign*-2j*pi*n1/(N1*N2)""", """                    sign*2j*pi*n1/(N1*N2)""", "twiddle sign")
M("C19", AL, """    return (1/len(x))*fft(x, sign=-1,""", """    return (1/(len(x)+1))*fft(x, sign=-1,""", "ifft normalisation")
PL = "pymbolic/polynomial.py"
M("C19", PL, """            quot += this_fac
            rem -= this_fac * other""", """            quot += this_fac
            rem -= this_fac""", "divmod subtracts this_fac instead of this_fac*other")
M("C19", PL, """                uniq_result.pop()
                last_exp = None""", """                uniq_result.pop()""", "revert of fix 49e66f3 (_sort_uniq)")
M("C19", PL, """    def __rsub__(self, other):
        return (-self)+other""", """    def __rsub__(self, other):
        return (-other)+self""", "revert of fix 115b0c3 (__rsub__)")
M("C19", PL, """
    __bool__ = __nonzero__
""", """
""", "revert of fix 729f917 (__bool__)")
M("C19", "pymbolic/mapper/__init__.py", """        data = tuple((exp, self.rec(coeff, *args, **kwargs))
                                  for exp, coeff in expr.data)""", """        data = ((exp, self.rec(coeff, *args, **kwargs))
                                  for exp, coeff in expr.data)""", "revert of fix c0518c0 (map_polynomial generator)")
M("C19", "pymbolic/mapper/evaluator.py", """            result = (result+coeff)*ev_base**(exp-next_exp)""",
  """            result = (result+coeff)*ev_base**(exp-next_exp+0*i)+0""", "equivalent Horner (must stay silent)", expect="MISSED")
M("C19", "pymbolic/mapper/evaluator.py", """                next_exp = rev_data[i+1][0]
            else:
                next_exp = 0""", """                next_exp = rev_data[i+1][0]
            else:
                next_exp = rev_data[0][0]*0+ (1 if exp > 2 else 0)""", "Horner wrong exponent gap for lowest term")

M("C17", PR, """            return {attr_tuple}

        cls.__getstate__ = {cls.__name__}_getstate""", """            return self.__dict__

        cls.__getstate__ = {cls.__name__}_getstate""", "__getstate__ returns __dict__ (incl. cached hash)",
  also=[(PR, """            for name, value in zip({fld_name_tuple}, state):
                object.__setattr__(self, name, value)

        cls.__setstate__ = {cls.__name__}_setstate""", """            for name, value in (state.items() if isinstance(state, dict) else zip({fld_name_tuple}, state)):
                object.__setattr__(self, name, value)

        cls.__setstate__ = {cls.__name__}_setstate""")])
M("C17", "pymbolic/mapper/persistent_hash.py", """        self.key_hash.update(expr.name.encode("utf8"))""",
  """        self.key_hash.update(str(hash(expr.name)).encode("utf8"))""", "digest uses hash() of the name")
M("C17", "pymbolic/compiler.py", """    def __setstate__(self, state):
        self._compile(*state)""", """    def __setstate__(self, state):
        self._compile(state[0], [])""", "unpickled compiled expression forgets the listed variables")
M("C17", PR, """    def __getstate__(self) -> tuple[Any]:
        return self.__getinitargs__()""", """    def __getstate__(self) -> tuple[Any]:
        return (*self.__getinitargs__(), getattr(self, "_hash_value", None))""",
  "legacy state carries the cached hash",
  also=[(PR, """        assert len(self.init_arg_names) == len(state), type(self)
        for name, value in zip(self.init_arg_names, state):
            object.__setattr__(self, name, value)""", """        for name, value in zip(self.init_arg_names, state):
            object.__setattr__(self, name, value)
        if state[-1] is not None:
            object.__setattr__(self, "_hash_value", state[-1])""")])

TR = "pymbolic/imperative/transform.py"
M("C20", TR, """    stmt_id_gen = UniqueNameGenerator(
            {stmta.id for stmta in new_statements})""", """    stmt_id_gen = UniqueNameGenerator(
            {stmtb.id for stmtb in statements_b})""", "id generator seeded with the wrong stream")
M("C20", TR, """                        old_b_id_to_new_b_id[dep_id]
                        for dep_id in stmtb.depends_on)))""", """                        dep_id
                        for dep_id in stmtb.depends_on)))""", "dependencies not remapped")
ST = "pymbolic/imperative/statement.py"
M("C20", ST, """                .copy(condition=mapper(self.condition)))""", """                .copy(condition=self.condition))""",
  "condition not mapped in ConditionalAssignment.map_expressions")
M("C20", ST, """                    lhs=mapper(self.lhs) if include_lhs else self.lhs,""",
  """                    lhs=self.lhs if include_lhs else mapper(self.lhs),""", "include_lhs flipped")
M("C20", ST, """            return frozenset(dep.name for dep in get_deps(expr))""",
  """            return frozenset(dep.name for dep in get_deps(self.rhs))""", "revert of fix 42982ea (read variables)")
UT = "pymbolic/imperative/utils.py"
M("C20", UT, """    for stmt_1 in dep_graph:
        for stmt_2 in dep_graph.get(stmt_1, set()).copy():
            for stmt_3 in dep_graph.get(stmt_2, set()).copy():
                if stmt_3 in dep_graph.get(stmt_1, set()):
                    dep_graph[stmt_1].remove(stmt_3)""", """    for stmt_1 in dep_graph:
        for stmt_2 in dep_graph.get(stmt_1, set()):
            pass""", "no transitive reduction")
M("C20", UT, """        if not changed_something:
            break
""", """        break
""", "closure: a single sweep only")
M("C20", TR, """    for clash in id_a & id_b:
        if should_disambiguate_name(clash):""", """    for clash in id_a & id_b:
        if not should_disambiguate_name(clash):""", "filter inverted")
M("C20", TR, """    vng = UniqueNameGenerator(id_a | id_b)""", """    vng = UniqueNameGenerator(id_a)""", "fresh names may collide with stream b's own identifiers")

CO = "pymbolic/mapper/coefficient.py"
M("C15", CO, """        other_coeffs = 1
        for i, child_coeffs in enumerate(children_coeffs):
            if i != idx_of_child_with_vars:
                assert len(child_coeffs) == 1
                other_coeffs *= child_coeffs[1]""", """        other_coeffs = 1
        for i, child_coeffs in enumerate(children_coeffs[:2]):
            if i != idx_of_child_with_vars:
                assert len(child_coeffs) == 1
                other_coeffs *= child_coeffs[1]""", "coefficient from the first two factors only")
M("C15", CO, """                    if (idx_of_child_with_vars is not None
                            and idx_of_child_with_vars != i):""", """                    if (idx_of_child_with_vars is not None
                            and idx_of_child_with_vars > i):""", "nonlinearity check compares indices wrongly (still raises, KeyError: equivalent for 'it raises')", expect="MISSED")
M("C15", CO, """                if var in result:
                    result[var] += stride
                else:
                    result[var] = stride""", """                result[var] = stride""", "sum overwrites repeated variables")
M("C15", AL, """                mat[u] = u_fac*mat[u] - i_fac*mat[i]
                rhs[u] = u_fac*rhs[u] - i_fac*rhs[i]""", """                mat[u] = u_fac*mat[u] - i_fac*mat[i]
                rhs[u] = u_fac*rhs[u] + i_fac*rhs[i]""", "sign lost in a row operation on the rhs")
M("C15", AL, """        if abs(mat[nonz_row, j]) != 1:
            raise RuntimeError(
                    f"division with remainder in linear solve for '{unknown}'")""", """        if False:
            raise RuntimeError(
                    f"division with remainder in linear solve for '{unknown}'")""", "non-integrality test removed")
M("C15", AL, """        for parameter, coeff in zip(parameters_list, rhs_mat[nonz_row]):
            unknown_val += (int(coeff) // div) * parameter""", """        for parameter, coeff in zip(parameters_list, rhs_mat[j]):
            unknown_val += (int(coeff) // div) * parameter""", "back-substitution reads row j (pivot of column j is always in row j when it is unique: equivalent)", expect="MISSED")
M("C15", AL, """                ell = lcm(mat[u, j], mat[i, j])
                u_fac = ell//mat[u, j]
                i_fac = ell//mat[i, j]""", """                ell = mat[u, j] * mat[i, j]
                u_fac = ell//mat[u, j]
                i_fac = ell//mat[i, j]""", "lcm -> product (still correct: must stay silent)", expect="MISSED")
M("C15", AL, """                    mat[i_eqn, unknown_idx_lut[key]] += lhs_factor*coeff""",
  """                    mat[i_eqn, unknown_idx_lut[key]] = lhs_factor*coeff""", "revert of fix 2a9acf8 (accumulate)")
M("C15", AL, """        if not mat[i_row].any() and rhs_mat[i_row].any():
            raise RuntimeError("system of equations is inconsistent")""", """        pass""", "revert of fix 97414d8 (inconsistent systems)")
M("C15", AL, """        if np.count_nonzero(mat[nonz_row]) != 1:
            # the row still couples this unknown to another one
            raise RuntimeError(f"cannot uniquely solve for '{unknown}'")""", """        pass""", "revert of fix 56e573d (under-determined)")

UN = "pymbolic/mapper/unifier.py"
M("C16", UN, """        if name in map1:
            if map1[name] != value:
                return None""", """        if name in map1:
            pass""", "conflicting bindings of one variable accepted")
M("C16", UN, """        if (self.lhs_mapping_candidates is not None
                and lhs_is_var
                and lhs.name not in self.lhs_mapping_candidates):
            return None""", """        if (self.lhs_mapping_candidates is not None
                and lhs_is_var
                and lhs.name not in self.lhs_mapping_candidates):
            pass""", "undeclared variables may be bound")
M("C16", UN, """        if (not isinstance(other, type(expr))
                or expr.operator != other.operator):
            return self.treat_mismatch(expr, other, urecs)""", """        if not isinstance(other, type(expr)):
            return self.treat_mismatch(expr, other, urecs)""", "comparison operator not compared")
M("C16", UN, """                        yield result
                        continue""", """                        yield result
                        return""", "revert of fix 6271d5e (first partition only)")
M("C16", UN, """        if expr.name != other.name:
            return []

        return self.rec(expr.aggregate, other.aggregate, urecs)""", """        return self.rec(expr.aggregate, other.aggregate, urecs)""", "lookup names not compared (not in fragment: must stay silent)", expect="MISSED")
MP = "pymbolic/interop/matchpy/tofrom.py"
M("C16", MP, """        return p.Quotient(self.rec(expr.x1), self.rec(expr.x2))""",
  """        return p.Quotient(self.rec(expr.x2), self.rec(expr.x1))""", "quotient operands swapped on the way back")
M("C16", MP, """                           m.TupleOp(tuple(self.rec(idx)
                                           for idx in expr.index_tuple)))""", """                           m.TupleOp(tuple(self.rec(idx)
                                           for idx in expr.index_tuple[:1])))""", "only the first subscript index converted")
M("C16", "pymbolic/interop/matchpy/__init__.py", """        return tuple(from_matchpy_expr(el) for el in arg)
    else:
        return from_matchpy_expr(arg)""", """        return tuple(from_matchpy_expr(el) for el in arg[:1])
    else:
        return from_matchpy_expr(arg)""", "star binding truncated in match()")
M("C16", "pymbolic/interop/matchpy/__init__.py", """        if len(operands) == 1 and isinstance(operands[0], tuple):
            operands, = operands
        object.__setattr__(self, "_operands", tuple(operands))""", """        object.__setattr__(self, "_operands", operands[0] if len(operands) == 1 and isinstance(operands[0], tuple) else (_ for _ in ()).throw(TypeError("TupleOp")))""", "revert-like of fix 0272831 (TupleOp re-creation fails)")

M("C11", PR, """        if is_zero(item):
            return 0
        if is_zero(item - 1):
            continue""", """        if is_zero(item):
            return 0
        if is_zero(item):
            continue""", "flattened_product no longer drops 1 factors")
M("C11", PR, """        if is_zero(item):
            continue

        if isinstance(item, Sum):
            queue += item.children""", """        if is_zero(item - 1):
            continue

        if isinstance(item, Sum):
            queue += item.children""", "flattened_sum drops 1 instead of 0")
CF = "pymbolic/mapper/constant_folder.py"
M("C11", CF, """            constant = reduce(op, constants)
            return constructor((constant, *nonconstants))""", """            constant = reduce(op, constants[:2])
            return constructor((constant, *nonconstants))""", "fold uses the first two constants only")
M("C11", CF, """            if isinstance(child, klass):
                queue = list(child.children) + queue""", """            if isinstance(child, klass):
                queue = list(child.children[1:]) + queue""", "fold loses the first child of a nested node")
CL = "pymbolic/mapper/collector.py"
M("C11", CL, """            if mybase in base2exp:
                base2exp[mybase] += myexp
            else:
                base2exp[mybase] = myexp""", """            base2exp[mybase] = myexp""", "exponents overwritten instead of added")
M("C11", CL, """            term2coeff[term] = term2coeff.get(term, 0) + coeff""", """            term2coeff[term] = coeff""", "collector keeps only the last like term")
DI = "pymbolic/mapper/distributor.py"
M("C11", DI, """                rest = prod.children[len(leading)+1:]""", """                rest = prod.children[len(leading)+2:]""", "distribution drops a factor")
M("C11", DI, """        if isinstance(newbase, Product):
            return self.rec(pymbolic.flattened_product([
                child**expr.exponent for child in newbase.children
                ]))

        if isinstance(expr.exponent, int) and expr.exponent > 0:""", """        if isinstance(expr.base, Product):
            return self.rec(pymbolic.flattened_product([
                child**expr.exponent for child in newbase
                ]))

        if isinstance(expr.exponent, int):""", "revert of fix e73e5b6 (map_power)")
M("C11", CL, """        elif isinstance(mul_term, (Power, AlgebraicLeaf, Quotient)):""", """        elif isinstance(mul_term, (Power, AlgebraicLeaf)):""", "revert of fix 9a681b5 (quotient summand)")
M("C11", DI, """                       dist(pymbolic.flattened_product(
                           [*leading, sumchild, rest]))""", """                       pymbolic.flattened_product(leading) * dist(sumchild*rest)""", "revert of fix 1c69677 (leading factors)")

MI = "pymbolic/mapper/__init__.py"
M("C04", MI, """        for child in expr.parameters:
            self.rec(child, *args, **kwargs)

        for child in list(expr.kw_parameters.values()):
            self.rec(child, *args, **kwargs)""", """        for child in expr.parameters:
            self.rec(child, *args, **kwargs)""", "walk forgets kw-arguments")
M("C04", MI, """        self.rec(expr.condition, *args, **kwargs)
        self.rec(expr.then, *args, **kwargs)
        self.rec(expr.else_, *args, **kwargs)

        self.post_visit(expr, *args, **kwargs)

    def map_if_positive""", """        self.rec(expr.condition, *args, **kwargs)
        self.rec(expr.then, *args, **kwargs)

        self.post_visit(expr, *args, **kwargs)

    def map_if_positive""", "walk forgets the else branch")
M("C04", MI, """    def map_lookup(self, expr, *args, **kwargs):
        if not self.visit(expr, *args, **kwargs):
            return

        self.rec(expr.aggregate, *args, **kwargs)

        self.post_visit(expr, *args, **kwargs)""", """    def map_lookup(self, expr, *args, **kwargs):
        self.rec(expr.aggregate, *args, **kwargs)

        if not self.visit(expr, *args, **kwargs):
            return

        self.post_visit(expr, *args, **kwargs)""", "visit after the children (lookup)")
M("C04", MI, """        if (function is expr.function
            and all(child is orig_child
                for child, orig_child in zip(expr.parameters, parameters))):
            return expr

        return type(expr)(function, parameters)""", """        if (function is expr.function
            and all(child is orig_child
                for child, orig_child in zip(expr.parameters, expr.parameters))):
            return expr

        return type(expr)(function, parameters)""", "unchanged-test compares the old parameters with themselves")
M("C04", MI, """            for cls in type(expr).__mro__[1:]:
                method_name = getattr(cls, "mapper_method", None)
                if method_name:
                    method = getattr(self, method_name, None)
                    if method:
                        return method(expr, *args, **kwargs)
            else:
                return self.handle_unsupported_expression(expr, *args, **kwargs)
        else:
            return self.map_foreign(expr, *args, **kwargs)

    rec = __call__""", """            for cls in type(expr).__mro__[2:]:
                method_name = getattr(cls, "mapper_method", None)
                if method_name:
                    method = getattr(self, method_name, None)
                    if method:
                        return method(expr, *args, **kwargs)
            else:
                return self.handle_unsupported_expression(expr, *args, **kwargs)
        else:
            return self.map_foreign(expr, *args, **kwargs)

    rec = __call__""", "MRO fallback starts at [2:]")
M("C04", MI, """        if isinstance(expr, primitives.VALID_CONSTANT_CLASSES):
            return self.map_constant(expr, *args, **kwargs)
        elif is_numpy_array(expr):""", """        if isinstance(expr, primitives.VALID_CONSTANT_CLASSES):
            return self.map_constant(expr, *args)
        elif is_numpy_array(expr):""", "kwargs dropped for constants")
M("C04", MI, """        return self.combine((
            self.rec(expr.function, *args, **kwargs),
            *[self.rec(child, *args, **kwargs) for child in expr.parameters],
            *[self.rec(child, *args, **kwargs)
              for child in expr.kw_parameters.values()]
            ))""", """        return self.combine((
            self.rec(expr.function, *args, **kwargs),
            *[self.rec(child, *args, **kwargs) for child in expr.parameters],
            ))""", "combine forgets kw-argument values")
M("C04", MI, """            None if child is None else self.rec(child, *args, **kwargs)
            for child in expr.children
            ])
        if all(child is orig_child""", """            None if child is None else self.rec(child, *args, **kwargs)
            for child in expr.children[:2]
            ])
        if all(child is orig_child""", "identity drops the slice step")
M("C04", PR, """    if not sets_mapper_method:
        cls.mapper_method = intern(default_mapper_method_name)""", """    if not sets_mapper_method and not hasattr(cls, "mapper_method"):
        cls.mapper_method = intern(default_mapper_method_name)""", "derived name does not replace an inherited one")
M("C04", MI, """        for child in expr.children:
            if child is not None:
                self.rec(child, *args, **kwargs)
""", """        if expr.start is not None:
            self.rec(expr.start, *args, **kwargs)
        if expr.stop is not None:
            self.rec(expr.stop, *args, **kwargs)
        if expr.step is not None:
            self.rec(expr.step, *args, **kwargs)
""", "revert of fix 590ba4e (slice walk)")
M("C04", MI, """        if not self.visit(expr, *args, **kwargs):
            return

        self.rec(expr.child, *args, **kwargs)
        for v in expr.values:""", """        if not self.visit(expr):
            return

        self.rec(expr.child, *args, **kwargs)
        for v in expr.values:""", "revert of fix e81255c (substitution extra args)")

M("C05", MI, """        return (type(expr), expr, args, immutabledict(kwargs))""",
  """        return (expr, args, immutabledict(kwargs))""", "type(expr) removed from the cache key")
M("C05", MI, """        return (type(expr), expr, args, immutabledict(kwargs))""",
  """        return (type(expr), expr, immutabledict(kwargs))""", "args removed from the cache key")
M("C05", MI, """        return (type(expr), expr, args, immutabledict(kwargs))""",
  """        return (type(expr), expr, args)""", "kwargs removed from the cache key")
M("C05", MI, """    def __init__(self):
        self._cache: dict[Any, Any] = {}
        Mapper.__init__(self)""", """    _cache: dict[Any, Any] = {}

    def __init__(self):
        Mapper.__init__(self)""", "cache shared at class level")
M("C05", MI, """        result = self.rec_fallback(expr, *args, **kwargs)
        self._cache[cache_key] = result
        return result

    rec = __call__""", """        result = self.rec_fallback(expr, *args, **kwargs)
        return result

    rec = __call__""", "fallback results not stored (recomputed)")
M("C05", MI, """                result = method(expr, *args, **kwargs)
                self._cache[cache_key] = result
                return result""", """                result = method(expr, *args, **kwargs)
                if args:
                    return result
                self._cache[cache_key] = result
                return result""", "results with extra args not memoized")
M("C05", MI, """        key = (expr, *args)
        try:
            return ccd[key]""", """        key = expr.child
        try:
            return ccd[key]""", "CSE cache keyed by the child only (prefix/scope/args ignored)")
OP = "pymbolic/mapper/optimize.py"
M("C05", OP, """                       args=[arg for arg in node.args
                          if not self.drop_args or not isinstance(arg, ast.Starred)],""",
  """                       args=[arg for arg in node.args[:1]
                          if not self.drop_args or not isinstance(arg, ast.Starred)],""",
  "_VarArgsRemover drops real positional arguments")
M("C05", OP, """                cache_key_expr = ast.Tuple([expr_type, expr], ctx=Load())""",
  """                cache_key_expr = ast.Tuple([expr], ctx=Load())""", "inlined cache key without type(expr)")
M("C05", OP, """            mdef = deepcopy(method_defs[mname])""", """            mdef = method_defs[mname]""",
  "revert of fix 1b52e0e (module AST mutated in place)")
M("C05", OP, """                        body=_replace(node, func=Name(id="method", ctx=Load())),
                        orelse=fallback_call),
                    orelse=fallback_call)""", """                        body=fallback_call,
                        orelse=fallback_call),
                    orelse=fallback_call)""", "_RecInliner always calls the fallback")

SF = "pymbolic/mapper/stringifier.py"
M("C06", "pymbolic/parser.py", """                left_exp = primitives.Slice((None, None))""", """                left_exp = primitives.Slice((None,))""", "revert of fix 0948b37 (lone colon is a two-part slice)")
M("C06", SF, "PREC_BITWISE_AND = 9\nPREC_BITWISE_XOR = 8", "PREC_BITWISE_AND = 8\nPREC_BITWISE_XOR = 9", "PREC and/xor swapped")
M("C06", SF, """        if enclosing_prec > my_prec:
            return f"({s})"
        else:
            return s""", """        if enclosing_prec >= my_prec + 1:
            return f"({s})"
        else:
            return s""", "equivalent parenthesize_if_needed (must stay silent)", expect="MISSED")
M("C06", SF, """        kwargs["force_parens_around"] = (p.Quotient, p.FloorDiv, p.Remainder)
        return self.parenthesize_if_needed(
                self.join_rec("*", expr.children, PREC_PRODUCT, *args, **kwargs),""",
  """        return self.parenthesize_if_needed(
                self.join_rec("*", expr.children, PREC_PRODUCT, *args, **kwargs),""", "force_parens_around dropped in map_product")
M("C06", SF, """                and ("-" in result or "+" in result) \\
                and (enclosing_prec > PREC_SUM):
            return self.parenthesize(result)""", """                and ("-" in result or "+" in result) \\
                and (enclosing_prec > PREC_CALL):
            return self.parenthesize(result)""", "negative constants never parenthesized")
M("C06", SF, """                    self.rec(expr.shiftee, PREC_SHIFT+1, *args, **kwargs),
                    self.rec(expr.shift, PREC_SHIFT+1, *args, **kwargs)),
                enclosing_prec, PREC_SHIFT)

    def map_right_shift""", """                    self.rec(expr.shiftee, PREC_SHIFT, *args, **kwargs),
                    self.rec(expr.shift, PREC_SHIFT, *args, **kwargs)),
                enclosing_prec, PREC_SHIFT)

    def map_right_shift""", "+1 on left-shift operands removed")
M("C06", SF, """                    self.rec(expr.then, PREC_LOGICAL_OR, *args, **kwargs),
                    self.rec(expr.condition, PREC_LOGICAL_OR, *args, **kwargs),
                    self.rec(expr.else_, PREC_LOGICAL_OR, *args, **kwargs)),
                enclosing_prec, PREC_IF)

    def map_if_positive""", """                    self.rec(expr.then, PREC_IF, *args, **kwargs),
                    self.rec(expr.condition, PREC_IF, *args, **kwargs),
                    self.rec(expr.else_, PREC_IF, *args, **kwargs)),
                enclosing_prec, PREC_IF)

    def map_if_positive""", "map_if prints its parts at PREC_IF")
M("C06", SF, """                    self.rec(expr.base, PREC_POWER+1, *args, **kwargs),""",
  """                    self.rec(expr.base, PREC_POWER, *args, **kwargs),""", "revert of fix 8e63be9 (power base)")
M("C06", SF, """                    self.rec(expr.left, PREC_COMPARISON+1, *args, **kwargs),
                    expr.operator,
                    self.rec(expr.right, PREC_COMPARISON+1, *args, **kwargs)),""", """                    self.rec(expr.left, PREC_COMPARISON, *args, **kwargs),
                    expr.operator,
                    self.rec(expr.right, PREC_COMPARISON, *args, **kwargs)),""", "revert of fix 4332f71 (comparison chain)")
M("C06", SF, """                "not " + self.rec(expr.child, PREC_LOGICAL_AND+1, *args, **kwargs),
                enclosing_prec, PREC_LOGICAL_AND)""", """                "not " + self.rec(expr.child, PREC_UNARY, *args, **kwargs),
                enclosing_prec, PREC_UNARY)""", "revert of fix e3f06f1 (printer not)")
PA = "pymbolic/parser.py"
M("C06", PA, """_PREC_BITWISE_XOR = 125""", """_PREC_BITWISE_XOR = 120""", "revert of fix 7393236 (xor level)")
M("C06", PA, """_PREC_COMPARISON = 100

_PREC_BITWISE_OR = 120""", """_PREC_COMPARISON = 200

_PREC_BITWISE_OR = 120""", "revert of fix 60ad86c (comparison precedence)")

M("C07", PA, """_PREC_PLUS = 210
_PREC_TIMES = 220""", """_PREC_PLUS = 220
_PREC_TIMES = 210""", "plus and times precedence swapped")
M("C07", PA, """            left_exp = primitives.Power(
                    left_exp, self.parse_expression(pstate, _PREC_TIMES))""", """            left_exp = primitives.Power(
                    left_exp, self.parse_expression(pstate, _PREC_POWER))""", "power made left-associative")
M("C07", PA, """            (_lessequal, pytools.lex.RE(r"\\<=")),
            (_greaterequal, pytools.lex.RE(r"\\>=")),
            # must be before
            (_less, pytools.lex.RE(r"\\<")),
            (_greater, pytools.lex.RE(r"\\>")),""", """            (_less, pytools.lex.RE(r"\\<")),
            (_greater, pytools.lex.RE(r"\\>")),
            (_lessequal, pytools.lex.RE(r"\\<=")),
            (_greaterequal, pytools.lex.RE(r"\\>=")),""", "lexer: < before <=")
M("C07", PA, """            left_exp = If(condition, then_expr, else_expr)""", """            left_exp = If(condition, else_expr, then_expr)""", "then/else swapped")
M("C07", PA, """                kwargs[kw] = self.parse_expression(pstate, _PREC_COMMA)""", """                args.append(self.parse_expression(pstate, _PREC_COMMA))""", "kwargs parsed as positional")
M("C07", PA, """            left_exp = primitives.Remainder(
                    left_exp, self.parse_expression(pstate, _PREC_TIMES))""", """            left_exp = primitives.Remainder(
                    left_exp, self.parse_expression(pstate, _PREC_PLUS))""", "% right operand swallows a following *")
M("C07", PA, """        if not pstate.is_at_end():
            pstate.raise_parse_error("leftover input after completed parse")""", """        if False:
            pstate.raise_parse_error("leftover input after completed parse")""", "leftover input ignored")
M("C07", PA, """            right_exp = self.parse_expression(pstate, _PREC_TIMES)
            if isinstance(left_exp, primitives.Product):""", """            right_exp = self.parse_expression(pstate, _PREC_PLUS)
            if isinstance(left_exp, primitives.Product):""", "revert of fix be68ec1 (* right operand)")
M("C07", PA, """            left_exp = -self.parse_expression(pstate, _PREC_TIMES)  # pylint:disable=invalid-unary-operand-type""",
  """            left_exp = -self.parse_expression(pstate, _PREC_UNARY)  # pylint:disable=invalid-unary-operand-type""", "revert of fix 14cbeaa (unary minus vs **)")
M("C07", PA, """            left_exp = LogicalNot(
                    self.parse_expression(pstate, _PREC_LOGICAL_AND))""", """            left_exp = LogicalNot(
                    self.parse_expression(pstate, _PREC_UNARY))""", "revert of fix 83ae23e (not)")
M("C07", PA, """            (_true, pytools.lex.RE(r"True\\b")),""", """            (_true, pytools.lex.RE(r"True")),""", "revert of fix f52607e (True word boundary)")
M("C07", PA, """            else_expr = self.parse_expression(pstate, _PREC_IF - 1)""", """            else_expr = self.parse_expression(pstate)""", "revert of fix 0819658 (else swallows comma)")
M("C07", PA, """            if len(comparisons) == 1:
                left_exp, = comparisons
            else:
                left_exp = LogicalAnd(tuple(comparisons))""", """            left_exp = comparisons[0]
            for c in comparisons[1:]:
                left_exp = Comparison(left_exp, c.operator, c.right)""", "revert of fix 4e50aee (comparison chains)")
IA = "pymbolic/interop/ast.py"
M("C07", IA, """            ast.Invert: p.BitwiseNot,""", """            ast.Invert: _neg,""", "revert of fix 73282b0 (importer ~)")
M("C07", IA, """            ast.BitOr: _bitwise_or,""", """            ast.BitOr: p.BitwiseOr,""", "revert of fix 5465796 (importer |)")
M("C07", IA, """def _sub(x, y):
    return p.Sum((x, p.Product(((-1), y))))""", """def _sub(x, y):
    return p.Sum((y, p.Product(((-1), x))))""", "importer subtraction operands swapped")

CM = "pymbolic/compiler.py"
M("C13", CM, """        used_variables.sort(key=lambda var: var.name)
        all_variables = self._Variables + used_variables""", """        used_variables.sort(key=lambda var: var.name)
        all_variables = used_variables + self._Variables""", "listed variables appended last")
M("C13", CM, """        used_variables.sort(key=lambda var: var.name)""", """        used_variables.sort(key=lambda var: (len(var.name), var.name))""", "unlisted variables sorted by length first")
M("C13", CM, """        result = repr(expr)

        # same rule""", """        result = str(expr) if isinstance(expr, float) else repr(expr)
        result = result.replace("e+", "e") if False else result[:6]

        # same rule""", "constants truncated to 6 characters")
M("C13", CM, """    def __setstate__(self, state):
        self._compile(*state)""", """    def __setstate__(self, state):
        self._compile(state[0], sorted(state[1], key=str))""", "unpickling re-sorts the listed variables")
M("C13", IA, """        result = rec_children[-1]
        for child in rec_children[-2::-1]:
            result = ast.BinOp(child, op_type, result)""", """        result = rec_children[0]
        for child in rec_children[1:]:
            result = ast.BinOp(child, op_type, result)""", "n-ary fold swaps operand order (a-b style ops: quotient, shifts)")
M("C13", IA, """        return ast.IfExp(test=self.rec(expr.condition),
                         body=self.rec(expr.then),
                         orelse=self.rec(expr.else_))""", """        return ast.IfExp(test=self.rec(expr.condition),
                         body=self.rec(expr.else_),
                         orelse=self.rec(expr.then))""", "to-AST swaps the branches of If")
M("C13", IA, """                for kw, param in sorted(expr.kw_parameters.items())])""", """                for kw, param in sorted(expr.kw_parameters.items())][:1])""", "to-AST keeps one keyword argument")
M("C13", IA, """        return self._map_multi_children_op((expr.shiftee,
                                            expr.shift),
                                           ast.RShift())""", """        return self._map_multi_children_op((expr.numerator,
                                            expr.denominator),
                                           ast.RShift())""", "revert of fix 230b2a8 (right shift attributes)")
M("C13", IA, """        elif ((isinstance(expr, (int, float)) and expr < 0)
                or (isinstance(expr, (float, complex))
                    and repr(expr).startswith("-"))):""", """        elif False:""", "revert of fix c786cc1 (negative constants)")
M("C13", IA, """    dep_mapper = CachedDependencyMapper(composite_leaves=False)""", """    dep_mapper = CachedDependencyMapper(composite_leaves=True)""", "revert of fix 4d8ac06 (composite leaves)")
M("C13", CM, """        used_variables.sort(key=lambda var: var.name)""", """        used_variables.sort()""", "revert of fix bb03683 (unorderable variables)")
M("C13", CM, """        if not (result.startswith("(") and result.endswith(")")) \\
                and ("-" in result or "+" in result) \\
                and (enclosing_prec > PREC_SUM):
            return self.parenthesize(result)
        else:
            return result

    def map_polynomial""", """        return result

    def map_polynomial""", "revert of fix e2c7aa5 (negative constants in compile)")

CC = "pymbolic/mapper/c_code.py"
M("C14", SF, """                negatives.append(self.rec(neg_prod, PREC_PRODUCT, *args, **kwargs))""",
  """                negatives.append(self.rec(neg_prod, PREC_SUM, *args, **kwargs))""",
  "a + -1*(b+c) rewritten to a - b + c (lost parentheses)", shards=2)
M("C14", SF, """        negatives = self.join("",
                [self.format(" - %s", entry) for entry in negatives])""", """        negatives = self.join("",
                [self.format(" + %s", entry) for entry in negatives])""", "lost sign in a + -1*b -> a - b", shards=2)
M("C14", CC, """        return self.format("pow(%s, %s)",
                self.rec(expr.base, PREC_NONE),
                self.rec(expr.exponent, PREC_NONE))""", """        return self.format("pow(%s, %s)",
                self.rec(expr.exponent, PREC_NONE),
                self.rec(expr.base, PREC_NONE))""", "pow(b, a)", shards=2)
M("C14", CC, """                    i = 2
                    while True:
                        yield self.cse_prefix+"_"+expr.prefix + "_%d" % i
                        i += 1""", """                    i = 2
                    while True:
                        yield self.cse_prefix+"_"+expr.prefix + "_%d" % i""", "prefix counter not advanced", shards=2)
M("C14", CC, """        return self.format("(%s ? %s : %s)",
                self.rec(expr.condition, PREC_NONE),
                self.rec(expr.then, PREC_NONE),
                self.rec(expr.else_, PREC_NONE),
                )

    # }}}""", """        return self.format("(%s ? %s : %s)",
                self.rec(expr.condition, PREC_NONE),
                self.rec(expr.else_, PREC_NONE),
                self.rec(expr.then, PREC_NONE),
                )

    # }}}""", "ternary branches swapped", shards=2)
M("C14", CC, """        self.cse_names = {name for name, cse in cse_name_list}""", """        self.cse_names = {cse for name, cse in cse_name_list}""", "revert of fix 06da0a6 part 1 (names from code strings)", shards=2)
M("C14", CC, """        result.cse_to_name = {
                name_to_cse.get(name, cse): name for name, cse in cse_name_list}""", """        pass""", "revert of fix 06da0a6 part 2 (copies re-hoist)", shards=2)
M("C14", CC, """                    force_parens_around=(p.Quotient, p.Remainder)),""", """                    ),""", "revert of fix d6f4207 (a * b % c)", shards=2)
M("C14", CC, """                    self.rec(expr.left, PREC_SHIFT),
                    expr.operator,
                    self.rec(expr.right, PREC_SHIFT)),""", """                    self.rec(expr.left, PREC_COMPARISON),
                    expr.operator,
                    self.rec(expr.right, PREC_COMPARISON)),""", "revert of fix 4ab72dc (C comparison precedence)", shards=2)
M("C14", CC, """                return self.parenthesize_if_needed(
                        self.rec(square, PREC_NONE),
                        enclosing_prec, PREC_PRODUCT - 1)""", """                return self.rec(square, enclosing_prec)""", "revert of fix d9ec33f (square grouping)", shards=2)
M("C14", CC, """                return self.rec(expr.base, max(enclosing_prec, PREC_POWER))""", """                return self.rec(expr.base, enclosing_prec)""", "revert of fix d50f038 (base**1 grouping)", shards=2)
