import json, subprocess
props = {
 "0178b1f":"C18","e3f06f1":"C06","4332f71":"C06","8e63be9":"C06","0819658":"C07","f52607e":"C07","60ad86c":"C07",
 "7393236":"C07","83ae23e":"C07","14cbeaa":"C07","be68ec1":"C07","115b0c3":"C19","729f917":"C19","4ab72dc":"C14",
 "d6f4207":"C14","06da0a6":"C14","c786cc1":"C13","4d8ac06":"C13","230b2a8":"C13","73282b0":"C07","5465796":"C07",
 "e2c7aa5":"C13","bb03683":"C13","1b52e0e":"C05","6271d5e":"C16","9a681b5":"C11","e73e5b6":"C11","42982ea":"C20",
 "97414d8":"C15","2a9acf8":"C15","e81255c":"C04","c0518c0":"C04","49e66f3":"C19","56e573d":"C15","a764275":"C16","0272831":"C16","294cf90":"C07","261077d":"C13","4f1d12c":"C16","9cda97f":"C19","01bce4f":"C19","0948b37":"C06","d50f038":"C14","4ed0329":"C14","d9ec33f":"C14","4e50aee":"C07","7315bf4":"C07","590ba4e":"C04","1c69677":"C11","a51eb5f":"C16"}
also = {"e3f06f1":["C13"],"4332f71":["C13"],"8e63be9":["C13"],"60ad86c":["C06"],"7393236":["C06"],"14cbeaa":["C06"],"83ae23e":["C06"],
        "be68ec1":["C06"],"73282b0":["C13"],"5465796":["C13"],"c0518c0":["C19"],"01bce4f":["C10"],"4ed0329":["C06"]}
log = subprocess.run(["git","-C","/repo","log","--format=%h\t%s","5e6a5a9..HEAD"],capture_output=True,text=True).stdout.strip().splitlines()
kf = json.load(open('/verif/known_findings.json'))
have = {e.get("commit") for e in kf["findings"]}
fixed_lines = kf.setdefault("fixed", [])
for ln in reversed(log):
    h, subj = ln.split("\t",1)
    if h in have: continue
    what = subj[len("fix: "):]
    pid = props[h]
    kf["findings"].append({"id": f"{pid}-fixed-{h}", "property": pid, "also_properties": also.get(h, []),
        "status": "fixed", "commit": h, "mechanism": what,
        "note": "repaired in /repo; suppresses nothing: the witness class stays in the workload and a recurrence is a VIOLATION"})
    fixed_lines.append(f"fixed: property={pid} {h} {what}")
json.dump(kf, open('/verif/known_findings.json','w'), indent=1)
print(len(fixed_lines))
