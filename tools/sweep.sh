#!/bin/bash
# tools/sweep.sh "<thorough seeds>" "<quick seeds>": every check on the unchanged tree under
# further seeds (a background sweep; its output is read by hand, it is not evidence)
PROPS="C01 C02 C03 C04 C05 C06 C07 C08 C09 C10 C11 C12 C13 C14 C15 C16 C17 C18 C19 C20"
for s in $1; do for P in $PROPS; do echo "=== $P thorough seed $s"; /venv/bin/python -m vf.run $P thorough --seed $s 2>&1 | tail -12 | cut -c1-1500; done; done
for s in $2; do for P in $PROPS; do echo "=== $P quick seed $s"; /venv/bin/python -m vf.run $P quick --seed $s 2>&1 | tail -8 | cut -c1-1500; done; done
echo done
