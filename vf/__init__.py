"""Runtime-monitoring framework for inducer/pymbolic (see /verif/DESIGN.md).

Importing this package puts the repository under test first on sys.path
(VF_REPO, default /repo) and silences pymbolic's deprecation warnings.
"""
import os
import sys
import warnings

sys.dont_write_bytecode = True
sys.set_int_max_str_digits(0)    # witnesses may hold very large ints; printing them must not raise
os.environ.setdefault("PYTHONDONTWRITEBYTECODE", "1")

VERIF_DIR = os.path.dirname(os.path.dirname(os.path.abspath(__file__)))
REPO = os.path.abspath(os.environ.get("VF_REPO", "/repo"))

if REPO not in sys.path[:1]:
    sys.path.insert(0, REPO)

warnings.simplefilter("ignore")


def check_repo():
    """Assert that the pymbolic we monitor is the one in VF_REPO."""
    import pymbolic
    got = os.path.abspath(pymbolic.__file__)
    if not got.startswith(REPO + os.sep):
        raise RuntimeError(f"pymbolic imported from {got}, expected under {REPO}")
    return got
