"""Run context, verdicts, evidence and sharding for all property checks."""
from __future__ import annotations

import base64
import json
import os
import pickle
import random
import subprocess
import sys
import time
import traceback
from collections import Counter

from . import VERIF_DIR
from .ref import normal
from .ref.refsem import TooCostly

LEVEL = "exploration"
MAX_SAMPLES = 12
MAX_VIOLATIONS = 5

CASE_TIMEOUT = float(os.environ.get("VF_CASE_TIMEOUT", "20"))


class StopWorkload(BaseException):
    """ends a shard's workload early after repeated case time-outs"""


class CaseTimeout(BaseException):
    """raised by the per-case watchdog (BaseException: not swallowed by `except Exception`)"""

    def __init__(self, in_repo=True, where=""):
        super().__init__(where)
        self.in_repo = in_repo
        self.where = where


CHECKS = {}   # "Cxx.name" -> fn(ctx, case)
RULES = {}    # "Cxx" -> rule text


def check(name):
    def deco(fn):
        CHECKS[name] = fn
        fn.check_name = name
        return fn
    return deco


def load_known():
    path = os.path.join(VERIF_DIR, "known_findings.json")
    try:
        with open(path) as f:
            data = json.load(f)
    except FileNotFoundError:
        return {}
    return {e["id"]: e for e in data.get("findings", [])}


def short(x, n=300):
    s = x if isinstance(x, str) else repr(x)
    return s if len(s) <= n else s[:n] + f"...(+{len(s)-n})"


class Ctx:
    def __init__(self, prop, tier, seed, shard=0, nshards=1):
        self.prop = prop
        self.tier = tier
        self.seed = seed
        self.shard = shard
        self.nshards = nshards
        self.rng = random.Random(f"{prop}/{seed}/{shard}")
        self.evaluations = 0
        self.distinct = set()
        self.samples = []
        self.sample_kinds = Counter()
        self.counters = Counter()
        self.hist = Counter()
        self.violations = []
        self.vsigs = set()
        self.n_violation_events = 0
        self.known_seen = {}
        self.known_counts = Counter()
        self.exhaustive = {}
        self.notes = []
        self.inconclusive = []
        self.floors = {}
        self.known = load_known()
        self.t0 = time.time()
        self.thorough = tier == "thorough"
        self._enum_i = Counter()

    # -- workload helpers -------------------------------------------------
    def pick(self, quick, thorough):
        return thorough if self.thorough else quick

    def sub_rng(self, *tag):
        return random.Random(f"{self.prop}/{self.seed}/{self.shard}/{tag}")

    def mine(self, space):
        """Round-robin split of an enumerated space across shards."""
        i = self._enum_i[space]
        self._enum_i[space] += 1
        return i % self.nshards == self.shard

    def per_shard(self, n):
        """Split a total count of random cases across shards."""
        base = n // self.nshards
        return base + (1 if self.shard < n % self.nshards else 0)

    # -- accounting -------------------------------------------------------
    def case(self, key=None, nontrivial=True, n=1):
        """Record n judged executions; *key* is a hashable typed key of the
        input (None: not counted as distinct)."""
        self.evaluations += n
        if key is not None and nontrivial:
            self.distinct.add(normal.digest(key))

    def count(self, name, n=1):
        self.counters[name] += n

    def node(self, name, n=1):
        self.hist[name] += n

    def sample(self, kind, obj, per_kind=2):
        if self.sample_kinds[kind] < per_kind and len(self.samples) < 40:
            self.sample_kinds[kind] += 1
            self.samples.append({"workload": kind, "case": short(obj, 400)})

    def floor(self, name, n):
        """Deciding monitor *name* must have seen >= n events (whole run)."""
        self.floors[name] = max(n, self.floors.get(name, 0))

    def set_exhaustive(self, space, flag=True):
        self.exhaustive[space] = flag

    def note(self, s):
        if s not in self.notes:
            self.notes.append(s)

    # -- verdicts ---------------------------------------------------------
    def fail(self, check_name, case, sig, detail, finding=None):
        """Report a failed case.

        finding: id of a known finding the caller's classifier (incl. its
        explanation test) attributes this failure to, or None.  It suppresses
        the violation only if known_findings.json lists it with status
        'known'.
        """
        if finding is not None:
            ent = self.known.get(finding)
            if ent is not None and ent.get("status") == "known" \
                    and self.prop in [ent.get("property"), *ent.get("also_properties", [])]:
                self.known_counts[finding] += 1
                if finding not in self.known_seen:
                    self.known_seen[finding] = short(detail, 300)
                return
            sig = f"{sig}[{finding}]"
        self.n_violation_events += 1
        key = (check_name, sig)
        if key in self.vsigs:
            return
        self.vsigs.add(key)
        if len(self.violations) >= MAX_VIOLATIONS:
            return
        try:
            blob = base64.b64encode(pickle.dumps(case, protocol=4)).decode()
        except Exception as e:  # unpicklable case: keep source only
            blob = None
            detail = f"{detail} [case not picklable: {type(e).__name__}]"
        self.violations.append({
            "check": check_name, "signature": sig,
            "detail": short(detail, 2000), "case_repr": short(case, 3000),
            "case_pickle": blob, "seed": self.seed, "shard": self.shard,
            "tier": self.tier, "hashseed": os.environ.get("PYTHONHASHSEED")})

    def run(self, check_name, case):
        """Run a registered check on one case; unexpected exceptions of the
        harness or the code under test are violations (never silent); so is a
        case that does not finish within CASE_TIMEOUT seconds (generous: the
        slowest legitimate case takes well under a second)."""
        fn = CHECKS[check_name]
        import signal

        def _alarm(signum, frame):
            # attribute the runaway cost: is any frame of the code under test on the stack?
            from . import REPO
            root = os.path.realpath(REPO) + os.sep
            in_repo, where, f = False, "", frame
            while f is not None:
                fn_ = os.path.realpath(f.f_code.co_filename)
                if not where:
                    where = f"{os.path.basename(fn_)}:{f.f_code.co_name}"
                if fn_.startswith(root):
                    in_repo = True
                    where = f"{fn_[len(root):]}:{f.f_code.co_name}"
                    break
                f = f.f_back
            raise CaseTimeout(in_repo, where)
        # the watchdog counts the CPU time of THIS process (ITIMER_PROF), not wall-clock time:
        # a loaded machine must not turn a slow case into a verdict; time spent in child
        # processes (C compilers, C17's producer/consumer pairs) has its own, generous,
        # wall-clock limits whose firing is inconclusive
        limit = getattr(fn, "case_timeout", CASE_TIMEOUT)
        try:
            old = signal.signal(signal.SIGPROF, _alarm)
            signal.setitimer(signal.ITIMER_PROF, limit)
        except ValueError:      # not in the main thread
            old = None
        try:
            fn(self, case)
        except CaseTimeout as to:
            if not to.in_repo:
                # the oracle's own arithmetic (plain Python on numbers) ran away: the input is
                # too costly to judge, which says nothing about the code under test
                self.count("skipped_reference_did_not_finish")
                self.note(f"{check_name}: reference computation exceeded {limit}s of CPU time in "
                          f"{to.where}; case skipped")
                self.counters["case_timeouts_reference"] += 1
                if self.counters["case_timeouts_reference"] >= 8:
                    raise StopWorkload() from None
                return
            self.fail(check_name, case, "did-not-terminate",
                      f"case did not finish within {limit}s of CPU time (non-termination or runaway "
                      f"cost in the code under test, innermost frame {to.where})")
            self.counters["case_timeouts"] += 1
            if self.counters["case_timeouts"] >= 3:
                # every further witness costs a full watchdog interval: the violation is
                # recorded, stop this shard's workload
                raise StopWorkload() from None
        except RecursionError:
            self.count("recursion_skipped")
        except TooCostly:
            self.count("skipped_too_costly")
        except Exception as e:
            tb = traceback.format_exc(limit=6)
            where = traceback.extract_tb(e.__traceback__)[-1]
            self.fail(check_name, case,
                      f"unexpected:{type(e).__name__}@{os.path.basename(where.filename)}:{where.name}",
                      f"{type(e).__name__}: {e}\n{tb}")
        finally:
            if old is not None:
                signal.setitimer(signal.ITIMER_PROF, 0)
                signal.signal(signal.SIGPROF, old)

    # -- (de)serialisation for shard merging --------------------------------
    def dump(self):
        return {
            "evaluations": self.evaluations,
            "distinct": sorted(self.distinct),
            "samples": self.samples,
            "counters": dict(self.counters),
            "hist": dict(self.hist),
            "violations": self.violations,
            "n_violation_events": self.n_violation_events,
            "known_seen": self.known_seen,
            "known_counts": dict(self.known_counts),
            "exhaustive": self.exhaustive,
            "notes": self.notes,
            "inconclusive": self.inconclusive,
            "floors": self.floors,
            "wall_s": time.time() - self.t0,
        }


def merge(parts):
    out = {"evaluations": 0, "distinct": set(), "samples": [], "counters": Counter(),
           "hist": Counter(), "violations": [], "n_violation_events": 0,
           "known_seen": {}, "known_counts": Counter(), "exhaustive": {},
           "notes": [], "inconclusive": [], "floors": {}}
    vs = set()
    kinds = Counter()
    for d in parts:
        out["evaluations"] += d["evaluations"]
        out["distinct"].update(d["distinct"])
        for s in d["samples"]:
            if kinds[s["workload"]] < 2 and len(out["samples"]) < 40:
                kinds[s["workload"]] += 1
                out["samples"].append(s)
        out["counters"].update(d["counters"])
        out["hist"].update(d["hist"])
        out["n_violation_events"] += d["n_violation_events"]
        for v in d["violations"]:
            k = (v["check"], v["signature"])
            if k not in vs and len(out["violations"]) < MAX_VIOLATIONS:
                vs.add(k)
                out["violations"].append(v)
        for k, v in d["known_seen"].items():
            out["known_seen"].setdefault(k, v)
        out["known_counts"].update(d["known_counts"])
        for k, v in d["exhaustive"].items():
            out["exhaustive"][k] = out["exhaustive"].get(k, True) and v
        for n in d["notes"]:
            if n not in out["notes"]:
                out["notes"].append(n)
        out["inconclusive"].extend(d["inconclusive"])
        for k, v in d["floors"].items():
            out["floors"][k] = max(v, out["floors"].get(k, 0))
    return out


def write_evidence(prop, tier, seed, m, wall, nshards, assumptions):
    evdir = os.environ.get("VF_EVIDENCE_DIR") or os.path.join(VERIF_DIR, "evidence")
    os.makedirs(evdir, exist_ok=True)
    cov = {
        "evaluations": int(m["evaluations"]),
        "distinct_nontrivial": len(m["distinct"]),
        "rule": RULES.get(prop, ""),
        "samples": m["samples"],
        "exhaustive": bool(m["exhaustive"]) and all(m["exhaustive"].values()),
        "exhaustive_subspaces": m["exhaustive"],
        "monitor_events": dict(sorted(m["counters"].items())),
        "input_histogram": dict(sorted(m["hist"].items())),
        "floors": m["floors"],
        "known_findings_seen": {k: {"count": m["known_counts"][k], "example": v}
                                for k, v in sorted(m["known_seen"].items())},
        "violation_events": m["n_violation_events"],
        "shards": nshards,
        "string_hash_seeds": [os.environ.get("VF_HASHSEED") or hashseed_for(seed, s_)
                              for s_ in range(nshards)],
        "notes": m["notes"],
        "inconclusive": m["inconclusive"],
    }
    ev = {"property_id": prop, "tier": tier, "seed": seed, "level": LEVEL,
          "coverage": cov, "assumptions": assumptions,
          "wall_s": round(wall, 2), "violations": len(m["violations"])}
    path = os.path.join(evdir, f"{prop}.json")
    tmp = path + ".tmp"
    with open(tmp, "w") as f:
        json.dump(ev, f, indent=1, default=str)
    os.replace(tmp, path)
    return path


def write_replays(prop, m):
    out = []
    d = os.path.join(os.environ.get("VF_REPLAY_DIR")
                     or os.path.join(VERIF_DIR, "replays"), prop)
    for i, v in enumerate(m["violations"]):
        os.makedirs(d, exist_ok=True)
        path = os.path.join(d, f"{i}.json")
        with open(path, "w") as f:
            json.dump(v, f, indent=1)
        out.append(path)
    return out


def hashseed_for(seed, shard):
    """PYTHONHASHSEED of a shard: 0 for shard 0 (the historical setting), else derived"""
    return 0 if shard == 0 else (seed * 7919 + shard * 104729 + 17) % 4294967295 + 1


def run_shards(prop, tier, seed, nshards, timeout):
    """Run shards as subprocesses (no multiprocessing.Pool); returns (parts, problems)."""
    import tempfile
    tmpd = tempfile.mkdtemp(prefix=f"vf-{prop}-", dir=os.environ.get("VF_TMP"))
    procs = []
    env = dict(os.environ)
    env["PYTHONDONTWRITEBYTECODE"] = "1"
    pinned = os.environ.get("VF_HASHSEED")
    for s in range(nshards):
        # every shard under its OWN string-hash seed (set and dict-of-str iteration orders
        # differ between them), a function of (seed, shard): what a set happens to yield first
        # is part of the state space, and a violation is replayed under the seed it was seen with
        env["PYTHONHASHSEED"] = pinned if pinned is not None else str(hashseed_for(seed, s))
        out = os.path.join(tmpd, f"{s}.json")
        cmd = [sys.executable, "-m", "vf.run", prop, tier, "--seed", str(seed),
               "--shard", f"{s}/{nshards}", "--out", out]
        procs.append((s, out, subprocess.Popen(
            cmd, cwd=VERIF_DIR, env=env, stdout=subprocess.PIPE,
            stderr=subprocess.STDOUT, text=True)))
    parts, problems = [], []
    deadline = time.time() + timeout
    for s, out, pr in procs:
        try:
            o, _ = pr.communicate(timeout=max(1, deadline - time.time()))
        except subprocess.TimeoutExpired:
            pr.kill()
            o, _ = pr.communicate()
            problems.append(f"shard {s} watchdog ({timeout}s)")
            continue
        if pr.returncode != 0 or not os.path.exists(out):
            problems.append(f"shard {s} exit {pr.returncode}: {short(o[-1500:], 1500)}")
            continue
        with open(out) as f:
            parts.append(json.load(f))
    import shutil
    shutil.rmtree(tmpd, ignore_errors=True)
    return parts, problems
