"""Seeded, typed, biased expression generators and constructor-source rendering."""
from __future__ import annotations

from fractions import Fraction

import numpy as np
from immutabledict import immutabledict

import pymbolic.primitives as p
from ..ref import normal

CMP_OPS = ["<", "<=", "==", "!=", ">", ">="]


# {{{ constructor source (for human-readable replays / samples)

def src(x) -> str:
    """Python source that rebuilds *x* with `import pymbolic.primitives as p`."""
    if isinstance(x, p.Expression):
        from pymbolic.polynomial import Polynomial
        if isinstance(x, Polynomial):
            return f"Polynomial({src(x.base)}, {src(tuple(x.data))})"
        try:
            flds = normal.node_fields(x)
        except Exception:
            return repr(x)
        mod = "p." if type(x).__module__ == "pymbolic.primitives" else ""
        return f"{mod}{type(x).__name__}({', '.join(src(v) for _, v in flds)})"
    if isinstance(x, tuple):
        return "(" + ", ".join(src(c) for c in x) + ("," if len(x) == 1 else "") + ")"
    if isinstance(x, list):
        return "[" + ", ".join(src(c) for c in x) + "]"
    if isinstance(x, (dict, immutabledict)):
        inner = ", ".join(f"{k!r}: {src(v)}" for k, v in x.items())
        return ("immutabledict({%s})" if isinstance(x, immutabledict) else "{%s}") % inner
    if isinstance(x, np.ndarray):
        return f"np.array({src(x.tolist())}, dtype=object)"
    if isinstance(x, Fraction):
        return f"Fraction({x.numerator}, {x.denominator})"
    if isinstance(x, type):
        return x.__name__
    return repr(x)

# }}}


class TypedGen:
    """Well-typed evaluable expressions: sorts int, num (exact rational), bool.

    Names: int variables x y z, shift variable s, bool variable t, callables
    f(a, b), g(a, k=...), list a (len 3), 2x2 array m, object o with attribute
    `attr`.  `envs()` builds matching environments.
    """

    INT_KINDS = ["sum", "prod", "fdiv", "rem", "pow", "lsh", "rsh", "bnot", "bor",
                 "bxor", "band", "if", "min", "max", "cse", "call", "callkw", "sub",
                 "subt", "look", "neg", "subl"]
    NUM_KINDS = ["sum", "prod", "quot", "pow", "if", "min", "max", "cse", "int", "neg"]
    BOOL_KINDS = ["cmp", "cmp", "not", "or", "and", "ifb", "cse"]

    def __init__(self, rng, int_kinds=None, num_kinds=None, bool_kinds=None,
                 consts=(0, 1, -1, 2, 3, -3, 5), max_arity=3, leaf_p=0.22,
                 share_p=0.12, hist=None, containers=True):
        self.r = rng
        self.int_kinds = int_kinds or self.INT_KINDS
        self.num_kinds = num_kinds or self.NUM_KINDS
        self.bool_kinds = bool_kinds or self.BOOL_KINDS
        self.consts = consts
        self.max_arity = max_arity
        self.leaf_p = leaf_p
        self.share_p = share_p
        self.pool = {"int": [], "num": [], "bool": []}
        self.hist = hist
        self.wide_p = 0.012
        self.V = {n: p.Variable(n) for n in "xyzstfgamo"}

    def _note(self, e):
        if self.hist is not None and isinstance(e, p.Expression):
            self.hist[type(e).__name__] += 1
        return e

    def _arity(self, lo=1):
        return self.r.randint(lo, self.max_arity)

    def _shared(self, sort):
        pool = self.pool[sort]
        if pool and self.r.random() < self.share_p:
            e = self.r.choice(pool)
            if self.r.random() < 0.5:
                return e            # same object
            return _rebuild(e)      # equal, not identical
        return None

    def _keep(self, sort, e):
        if isinstance(e, p.Expression) and len(self.pool[sort]) < 30:
            self.pool[sort].append(e)
        return self._note(e)

    def int_leaf(self):
        r = self.r
        u = r.random()
        if u < 0.55:
            return self.V[r.choice("xyz")]
        if u < 0.62:
            return r.choice([True, False])
        if u < 0.66:
            return 2**70 + r.randint(0, 5)
        return r.choice(self.consts)

    def int(self, d):
        r = self.r
        if d <= 0 or r.random() < self.leaf_p:
            return self.int_leaf()
        s = self._shared("int")
        if s is not None:
            return s
        if r.random() < self.wide_p:
            # a WIDE node (9 .. 100 operands, shallow children): fast paths for the small case,
            # pairwise reductions and chunked buffers only differ past a threshold
            from . import scale
            w = r.choice(scale.SMALL_WIDTHS + [100])
            cls = r.choice([c for kk, c in (("sum", p.Sum), ("prod", p.Product), ("min", p.Min),
                                            ("max", p.Max), ("bor", p.BitwiseOr), ("bxor", p.BitwiseXor),
                                            ("band", p.BitwiseAnd)) if kk in self.int_kinds]
                           or [p.Sum])
            e = cls(tuple(self.int(min(d - 1, 1)) for _ in range(w)))
            if self.hist is not None:
                self.hist["wide-node"] += 1
            return self._note(e)
        k = r.choice(self.int_kinds)
        g = lambda: self.int(d - 1)  # noqa: E731
        V = self.V
        if k == "sum":
            e = p.Sum(tuple(g() for _ in range(self._arity(r.choice([0, 1, 2, 2])))))
        elif k == "prod":
            e = p.Product(tuple(g() for _ in range(self._arity(r.choice([0, 1, 2, 2])))))
        elif k == "neg":
            e = p.Product((-1, g()))
        elif k == "fdiv":
            e = p.FloorDiv(g(), g())
        elif k == "rem":
            e = p.Remainder(g(), g())
        elif k == "pow":
            e = p.Power(g(), r.choice([0, 1, 2, 3, 2, V["s"]]))
        elif k in ("lsh", "rsh"):
            cls = p.LeftShift if k == "lsh" else p.RightShift
            e = cls(g(), r.choice([0, 1, 2, 3, V["s"], p.Remainder(g(), 4), -1]
                                  if r.random() < 0.15 else [0, 1, 2, V["s"]]))
        elif k == "bnot":
            e = p.BitwiseNot(g())
        elif k in ("bor", "bxor", "band"):
            cls = {"bor": p.BitwiseOr, "bxor": p.BitwiseXor, "band": p.BitwiseAnd}[k]
            e = cls(tuple(g() for _ in range(self._arity())))
        elif k == "if":
            e = p.If(self.bool(d - 1), g(), g())
        elif k in ("min", "max"):
            e = (p.Min if k == "min" else p.Max)(tuple(g() for _ in range(self._arity())))
        elif k == "cse":
            e = p.CommonSubexpression(g(), r.choice([None, "c"]),
                                      r.choice([p.cse_scope.EVALUATION,
                                                p.cse_scope.EXPRESSION]))
        elif k == "call":
            e = p.Call(V["f"], (g(), g()))
        elif k == "callkw":
            if r.random() < 0.3:    # a callee that sees the ORDER of its keywords
                kw = {"zeta": g(), "alpha": g()} if r.random() < 0.7 else {"b": g(), "zeta": g()}
                e = p.CallWithKwargs(p.Variable("h"), (g(),), immutabledict(kw))
            else:
                kw = {"k": g(), "j": g()} if r.random() < 0.5 else {"j": g(), "k": g()}
                e = p.CallWithKwargs(V["g"], (g(),), immutabledict(kw))
        elif k == "sub":
            e = p.Subscript(V["a"], p.Remainder(g(), 3))
        elif k == "subl":
            e = p.Subscript((g(), g(), g()), r.choice([0, 1, 2, -1]))
        elif k == "subt":
            e = p.Subscript(V["m"], (p.Remainder(g(), 2), r.choice([0, 1])))
        elif k == "look":
            e = p.Lookup(V["o"], "attr")
        else:
            raise ValueError(k)
        return self._keep("int", e)

    def num(self, d):
        r = self.r
        if d <= 0 or r.random() < self.leaf_p:
            u = r.random()
            if u < 0.6:
                return self.V[r.choice("xyz")]
            if u < 0.7:
                return r.choice([1.5, 0.5, -2.25, 0.0, 1.0])
            return r.choice(self.consts)
        s = self._shared("num")
        if s is not None:
            return s
        k = r.choice(self.num_kinds)
        g = lambda: self.num(d - 1)  # noqa: E731
        if k == "sum":
            e = p.Sum(tuple(g() for _ in range(self._arity())))
        elif k == "prod":
            e = p.Product(tuple(g() for _ in range(self._arity())))
        elif k == "neg":
            e = p.Product((-1, g()))
        elif k == "quot":
            e = p.Quotient(g(), g())
        elif k == "pow":
            e = p.Power(g(), r.choice([0, 1, 2, 3, -1, -2]))
        elif k == "if":
            e = p.If(self.bool(d - 1), g(), g())
        elif k in ("min", "max"):
            e = (p.Min if k == "min" else p.Max)(tuple(g() for _ in range(self._arity())))
        elif k == "cse":
            e = p.CommonSubexpression(g())
        elif k == "int":
            return self.int(d - 1)
        else:
            raise ValueError(k)
        return self._keep("num", e)

    def bool(self, d):
        r = self.r
        if d <= 0 or r.random() < self.leaf_p:
            return r.choice([True, False, self.V["t"], self.V["t"]])
        s = self._shared("bool")
        if s is not None:
            return s
        k = r.choice(self.bool_kinds)
        if k == "cmp":
            op = r.choice(CMP_OPS)
            if r.random() < 0.3:
                e = p.Comparison(self.num(d - 1), op, self.num(d - 1))
            else:
                e = p.Comparison(self.int(d - 1), op, self.int(d - 1))
        elif k == "not":
            e = p.LogicalNot(self.bool(d - 1))
        elif k in ("or", "and"):
            cls = p.LogicalOr if k == "or" else p.LogicalAnd
            e = cls(tuple(self.bool(d - 1) for _ in range(self._arity())))
        elif k == "ifb":
            e = p.If(self.bool(d - 1), self.bool(d - 1), self.bool(d - 1))
        elif k == "cse":
            e = p.CommonSubexpression(self.bool(d - 1))
        else:
            raise ValueError(k)
        return self._keep("bool", e)

    def any_sort(self, d):
        u = self.r.random()
        if u < 0.55:
            return self.int(d)
        if u < 0.8:
            return self.num(d)
        return self.bool(d)


ATTR_NAMES = ["attr", "max_", "max", "_x", "x_", "x", "n_1_", "n_1", "lambda_", "lambda", "if_",
              "__d", "d__", "A", "a", "attr_", "_", "k2"]


class Obj:
    """Object bound to variable `o` (attribute lookups)."""

    def __init__(self, attr):
        self.attr = attr
        for i, nm in enumerate(ATTR_NAMES[1:]):     # every name its own value
            setattr(self, nm, attr + 10 * (i + 1))

    def __eq__(self, other):
        return isinstance(other, Obj) and other.attr == self.attr

    def __hash__(self):
        return hash(("Obj", self.attr))

    def __repr__(self):
        return f"Obj({self.attr!r})"


def fn_f(a, b):
    return a - 2 * b


def fn_g(a, k=0, j=1):
    return a + 3 * k - j


def fn_h(a, **kw):
    """sees the ORDER of its keywords (PEP 468): the i-th keyword given weighs i + 2"""
    out = a
    for i, (k, v) in enumerate(kw.items()):
        out = out + (i + 2) * v * (1 + len(k) % 3)
    return out


def base_env(x, y, z, s=1, t=True):
    m = np.empty((2, 2), dtype=object)
    m[0, 0], m[0, 1], m[1, 0], m[1, 1] = 4, -1, 7, 2
    return {"x": x, "y": y, "z": z, "s": s, "t": t, "f": fn_f, "g": fn_g, "h": fn_h,
            "a": [7, -8, 9], "m": m, "o": Obj(6)}


def _rebuild(e):
    """Equal-but-not-identical copy (one level deep is enough to break `is`)."""
    if isinstance(e, p.Expression) and normal.is_expr_dataclass(type(e)):
        import dataclasses
        return type(e)(*[getattr(e, f.name) for f in dataclasses.fields(e)])
    return e


def deep_rebuild(e, leaf=None):
    """Structurally equal copy sharing no Expression/tuple object with *e*; *leaf*, if given,
    is applied to every non-container leaf value (e.g. to turn numpy scalars into Python ones)."""
    if isinstance(e, p.Expression) and normal.is_expr_dataclass(type(e)):
        import dataclasses
        return type(e)(*[deep_rebuild(getattr(e, f.name), leaf) for f in dataclasses.fields(e)])
    if isinstance(e, tuple):
        return tuple(deep_rebuild(c, leaf) for c in e)
    if isinstance(e, list):
        return [deep_rebuild(c, leaf) for c in e]
    if isinstance(e, immutabledict):
        return immutabledict({k: deep_rebuild(v, leaf) for k, v in e.items()})
    if isinstance(e, np.ndarray):
        out = np.empty(e.shape, dtype=object)
        for i in np.ndindex(e.shape):
            out[i] = deep_rebuild(e[i], leaf)
        return out
    return leaf(e) if leaf is not None else e


class AnyGen:
    """Untyped trees over *all* node types, for structural properties."""

    KINDS = ["sum", "prod", "quot", "fdiv", "rem", "pow", "lsh", "rsh", "bnot", "bor",
             "bxor", "band", "cmp", "lnot", "lor", "land", "if", "min", "max", "call",
             "callkw", "sub", "subt", "subs", "look", "cse", "cse2", "subst", "deriv",
             "tuple"]
    LEAF_EXTRA = ["wild", "dot", "star", "fsym", "nan", "nan2"]

    def __init__(self, rng, kinds=None, names="xyzab", leaf_p=0.2, share_p=0.15,
                 max_arity=3, consts=(0, 1, -1, 2, 0.0, 1.0, True, False, -3, 1.5, 2**70),
                 leaf_extra=True, hist=None, exclude=()):
        self.r = rng
        self.kinds = [k for k in (kinds or self.KINDS) if k not in exclude]
        self.names = names
        self.leaf_p = leaf_p
        self.share_p = share_p
        self.max_arity = max_arity
        self.consts = consts
        self.leaf_extra = leaf_extra
        self.pool = []
        self.hist = hist
        self.falsy_p = 0.04
        self.wide_p = 0.012 if "tuple" in self.kinds else 0.0

    def leaf(self):
        r = self.r
        u = r.random()
        if u < 0.6:
            return p.Variable(r.choice(self.names))
        if self.leaf_extra and u < 0.68:
            k = r.choice(self.LEAF_EXTRA)
            return {"wild": p.Wildcard(), "dot": p.DotWildcard("d_"),
                    "star": p.StarWildcard("s_"), "fsym": p.FunctionSymbol(),
                    "nan": p.NaN(), "nan2": p.NaN(float)}[k]
        return r.choice(self.consts)

    def tup(self, d, lo=1):
        return tuple(self.gen(d) for _ in range(self.r.randint(lo, self.max_arity)))

    def gen(self, d):
        r = self.r
        if d <= 0 or r.random() < self.leaf_p:
            return self.leaf()
        if self.pool and r.random() < self.share_p:
            e = r.choice(self.pool)
            return e if r.random() < 0.5 else _rebuild(e)
        if r.random() < self.wide_p:
            from . import scale
            w = r.choice(scale.SMALL_WIDTHS + [100])
            kids = tuple(self.gen(min(d - 1, 1)) for _ in range(w))
            mk = r.choice([p.Sum, p.Product, p.Min, p.Max, p.BitwiseOr, p.LogicalAnd,
                           lambda t: p.Call(p.Variable("f"), t),
                           lambda t: p.Subscript(p.Variable("a"), t),
                           lambda t: t])
            if self.hist is not None:
                self.hist["wide-node"] += 1
            return mk(kids)
        if r.random() < self.falsy_p:
            # composite nodes that are FALSE in a boolean context (bool(Product((0, x))) is
            # False) and still mention a variable: `if child:`, `filter(None, ...)` and
            # `child or default` all mistake them for an omitted operand
            v = p.Variable(r.choice(self.names))
            e = r.choice([p.Product((0, v)), p.Quotient(0, v), p.Sum((p.Product((v, 0)),)),
                          p.FloorDiv(0, v), p.Remainder(p.Product((0, v)), 3)])
            if self.hist is not None:
                self.hist["falsy-composite"] += 1
            return e
        k = r.choice(self.kinds)
        g = lambda: self.gen(d - 1)  # noqa: E731
        nary = {"sum": p.Sum, "prod": p.Product, "bor": p.BitwiseOr, "bxor": p.BitwiseXor,
                "band": p.BitwiseAnd, "lor": p.LogicalOr, "land": p.LogicalAnd,
                "min": p.Min, "max": p.Max}
        binary = {"quot": p.Quotient, "fdiv": p.FloorDiv, "rem": p.Remainder,
                  "pow": p.Power, "lsh": p.LeftShift, "rsh": p.RightShift}
        if k in nary:
            e = nary[k](self.tup(d - 1, r.choice([0, 1, 2, 2])
                                 if k in ("sum", "prod") else 1))
        elif k in binary:
            e = binary[k](g(), g())
        elif k == "bnot":
            e = p.BitwiseNot(g())
        elif k == "lnot":
            e = p.LogicalNot(g())
        elif k == "cmp":
            e = p.Comparison(g(), r.choice(CMP_OPS), g())
        elif k == "if":
            e = p.If(g(), g(), g())
        elif k == "call":
            e = p.Call(r.choice([p.Variable("f"), p.Variable("g"), g()]),
                       self.tup(d - 1, 0))
        elif k == "callkw":
            # (also NO keyword at all: a CallWithKwargs node with an empty mapping is a node of
            #  its own, not a Call)
            keys = r.sample(["k", "j", "b"], r.choice([0, 1, 1, 2, 3]))
            e = p.CallWithKwargs(p.Variable("f"), self.tup(d - 1, 0),
                                 immutabledict({kk: g() for kk in keys}))
        elif k == "sub":
            e = p.Subscript(r.choice([p.Variable("a"), g()]), g())
        elif k == "subt":
            e = p.Subscript(p.Variable("a"), self.tup(d - 1, 2))
        elif k == "subs":
            n = r.randint(0, 3)
            parts = tuple(None if r.random() < 0.3 else g() for _ in range(n))
            e = p.Subscript(p.Variable("a"), p.Slice(parts))
        elif k == "look":
            # an attribute may be called like a variable of the tree (o.x next to x)
            e = p.Lookup(g(), r.choice(["attr", "real", "attr", r.choice(self.names)]))
        elif k == "cse":
            e = p.CommonSubexpression(g())
        elif k == "cse2":
            e = p.CommonSubexpression(g(), r.choice(["pre", "q", None]),
                                      r.choice([p.cse_scope.GLOBAL, p.cse_scope.EXPRESSION]))
        elif k == "subst":
            n = r.randint(1, 2)
            e = p.Substitution(g(), tuple(r.choice(self.names) for _ in range(n)),
                               tuple(g() for _ in range(n)))
        elif k == "deriv":
            e = p.Derivative(g(), tuple(r.choice(self.names)
                                        for _ in range(r.randint(1, 2))))
        elif k == "tuple":
            inner = self.tup(d - 1, 1)
            e = p.Subscript(p.Variable("a"), inner) if r.random() < 0.5 \
                else p.Call(p.Variable("f"), (inner,))
        else:
            raise ValueError(k)
        if self.hist is not None:
            self.hist[type(e).__name__] += 1
        if len(self.pool) < 40:
            self.pool.append(e)
        return e


def walk(e):
    """All sub-objects (pre-order, occurrences) via the typed field protocol."""
    yield e
    if isinstance(e, p.Expression):
        for _, v in normal.node_fields(e):
            yield from walk(v)
    elif isinstance(e, (tuple, list)):
        for c in e:
            yield from walk(c)
    elif isinstance(e, (dict, immutabledict)):
        for c in e.values():
            yield from walk(c)
    elif isinstance(e, np.ndarray):
        for c in e.flat:
            yield from walk(c)


def variables_of(e):
    return {x.name for x in walk(e) if isinstance(x, p.Variable)}
