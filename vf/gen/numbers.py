"""Kinds of numbers and special values.

Python's ints and floats are what tests use.  What flows through a symbolic library in use
also includes numpy scalars (fixed width: they wrap around; float32: they round; np.bool_:
`~` is logical), complex numbers, exact rationals made known through the constant registry,
bools used as ints, integer-valued floats where an int is usual, negative zero, infinities,
NaN, the largest and smallest doubles and ints that no double holds.  TWINS lists values
that compare EQUAL (==, and hash alike) across kinds: wherever equality decides something
(memo keys, "nothing changed" tests, merging of bindings) a twin must not stand in for its
sibling."""
from __future__ import annotations

import math
from fractions import Fraction

import numpy as np

INF, NAN = math.inf, math.nan

KINDS = {
    "int": [2, 7, -3, 1, 0],
    "bool": [True, False],
    "float": [2.5, -1.5, 0.5, 1e-3],
    "int-valued-float": [2.0, 1.0, 0.0, -3.0, 4.0, 40.0],
    "negzero": [-0.0],
    "np.int8": [np.int8(50), np.int8(-3), np.int8(127)],
    "np.int32": [np.int32(2), np.int32(-3), np.int32(46341), np.int32(2**31 - 1)],
    "np.int64": [np.int64(3), np.int64(-3), np.int64(2**62), np.int64(2**63 - 1)],
    "np.uint8": [np.uint8(200), np.uint8(3)],
    "np.float32": [np.float32(0.1), np.float32(4.0), np.float32(-2.0), np.float32(0.5)],
    "np.float64": [np.float64(4.0), np.float64(2.0), np.float64(-2.5), np.float64(0.0)],
    "np.bool_": [np.bool_(True), np.bool_(False)],
    "complex": [1j, -2j, 2 + 0j, complex(0, -1.5), 3 + 4j],
    "np.complex128": [np.complex128(1j), np.complex128(2 + 0j)],
    "bigint": [2**53 + 1, 2**63, 2**64 + 1, 10**30 + 7, -(2**70)],
    "bigfloat": [2.0**53, 1.7976931348623157e308, 5e-324, 1e20, 1e-05],
    "inf": [INF, -INF],
    "nan": [NAN],
    "fraction": [Fraction(1, 3), Fraction(-5, 2), Fraction(4, 1)],
}

# values that are == (and hash alike) across kinds
TWINS = [
    [2, 2.0, np.int32(2), np.int64(2), np.float32(2.0), np.float64(2.0), 2 + 0j, Fraction(2)],
    [1, True, 1.0, np.bool_(True), np.float64(1.0), np.int8(1)],
    [0, False, 0.0, -0.0, 0j, np.float64(0.0), np.int64(0)],
    [0.5, np.float32(0.5), np.float64(0.5), Fraction(1, 2)],
    [-3, -3.0, np.int64(-3), np.int8(-3), np.float32(-3.0)],
    [4.0, np.float64(4.0), 4, np.float32(4.0)],
    [2**53, 2.0**53, np.int64(2**53), np.float64(2.0**53)],
    [3, 3.0, np.int64(3), 3 + 0j],
]

ORDINARY = ("int", "float")


def pick(rng, kinds=None, exclude=()):
    """(kind, value)"""
    ks = [k for k in (kinds or KINDS) if k not in exclude]
    k = rng.choice(ks)
    return k, rng.choice(KINDS[k])


def value(rng, kinds=None, exclude=()):
    return pick(rng, kinds, exclude)[1]


def twin_pair(rng):
    """two == values of different kinds"""
    t = rng.choice(TWINS)
    a, b = rng.sample(range(len(t)), 2)
    return t[a], t[b]


def kind_of(v):
    t = type(v)
    return t.__name__ if t.__module__ == "builtins" else f"{t.__module__.split('.')[0]}.{t.__name__}"


def same_kind_and_value(a, b):
    """type-strict equality of two numbers: same class, same value, same sign of zero, NaN == NaN"""
    if type(a) is not type(b):
        return False
    try:
        if a != a and b != b:
            return True
    except Exception:  # noqa: BLE001
        pass
    if a != b:
        return False
    if isinstance(a, (float, np.floating)) and a == 0:
        return math.copysign(1.0, float(a)) == math.copysign(1.0, float(b))
    return True
