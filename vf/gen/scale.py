"""Sizes, magnitudes and lengths beyond what a hand-written test would use.

Fast paths, bounded tables, chunked conversions and pairwise reductions are correct for the
small case and wrong past a threshold (more than 8, 16 or 32 operands; the 33rd queue item; a
19-digit literal; the 1025th table entry; a 59-character prefix; values past 2**53).  The
thresholds are the implementer's, so the workloads walk through all the usual suspects: powers
of two and their neighbours, one past each, odd and even, and a few sizes well beyond."""
from __future__ import annotations

import pymbolic.primitives as p

WIDTHS = [9, 10, 12, 16, 17, 18, 19, 20, 24, 31, 32, 33, 34, 35, 40, 48, 63, 64, 65, 66, 67, 70,
          78, 96, 100, 127, 128, 129, 130]
SMALL_WIDTHS = [9, 12, 16, 17, 19, 33, 35, 66]
HUGE_WIDTHS = [255, 257, 1000, 1001, 1025, 1404]
BIG = [2**31 - 1, 2**31, 2**32 + 1, 2**53 - 1, 2**53, 2**53 + 1, 2**54 + 3, 2**60 + 1,
       2**62 + 3, 2**63 - 1, 2**63, 2**64, 2**64 + 1, 10**17 + 3, 10**18 - 1, 10**18,
       10**18 + 7, 10**19 + 7, 10**20, 2**100 + 1, 10**35 + 9, 10**36 + 1, 10**37 + 12345,
       3**80, 2**127 - 1]
NAME_LENGTHS = [1, 8, 20, 31, 32, 33, 57, 58, 59, 60, 62, 63, 64, 65, 70, 100, 130]


def width(rng, pool=WIDTHS):
    return rng.choice(pool)


def big(rng, signed=True):
    v = rng.choice(BIG) + rng.choice([0, 0, 1, -1, 2])
    return -v if signed and rng.random() < 0.3 else v


def name(rng, n=None, head="w"):
    """an identifier of exactly n characters (letters, digits, underscores)"""
    n = n or rng.choice(NAME_LENGTHS)
    out = head
    alphabet = "abcdefghij_0123456789"
    while len(out) < n:
        out += rng.choice(alphabet)
    return out[:n]


def variables(n, head="v"):
    return [p.Variable(f"{head}{i}") for i in range(n)]


def chain(cls, n, leaves, right=False):
    """a chain of n binary nodes of one class: ((l0 . l1) . l2) ... or its mirror image"""
    it = iter(leaves)
    acc = next(it)
    for _ in range(n):
        nxt = next(it)
        acc = cls(nxt, acc) if right else cls(acc, nxt)
    return acc
