"""Sizes, magnitudes and lengths beyond what a hand-written test would use.

Fast paths, bounded tables, chunked conversions and pairwise reductions are correct for the
small case and wrong past a threshold (more than 8, 16 or 32 operands; the 33rd queue item; a
19-digit literal; the 1025th table entry; a 59-character prefix; values past 2**53).  The
thresholds are the implementer's, so the workloads walk through all the usual suspects: powers
of two and their neighbours, one past each, odd and even, and a few sizes well beyond."""
from __future__ import annotations

import pymbolic.primitives as p

WIDTHS = [9, 10, 12, 16, 17, 18, 19, 20, 24, 31, 32, 33, 34, 35, 40, 48, 63, 64, 65, 66, 67, 70,
          78, 96, 100, 127, 128, 129, 130]
SMALL_WIDTHS = [9, 12, 16, 17, 19, 33, 35, 66]
HUGE_WIDTHS = [255, 257, 1000, 1001, 1025, 1404]
BIG = [2**31 - 1, 2**31, 2**32 + 1, 2**53 - 1, 2**53, 2**53 + 1, 2**54 + 3, 2**60 + 1,
       2**62 + 3, 2**63 - 1, 2**63, 2**64, 2**64 + 1, 10**17 + 3, 10**18 - 1, 10**18,
       10**18 + 7, 10**19 + 7, 10**20, 2**100 + 1, 10**35 + 9, 10**36 + 1, 10**37 + 12345,
       3**80, 2**127 - 1]
NAME_LENGTHS = [1, 8, 20, 31, 32, 33, 57, 58, 59, 60, 62, 63, 64, 65, 70, 100, 130]


def width(rng, pool=WIDTHS):
    return rng.choice(pool)


def big(rng, signed=True):
    v = rng.choice(BIG) + rng.choice([0, 0, 1, -1, 2])
    return -v if signed and rng.random() < 0.3 else v


def name(rng, n=None, head="w"):
    """an identifier of exactly n characters (letters, digits, underscores)"""
    n = n or rng.choice(NAME_LENGTHS)
    out = head
    alphabet = "abcdefghij_0123456789"
    while len(out) < n:
        out += rng.choice(alphabet)
    return out[:n]


def variables(n, head="v"):
    return [p.Variable(f"{head}{i}") for i in range(n)]


def chain(cls, n, leaves, right=False):
    """a chain of n binary nodes of one class: ((l0 . l1) . l2) ... or its mirror image"""
    it = iter(leaves)
    acc = next(it)
    for _ in range(n):
        nxt = next(it)
        acc = cls(nxt, acc) if right else cls(acc, nxt)
    return acc


def shared_contexts(s, c=3, z=None, cond=None):
    """Expressions in which the SAME object s stands at two or more places whose contexts differ
    (a loose one first, a tight one later, and the other way round).  A tree built by a
    generator has equal COPIES there; a tree built by a program that names a sub-expression and
    uses it twice has one object.  Whatever remembers a node by identity (its text, its
    derivative, 'already handled') answers the second place with the first place's answer."""
    z = z if z is not None else p.Variable("z")
    cond = cond if cond is not None else p.Comparison(z, ">", 0)
    f = p.Variable("f")
    return [
        p.Sum((s, p.Product((c, s)))),
        p.Sum((p.Product((c, s)), s)),
        p.If(cond, s, p.Product((s, z))),
        p.If(cond, p.Product((s, z)), s),
        p.Sum((p.Power(s, 3), p.Product((s, z)))),
        p.Sum((p.Product((s, z)), p.Power(s, 2))),
        p.Call(f, (s, p.Product((2, s)))),
        p.Sum((p.Call(f, (s, 1)), p.Product((-1, s)))),
        p.Product((p.Sum((s, 1)), s)),
        p.Quotient(s, p.Sum((p.Product((s, s)), 1))),
        p.Comparison(s, "<=", p.Product((s, 2))),
        p.Sum((s, s)),
        p.Product((s, s, z)),
    ]


def _slots(x):
    import dataclasses
    if not (isinstance(x, p.Expression) and dataclasses.is_dataclass(x)):
        return
    for f in dataclasses.fields(x):
        v = getattr(x, f.name)
        if isinstance(v, p.Expression):
            yield f.name, None, v
        elif isinstance(v, tuple):
            for i, c in enumerate(v):
                if isinstance(c, p.Expression):
                    yield f.name, i, c


def _replace_at(x, path, s):
    import dataclasses
    if not path:
        return s
    (f, i) = path[0]
    v = getattr(x, f)
    if i is None:
        nv = _replace_at(v, path[1:], s)
    else:
        nv = v[:i] + (_replace_at(v[i], path[1:], s),) + v[i + 1:]
    return dataclasses.replace(x, **{f: nv})


def graft(e, rng, composite_only=True, same_type=False, avoid_fields=("function", "aggregate"),
          accept=None):
    """e with ONE of its composite sub-expression objects also put at another place of the tree
    (in place of what stood there): a tree with a shared node, as a program builds when it names
    a sub-expression and uses it twice.  None when the tree has no two places to share between.
    same_type: only in place of a node of the same class; avoid_fields: never at or below these
    fields; accept(old, new): the caller's own fragment rules."""
    places = []

    def walk(x, path):
        places.append((path, x))
        for f, i, c in _slots(x):
            walk(c, path + ((f, i),))
    walk(e, ())
    sources = [(pa, n) for pa, n in places if pa and not isinstance(n, p.Slice)
               and (not composite_only or any(True for _ in _slots(n)))]
    if not sources:
        return None
    spath, s = rng.choice(sources)
    deep = avoid_fields != ("function", "aggregate")
    targets = [pa for pa, n in places
               if pa and pa[:len(spath)] != spath and spath[:len(pa)] != pa
               and not (pa[-1][0] in avoid_fields)
               and not (deep and any(f in avoid_fields for f, _ in pa))
               and (not same_type or type(n) is type(s))
               and n is not s
               and (accept is None or accept(n, s))]
    if not targets:
        return None
    return _replace_at(e, rng.choice(targets), s)


# depth: a construct nested in a construct of the same family, 3 .. 100 levels (a counter, a
# one-slot "enclosing operator", a loop that replaced a recursion are right for one and two
# levels and wrong from the third, or from some larger depth on)
NEST_DEPTHS = [3, 4, 5, 6, 8, 12, 20, 33, 64, 65, 70, 100]
SMALL_NEST_DEPTHS = [3, 4, 5, 6, 8]


def nest(wrap, depth, core):
    """wrap(wrap(... wrap(core, 0) ..., depth - 2), depth - 1): wrap gets the level it builds"""
    e = core
    for i in range(depth):
        e = wrap(e, i)
    return e


def family_towers(x=None, y=None):
    """name -> wrap(e, level): one level of a construct around e; towers of ONE family, and
    (alternating) of two families that belong together (sum in product in sum ...)"""
    x = x if x is not None else p.Variable("x")
    y = y if y is not None else p.Variable("y")
    f = p.Variable("f")
    a = p.Variable("a")
    return {
        "cse": lambda e, i: p.CommonSubexpression(e),
        "cse-prefixed": lambda e, i: p.CommonSubexpression(e, f"t{i % 3}"),
        "neg": lambda e, i: p.Product((-1, e)),
        "square": lambda e, i: p.Power(e, 2),
        "power-tower": lambda e, i: p.Power(2 if i % 2 else y, e),
        "quotient-num": lambda e, i: p.Quotient(e, i % 3 + 2),
        "quotient-den": lambda e, i: p.Quotient(i % 3 + 2, e),
        "floordiv": lambda e, i: p.FloorDiv(e, i % 3 + 2),
        "remainder": lambda e, i: p.Remainder(e, i % 5 + 7),
        "sum-in-product": lambda e, i: p.Sum((e, i + 1)) if i % 2 else p.Product((e, y)),
        "product-in-sum": lambda e, i: p.Product((e, 2)) if i % 2 else p.Sum((y, e)),
        "call": lambda e, i: p.Call(f, (e,)),
        "call-2nd-arg": lambda e, i: p.Call(f, (i, e)),
        "subscript-aggregate": lambda e, i: p.Subscript(e, p.Variable("ijk"[i % 3] + (str(i // 3) if i >= 3 else ""))),
        "subscript-index": lambda e, i: p.Subscript(a, e),
        "if-branch": lambda e, i: p.If(p.Comparison(y, "<", i), e, i),
        "if-condition": lambda e, i: p.If(p.Comparison(e, "<", i + 1), y, i),
        "bitwise-not": lambda e, i: p.BitwiseNot(e),
        "logical-not": lambda e, i: p.LogicalNot(e),
        "min": lambda e, i: p.Min((e, y)) if i % 2 else p.Max((e, i)),
        "lookup": lambda e, i: p.Lookup(e, "abc"[i % 3]),
    }
