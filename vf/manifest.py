"""Regenerate /verif/MANIFEST.json from the property modules that exist.

    python -m vf.manifest
"""
from __future__ import annotations

import importlib
import json
import os

from . import VERIF_DIR

PY = "/venv/bin/python"
ALL = [f"C{i:02d}" for i in range(1, 21)]


def main():
    checks, missing = [], []
    for pid in ALL:
        path = os.path.join(VERIF_DIR, "vf", "props", pid.lower() + ".py")
        if not os.path.exists(path):
            missing.append(pid)
            continue
        mod = importlib.import_module(f"vf.props.{pid.lower()}")
        if getattr(mod, "NOT_READY", False):
            missing.append(pid)
            continue
        checks.append({
            "property_id": pid,
            "quick_cmd": f"{PY} -m vf.run {pid} quick",
            "thorough_cmd": f"{PY} -m vf.run {pid} thorough",
            "evidence_file": f"/verif/evidence/{pid}.json",
            "replay_cmd_template": f"{PY} -m vf.run {pid} --replay {{path}}",
            "engine": "vf",
            "level_claimed": {
                "category": "exploration",
                "text": getattr(mod, "LEVEL_TEXT", mod.RULE),
                "design_ref": f"DESIGN.md section 5, {pid}",
            },
            "level_note": getattr(mod, "LEVEL_NOTE", "; ".join(getattr(mod, "ASSUMPTIONS", []))),
            "technique": getattr(mod, "TECHNIQUE", "runtime reference-model monitor over generated workloads"),
        })
    man = {
        "version": 1,
        "setup_cmd": f"{PY} -m vf.selfcheck",
        "hooks": {
            "guard": "PYMBOLIC_VERIF",
            "enable": "no source hooks: every observation point is public API, a type slot, "
                      "sys.monitoring or a subclass; checks import pymbolic from /repo's working tree "
                      "(VF_REPO overrides the path)",
            "baseline_off_cmd": "cd /repo && /venv/bin/python -m pytest -ra -q -p no:cacheprovider "
                                "--timeout=900 --continue-on-collection-errors",
            "source_commits": [],
            "add_only": True,
        },
        "engines": [{
            "name": "vf",
            "path": "/verif/vf",
            "serves_properties": [c["property_id"] for c in checks],
            "kind_free_text": "runtime monitoring: generated/enumerated workloads drive the real "
                              "pymbolic API; boundary wrappers, recording environments, instrumented "
                              "subclasses, sys.monitoring handler traces, cross-process event logs and "
                              "ASan/UBSan on generated C observe the executions; independent reference "
                              "models (denotational evaluator, child table, rational-function normal "
                              "form, dual numbers, Clifford product, CPython's parser, gcc) decide",
        }],
        "checks": checks,
        "notes": "exit 0 held / 1 VIOLATION / 2 INCONCLUSIVE; known findings are listed in "
                 "/verif/known_findings.json and printed as KNOWN-FINDING lines; "
                 "`python -m vf.muttest` self-tests the monitors against source mutations.",
        "not_applicable": [{"property_id": pid,
                            "reason": "check not built yet in this session (planned in DESIGN.md "
                                      "section 5); not claimed until its monitor exists and has been "
                                      "run silent on the unchanged tree"}
                           for pid in missing],
    }
    with open(os.path.join(VERIF_DIR, "MANIFEST.json"), "w") as f:
        json.dump(man, f, indent=1)
    print(f"MANIFEST.json: {len(checks)} checks, {len(missing)} not yet claimed")


if __name__ == "__main__":
    main()
