"""Streams of short-lived inputs through one long-lived object.

The usual way to use a mapper over the rows of a table is to keep ONE mapper and to build each
row's expression on the fly: the previous row is garbage by the time the next one is built, and
CPython hands its storage (and so its id()) to the new nodes.  State that a mapper keeps about
an input *object* rather than about its value (an id()-keyed table, a weak reference gone stale)
is invisible as long as all inputs of a history stay alive - which is what a harness that first
collects its inputs in a list always does.  each() drives such a stream without ever holding
two rows at a time, and reports how many rows had a node at an address an earlier row's node had occupied."""
from __future__ import annotations

from pymbolic.primitives import Expression

from ..gen import expr as G


def each(ctx, rows, fn, tag="stream"):
    """rows: an iterator building one input per step; fn(i, row) judges it.
    Nothing here keeps a row alive after fn returns."""
    seen = set()
    i = 0
    while True:
        try:
            row = next(rows)
        except StopIteration:
            return i
        ids = {id(x) for x in G.walk(row) if isinstance(x, Expression)} or {id(row)}
        if ids & seen:
            ctx.count(tag + ":row_address_reused")
        seen |= ids
        del ids
        ctx.count(tag + ":rows")
        fn(i, row)
        del row
        i += 1
