"""sys.monitoring (PEP 669) recorder for mapper handlers.

Counts PY_START events per code object for the functions defined in the given
modules; optionally hands (qualname, frame) to a callback so a monitor can read
`self` / `expr` of the started handler.  Keyed by code object, so aliases such
as `rec = __call__` or `map_product = map_sum` are attributed correctly.
"""
from __future__ import annotations

import sys
import types
from collections import Counter

_TOOL = 4


def code_objects(mod):
    seen = set()
    for obj in vars(mod).values():
        if isinstance(obj, type) and obj.__module__ == mod.__name__:
            for m in vars(obj).values():
                if isinstance(m, (staticmethod, classmethod)):
                    m = m.__func__
                if isinstance(m, types.FunctionType) and m.__code__ not in seen:
                    seen.add(m.__code__)
                    yield m.__code__
        elif isinstance(obj, types.FunctionType) and obj.__module__ == mod.__name__:
            if obj.__code__ not in seen:
                seen.add(obj.__code__)
                yield obj.__code__


class HandlerTrace:
    def __init__(self, modules, callback=None, only=None):
        self.mon = sys.monitoring
        self.counts = Counter()
        self.callback = callback
        self.codes = []
        for m in modules:
            for c in code_objects(m):
                if only is None or only(c):
                    self.codes.append(c)
        self.active = False

    def _on_start(self, code, offset):
        self.counts[code.co_qualname] += 1
        if self.callback is not None:
            f = sys._getframe(1)
            if f.f_code is code:
                self.callback(code.co_qualname, f)

    def __enter__(self):
        mon = self.mon
        mon.use_tool_id(_TOOL, "vf-trace")
        mon.register_callback(_TOOL, mon.events.PY_START, self._on_start)
        for c in self.codes:
            mon.set_local_events(_TOOL, c, mon.events.PY_START)
        self.active = True
        return self

    def __exit__(self, *exc):
        mon = self.mon
        for c in self.codes:
            mon.set_local_events(_TOOL, c, 0)
        mon.register_callback(_TOOL, mon.events.PY_START, None)
        mon.free_tool_id(_TOOL)
        self.active = False
        return False

    def handlers(self, prefix="map_"):
        return {k: v for k, v in self.counts.items()
                if k.rsplit(".", 1)[-1].startswith(prefix)}
