"""Explanation test for the finding "memo tables are keyed by ==".

pymbolic's structural == (rightly, C01) calls Power(1, 3) and Power(1.0, 3) equal.  The
memo table of CachedMapper and the per-instance CSE table of CSECachingMapperMixin use that
== for their keys (bare constants are told apart by type(expr) in the key, composites are
not), so the second of two such twins is answered with the first one's result.

`typed(cls)` derives, from any mapper class, the same mapper with *typed* structural keys in
both tables.  If a discrepancy disappears with that single change and the input really holds
a pair of ==-but-differently-typed composites, it is attributed to the finding; any other
cause still shows with the typed keys and stays a violation.  Because typed(cls) replaces the
key functions themselves, a defect IN them would be repaired along the way: the attribution
also demands that `refkeys(cls)` -- the documented ==-keys re-implemented here -- fails in the
same way as the real class.
"""
from __future__ import annotations

import numpy as np
import pymbolic.primitives as p
from immutabledict import immutabledict

from ..gen import expr as G
from ..ref import normal

KF_TWINS = "C05-memo-keys-conflate-equal-composites-of-different-constant-type"

_cache = {}


class _TypedKeys:
    def get_cache_key(self, expr, *args, **kwargs):
        return (type(expr), normal.typed_key(expr), args, immutabledict(kwargs))

    def map_common_subexpression(self, expr, *args, **kwargs):
        unc = getattr(self, "map_common_subexpression_uncached", None)
        if unc is None:
            return super().map_common_subexpression(expr, *args, **kwargs)
        tab = self.__dict__.setdefault("_vf_typed_cse", {})
        key = (normal.typed_key(expr), args, tuple(sorted(kwargs.items())))
        try:
            return tab[key]
        except KeyError:
            r = tab[key] = unc(expr, *args, **kwargs)
            return r


class _RefKeys:
    """the two key functions exactly as documented, re-implemented here: a run that fails with
    the real class must fail the same way with these, or the real key functions are off"""

    def get_cache_key(self, expr, *args, **kwargs):
        return (type(expr), expr, args, immutabledict(kwargs))

    def map_common_subexpression(self, expr, *args, **kwargs):
        unc = getattr(self, "map_common_subexpression_uncached", None)
        if unc is None:
            return super().map_common_subexpression(expr, *args, **kwargs)
        tab = self.__dict__.setdefault("_vf_ref_cse", {})
        key = (expr, *args)
        try:
            return tab[key]
        except KeyError:
            r = tab[key] = unc(expr, *args, **kwargs)
            return r


def refkeys(cls):
    try:
        return _cache[("ref", cls)]
    except KeyError:
        t = _cache[("ref", cls)] = type("RefKeys" + cls.__name__, (_RefKeys, cls), {})
        return t


def typed(cls):
    try:
        return _cache[cls]
    except KeyError:
        t = _cache[cls] = type("Typed" + cls.__name__, (_TypedKeys, cls), {})
        return t


def has_twins(*objs):
    """Some two composite sub-objects are == (same class) yet differ in a constant's type -- or
    two float zeros differ in their sign."""
    byeq = {}
    for o in objs:
        for s in G.walk(o):
            if isinstance(s, (p.Expression, tuple)):
                try:
                    byeq.setdefault((type(s), s), set()).add(normal.typed_key(s))
                except TypeError:
                    pass
            elif isinstance(s, (float, np.floating)) and s == 0:
                # 0.0 and -0.0: equal, of one type, and still two values (1 / x, copysign) --
                # the same ==-keyed tables answer the second with the first
                byeq.setdefault((type(s), 0.0), set()).add(normal.typed_key(s))
    return any(len(v) > 1 for v in byeq.values())
