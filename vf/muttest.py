"""Self-test of the monitors: apply small source mutations (text replacement)
to a scratch worktree of the repository and require the named property's
check to report a violation.

    python -m vf.muttest [--tier quick] [--only C02,C05] [--name substr]

Mutations live in /verif/selftest/mutations.py as
    M("C02", "pymbolic/mapper/evaluator.py", "old text", "new text", note="...")
The scratch worktree is created under $VF_TMP (default /tmp) and removed at
the end.  Nothing is ever written to /repo.
"""
from __future__ import annotations

import argparse
import importlib.util
import os
import shutil
import subprocess
import sys
import tempfile
import time
from concurrent.futures import ThreadPoolExecutor

from . import VERIF_DIR

REPO = "/repo"


def load_mutations():
    path = os.path.join(VERIF_DIR, "selftest", "mutations.py")
    spec = importlib.util.spec_from_file_location("vf_mutations", path)
    mod = importlib.util.module_from_spec(spec)
    spec.loader.exec_module(mod)
    return mod.MUTATIONS


def make_copy(dst):
    """Copy of the working tree's pymbolic package + test dir (small)."""
    os.makedirs(dst)
    for sub in ("pymbolic", "test"):
        shutil.copytree(os.path.join(REPO, sub), os.path.join(dst, sub),
                        ignore=shutil.ignore_patterns("__pycache__", "*.pyc"))


def run_one(mut, tier, base_tmp, run_tests):
    d = tempfile.mkdtemp(prefix="vfmut-", dir=base_tmp)
    repo = os.path.join(d, "repo")
    try:
        make_copy(repo)
        path = os.path.join(repo, mut["file"])
        s = open(path).read()
        if s.count(mut["old"]) < 1:
            return mut, "STALE", "old text not found"
        s2 = s.replace(mut["old"], mut["new"], mut.get("count", 1))
        open(path, "w").write(s2)
        for f2, old2, new2 in mut.get("also", []):
            p2 = os.path.join(repo, f2)
            t2 = open(p2).read()
            if old2 not in t2:
                return mut, "STALE", "also: old text not found"
            open(p2, "w").write(t2.replace(old2, new2, 1))
        env = dict(os.environ, VF_REPO=repo, VF_TMP=d, PYTHONDONTWRITEBYTECODE="1",
                   VF_EVIDENCE_DIR=os.path.join(d, "evidence"),
                   VF_REPLAY_DIR=os.path.join(d, "replays"))
        tests = ""
        if run_tests:
            tp = subprocess.run(
                [sys.executable, "-m", "pytest", "-q", "-x", "-p", "no:cacheprovider",
                 "test/test_pymbolic.py", "test/test_pattern_match.py",
                 "test/test_persistent_hash.py", "test/test_matchpy.py"],
                cwd=repo, env=dict(env, PYTHONPATH=repo), capture_output=True, text=True)
            tests = "tests-pass" if tp.returncode == 0 else "TESTS-FAIL"
        t0 = time.time()
        pr = subprocess.run([sys.executable, "-m", "vf.run", mut["prop"], tier,
                             "--shards", str(mut.get("shards", 4))],
                            cwd=VERIF_DIR, env=env, capture_output=True, text=True)
        dt = time.time() - t0
        out = pr.stdout + pr.stderr
        sigs = [ln.strip() for ln in out.splitlines() if "signature=" in ln]
        expect = mut.get("expect", "CAUGHT")
        if pr.returncode == 1 and "VIOLATION" in out:
            st = "CAUGHT" if expect == "CAUGHT" else "FALSE-ALARM(expected silent)"
            return mut, st, f"{dt:.0f}s {tests} {sigs[:2]}"
        if expect == "MISSED" and pr.returncode == 0:
            return mut, "CAUGHT", f"silent as expected (equivalent mutant) {dt:.0f}s"
        return mut, "MISSED", f"exit={pr.returncode} {dt:.0f}s {tests} {out[-400:]}"
    finally:
        shutil.rmtree(d, ignore_errors=True)


def main():
    ap = argparse.ArgumentParser()
    ap.add_argument("--tier", default="quick")
    ap.add_argument("--only", default="")
    ap.add_argument("--name", default="")
    ap.add_argument("--jobs", type=int, default=4)
    ap.add_argument("--tests", action="store_true",
                    help="also run the repository's tests on each mutant")
    a = ap.parse_args()
    muts = load_mutations()
    if a.only:
        keep = set(a.only.upper().split(","))
        muts = [m for m in muts if m["prop"] in keep]
    if a.name:
        muts = [m for m in muts if a.name in m["note"] or a.name in m["new"]]
    base = os.environ.get("VF_TMP", "/tmp")
    res = []
    with ThreadPoolExecutor(a.jobs) as ex:
        for mut, status, info in ex.map(lambda m: run_one(m, a.tier, base, a.tests), muts):
            print(f"{status:7s} {mut['prop']} {mut['note']}: {info}", flush=True)
            res.append(status)
    print({s: res.count(s) for s in set(res)})
    return 0 if all(s == "CAUGHT" for s in res) else 1


if __name__ == "__main__":
    sys.exit(main())
