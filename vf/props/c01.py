"""C01 — structural equality, consistent hashing, immutability of expression nodes."""
from __future__ import annotations

import copy
import dataclasses
import pickle
from collections.abc import Mapping

import numpy as np
from immutabledict import immutabledict

import pymbolic.primitives as p
from pymbolic.mapper import IdentityMapper
from pymbolic.mapper.dependency import DependencyMapper
from pymbolic.mapper.substitutor import make_subst_func, SubstitutionMapper

from .. import usertypes as U
from ..core import check, short
from ..gen import expr as G
from ..gen import numbers, scale
from ..ref import normal

RULE = ("pair pools: ~150 objects per pool built so every node class (built-in, decorated user, "
        "legacy) occurs, every object has an equal-not-identical twin and, for every class and every "
        "field, a variant differing in exactly that field; ALL ordered pairs are compared (==, !=, "
        "hash, dict/set substitution) against an independent field-wise equality.  Histories: random "
        "interleavings of hash/==/copy/deepcopy/pickle/replace/str/mappers/dict use/setattr/delattr on "
        "a fixed pool with an invariant hook (hash and typed field snapshot unchanged) after every "
        "step.  A case is distinct by the typed key of the object (pair); non-trivial: >=1 operator "
        "node or a user/legacy class instance.")
ASSUMPTIONS = [
    "Rational, Polynomial and MultiVector define their own equality and are judged in C18/C19",
    "float nan *constants* inside a node follow Python's == on fields (identity shortcut in tuples)",
    "default interpreter mode (__debug__ true): frozen dataclasses",
]

KF_LEGACY = "C01-legacy-attributes-rebindable"


# {{{ independent equality

def ref_eq(a, b):
    if a is b:
        return True
    if isinstance(a, p.Expression) or isinstance(b, p.Expression):
        if type(a) is not type(b):
            return False
        fa, fb = normal.node_fields(a), normal.node_fields(b)
        if len(fa) != len(fb):
            return False
        return all(na == nb and ref_eq(va, vb) for (na, va), (nb, vb) in zip(fa, fb))
    if isinstance(a, tuple) and isinstance(b, tuple):
        return len(a) == len(b) and all(ref_eq(x, y) for x, y in zip(a, b))
    if isinstance(a, Mapping) and isinstance(b, Mapping):
        return set(a) == set(b) and all(ref_eq(a[k], b[k]) for k in a)
    if isinstance(a, (tuple, Mapping)) or isinstance(b, (tuple, Mapping)):
        return False
    try:
        # numpy compares a float64 with a Python int by rounding the int to a double
        # (np.float64(2.0**53) == 2**53 + 1) although their hashes differ: "pairwise-equal
        # fields" is read with Python's exact comparison of the numbers the scalars hold
        if isinstance(a, np.generic) and isinstance(b, int) and not isinstance(b, bool):
            a = a.item()
        elif isinstance(b, np.generic) and isinstance(a, int) and not isinstance(a, bool):
            b = b.item()
        return bool(a == b)
    except Exception:
        return False

# }}}


# {{{ pools

def class_examples(rng, g, e=None):
    """At least one instance of every class of interest, with random children
    (or children drawn by *e*)."""
    if e is None:
        e = lambda: g.gen(rng.randint(0, 2))  # noqa: E731
    x = p.Variable("x")
    out = [
        p.Variable("x"), p.Variable("y"), p.Wildcard(), p.DotWildcard("w"), p.StarWildcard("w"),
        p.FunctionSymbol(), p.NaN(), p.NaN(float), p.NaN(np.float32),
        p.Call(x, (e(), e())), p.Call(x, ()),
        p.CallWithKwargs(x, (e(),), immutabledict({"a": e(), "b": 2})),
        p.CallWithKwargs(x, (e(),), {"b": 2, "a": 1}),
        # keyword arguments given as a plain (mutable) dict, also an EMPTY one, vs. the frozen form
        p.CallWithKwargs(x, (x,), {}), p.CallWithKwargs(x, (x,), immutabledict()),
        p.CallWithKwargs(x, (), {"a": 1}), p.CallWithKwargs(x, (), immutabledict({"a": 1})),
        p.Subscript(x, e()), p.Subscript(x, (e(), 1)), p.Lookup(e(), "nm"),
        p.Sum((e(), e())), p.Sum(()), p.Sum((e(),)), p.Product((e(), e())), p.Product(()),
        p.Quotient(e(), e()), p.FloorDiv(e(), e()), p.Remainder(e(), e()), p.Power(e(), e()),
        p.LeftShift(e(), e()), p.RightShift(e(), e()), p.BitwiseNot(e()),
        p.BitwiseOr((e(), e())), p.BitwiseXor((e(), e())), p.BitwiseAnd((e(), e())),
        p.Comparison(e(), "<", e()), p.Comparison(e(), "==", e()),
        p.LogicalNot(e()), p.LogicalOr((e(), e())), p.LogicalAnd((e(), e())),
        p.If(e(), e(), e()), p.Min((e(), e())), p.Max((e(), e())),
        p.CommonSubexpression(e()), p.CommonSubexpression(e(), "pfx"),
        p.CommonSubexpression(e(), "pfx", p.cse_scope.GLOBAL),
        p.Substitution(e(), ("x", "y"), (e(), e())), p.Derivative(e(), ("x",)),
        p.Slice((e(), None, e())), p.Slice(()), p.Slice((None,)),
        U.UNode(e(), "t"), U.UNodeSub(e(), "t", e()), U.ABCNode2D(3), U.UExplicit(e()),
        U.UInitFalse(e(), 3), U.UHashFalse(e(), "lb"), U.UInitHashFalse(e()),
        U.LegacyPure(e(), 2), U.LegacyVar("n", "tg"), U.LegacySum((e(), e())),
        # two legacy levels: the intermediate class is met (hashed, compared) first
        U.LegacyMid("n"), U.LegacyLeafTag("n", "ta"), U.LegacyLeafTag("n", "tb"),
        U.LegacyLeafTag("n", "ta"), p.Variable("n"),
        # equal scalars of different type in the same position
        p.Sum((x, 1)), p.Sum((x, 1.0)), p.Sum((x, True)),
        p.Product((4, x)), p.Product((4.0, x)), p.Power(x, 2), p.Power(x, 2.0),
        p.Sum((x, 2**70)), p.Sum((x, float(2**70))),
    ]
    # every kind of number in DIRECT scalar fields and in operand tuples, next to its ==-twins
    from fractions import Fraction as _Fr
    for tw in rng.sample(numbers.TWINS, 3):
        tw = [c for c in tw if not isinstance(c, _Fr)]      # (not a registered constant class)
        for c in rng.sample(tw, min(4, len(tw))):
            mk = rng.choice([lambda c: p.Power(x, c), lambda c: p.Quotient(c, x),
                             lambda c: p.Subscript(x, c), lambda c: p.LeftShift(x, c),
                             lambda c: p.If(x, c, 1), lambda c: p.Comparison(c, "<", x),
                             lambda c: p.Sum((x, c)), lambda c: p.Call(x, (c,)),
                             lambda c: U.UNode(c, "t"), lambda c: p.Remainder(x, c)])
            for c2 in tw[:3] + [c]:
                out.append(mk(c2))
    # (no NaN: nan != nan, so a node holding one is by the statement's own rule not even equal
    #  to its copy -- p.NaN is the node for that)
    for k in ("negzero", "inf", "bigfloat", "complex", "np.float32", "np.int8", "np.bool_"):
        c = rng.choice(numbers.KINDS[k])
        out += [p.Power(x, c), p.Sum((c, x))]
    return out


def field_variants(obj):
    """Objects differing from *obj* in exactly one field (best effort per field)."""
    cls = type(obj)
    try:
        flds = normal.node_fields(obj)
    except Exception:
        return []
    out = []
    for i, (name, val) in enumerate(flds):
        for nv in _changed(name, val):
            vals = [v for _, v in flds]
            vals[i] = nv
            try:
                out.append((name, cls(*vals)))
            except Exception:
                pass
    return out


M61 = 2**61 - 1   # CPython's hash modulus: hash(v) == hash(v + M61) for ints


def _partner(v):
    """A different int with the same hash()."""
    return -2 if v == -1 else (-1 if v == -2 else v + M61)


def _changed(name, val):
    z = p.Variable("zz_diff")
    if isinstance(val, int) and not isinstance(val, bool):
        return [_partner(val), val + 1, z]
    if isinstance(val, tuple) and val and isinstance(val[0], int) \
            and not isinstance(val[0], bool):
        return [(_partner(val[0]),) + val[1:], val + (z,), val[:-1], (val[-1],) + val[:-1]]
    if name == "operator":
        return [o for o in G.CMP_OPS if o != val][:2]
    if name == "scope":
        return [s for s in (p.cse_scope.EVALUATION, p.cse_scope.GLOBAL) if s != val][:1]
    if name == "data_type":
        return [t for t in (None, float, np.float64) if t is not val][:2]
    if isinstance(val, str):
        return [val + "_"]
    if val is None:
        return ["pfx2"] if name == "prefix" else [z]
    if isinstance(val, tuple):
        outs = [val + (z,)]
        if val:
            outs.append(val[:-1])
            if all(isinstance(v, str) for v in val):
                outs.append(val[:-1] + (val[-1] + "_",))
            else:
                outs.append((z,) + val[1:])
                if len(val) > 1:
                    outs.append(tuple(reversed(val)))
        return outs
    if isinstance(val, Mapping):
        d = dict(val)
        k = sorted(d)[0] if d else "k"
        d2 = dict(d)
        d2[k] = z
        d3 = dict(d)
        d3["zz_new"] = 1
        return [immutabledict(d2), immutabledict(d3)]
    if isinstance(val, (int, float)) and not isinstance(val, bool):
        return [val + 1, z]
    return [z]


def build_pool(ctx, rng):
    g = G.AnyGen(rng, hist=ctx.hist)
    base = class_examples(rng, g) + [g.gen(rng.randint(1, 4)) for _ in range(12)]
    # hash-collision alphabet: children that differ but hash alike (-1/-2, v/v+2**61-1)
    coll = class_examples(rng, g, e=lambda: rng.choice([-1, -1, 0, 7]))
    # same fields, different class
    a_, b_ = g.gen(1), g.gen(1)
    sibs = [c(a_, b_) for c in (p.Quotient, p.FloorDiv, p.Remainder, p.Power, p.LeftShift,
                                p.RightShift)]
    sibs += [c((a_, b_)) for c in (p.Sum, p.Product, p.Min, p.Max, p.BitwiseOr, p.BitwiseXor,
                                   p.BitwiseAnd, p.LogicalOr, p.LogicalAnd, p.Slice, U.LegacySum)]
    sibs += [c(a_) for c in (p.LogicalNot, p.BitwiseNot, p.CommonSubexpression, U.UExplicit,
                             U.UInitHashFalse)]
    sibs += [p.Variable("w"), p.DotWildcard("w"), p.StarWildcard("w"), p.Wildcard(),
             p.FunctionSymbol(), p.NaN(), U.UNode(a_, "t"), U.UHashFalse(a_, "t"),
             U.LegacyPure(a_, "t"), p.Lookup(a_, "t"), p.Subscript(a_, "t")]
    base = [b for b in base + sibs if isinstance(b, p.Expression)]
    coll = [b for b in coll if isinstance(b, p.Expression)]
    pool = []
    for b in base:
        pool.append(("base", b))
        tw = G.deep_rebuild(b) if normal.is_expr_dataclass(type(b)) else _legacy_twin(b)
        if tw is not b:
            pool.append(("twin", tw))
    extra = []
    for b in rng.sample(base, min(len(base), 40)):
        fv = field_variants(b)
        rng.shuffle(fv)
        for name, v in fv[:3]:
            extra.append((f"field:{type(b).__name__}.{name}", v))
    for b in rng.sample(coll, min(len(coll), 30)):
        pool.append(("collision-base", b))
        seen = set()
        for name, v in field_variants(b):   # first variant per field = hash partner
            if name not in seen:
                seen.add(name)
                extra.append((f"collision:{type(b).__name__}.{name}", v))
    pool.extend(extra)
    return pool


def _legacy_twin(b):
    try:
        return type(b)(*[G.deep_rebuild(a) for a in b.__getinitargs__()])
    except Exception:
        return b

# }}}


def _try(f):
    try:
        return ("v", f())
    except Exception as e:  # noqa: BLE001
        return ("exc", type(e).__name__ + ": " + short(str(e), 120))


@check("C01.pair")
def c_pair(ctx, case):
    a, b = case
    want = ref_eq(a, b)
    ctx.case(None)
    ctx.count("pairs")
    r1, r2 = _try(lambda: a == b), _try(lambda: b == a)
    n1, n2 = _try(lambda: a != b), _try(lambda: b != a)
    tag = f"{type(a).__name__}/{type(b).__name__}"
    if r1 != ("v", want) or r2 != ("v", want):
        ctx.fail("C01.pair", case, f"eq:{tag}:{r1[0]}",
                 f"a={G.src(a)} b={G.src(b)}: a==b -> {r1}, b==a -> {r2}, field-wise equality says {want}")
        return
    if n1 != ("v", not want) or n2 != ("v", not want):
        ctx.fail("C01.pair", case, f"ne:{tag}",
                 f"a={G.src(a)} b={G.src(b)}: a!=b -> {n1}, b!=a -> {n2}, expected {not want}")
    if want:
        ctx.count("equal_pairs")
        ha, hb = _try(lambda: hash(a)), _try(lambda: hash(b))
        if ha[0] != "v" or hb[0] != "v" or ha != hb:
            ctx.fail("C01.pair", case, f"hash:{tag}",
                     f"equal expressions with different/unavailable hashes: a={G.src(a)} b={G.src(b)} "
                     f"hash(a)={ha} hash(b)={hb}")
            return
        d = {a: "A"}
        s = {a}
        if d.get(b) != "A" or b not in s or len({a, b}) != 1:
            ctx.fail("C01.pair", case, f"key:{tag}",
                     f"equal expression does not stand in as dict/set key: a={G.src(a)} b={G.src(b)}")
    else:
        ctx.count("unequal_pairs")
        if _try(lambda: hash(a) == hash(b)) == ("v", True):
            ctx.count("hash_collisions_unequal")
        if a is not b and _try(lambda: len({a, b})) != ("v", 2):
            ctx.fail("C01.pair", case, f"set:{tag}", f"unequal expressions merge in a set: {G.src(a)} {G.src(b)}")


@check("C01.foreign")
def c_foreign(ctx, case):
    a, other = case
    ctx.case(None)
    ctx.count("foreign_compares")
    for name, f, want in (("a==o", lambda: a == other, False), ("o==a", lambda: other == a, False),
                          ("a!=o", lambda: a != other, True), ("o!=a", lambda: other != a, True)):
        got = _try(f)
        if got != ("v", want):
            ctx.fail("C01.foreign", case, f"foreign:{type(a).__name__}:{type(other).__name__}:{name}",
                     f"{G.src(a)} vs {other!r}: {name} -> {got}, expected {want}")


def snapshot(o):
    return normal.typed_key(o)


@check("C01.immutable")
def c_immutable(ctx, case):
    """Every field: setattr / delattr must raise and leave the object untouched."""
    o = case
    h0, k0 = hash(o), snapshot(o)
    legacy = not normal.is_expr_dataclass(type(o))
    dc_fields = {f.name for f in dataclasses.fields(o)} if dataclasses.is_dataclass(o) else set()
    for name, val in normal.node_fields(o):
        for op in ("set", "del"):
            ctx.case(None)
            ctx.count("mutation_attempts")
            saved = getattr(o, name)
            try:
                if op == "set":
                    setattr(o, name, p.Variable("zz_rebound"))
                else:
                    delattr(o, name)
                raised = False
            except (AttributeError, TypeError):
                raised = True
            if not raised:
                # restore through the back door so the pool stays usable
                object.__setattr__(o, name, saved)
                finding = KF_LEGACY if (legacy and name not in dc_fields) else None
                ctx.fail("C01.immutable", case, f"rebind:{'legacy' if legacy else 'dataclass'}:{op}",
                         f"{op}attr({G.src(o)}, {name!r}) did not raise "
                         f"(class {type(o).__name__}, dataclass fields {sorted(dc_fields)})",
                         finding=finding)
    if hash(o) != h0 or snapshot(o) != k0:
        ctx.fail("C01.immutable", case, f"state-after-attempt:{type(o).__name__}",
                 f"hash or fields of {G.src(o)} changed after refused mutation attempts")


# {{{ histories

class _Ident(IdentityMapper):
    def map_u_node(self, e):
        return type(e)(self.rec(e.child), e.tag)

    def map_u_node_sub(self, e):
        return type(e)(self.rec(e.child), e.tag, self.rec(e.extra))

    def map_abc_node2d(self, e):
        return e

    def map_u_custom(self, e):
        return type(e)(self.rec(e.child))

    def map_u_init_false(self, e):
        return type(e)(self.rec(e.child), e.weight)

    def map_u_hash_false(self, e):
        return type(e)(self.rec(e.child), e.label)

    def map_u_init_hash_false(self, e):
        return type(e)(self.rec(e.child))

    def map_legacy_pure(self, e):
        return type(e)(self.rec(e.u), e.v)

    def map_legacy_var(self, e):
        return e

    def map_legacy_sum(self, e):
        return type(e)(tuple(self.rec(c) for c in e.children))

    def map_slice(self, e):
        return IdentityMapper.map_slice(self, e)


class _Subst(SubstitutionMapper, _Ident):
    pass


class _Deps(DependencyMapper):
    def handle_unsupported_expression(self, expr, *a, **k):
        return set()

    def map_slice(self, expr):
        return set()


OPS = ["hash", "eq_partner", "eq_twin", "copy", "deepcopy", "pickle", "replace", "repr", "str",
       "identity", "subst", "deps", "dictkey", "setattr", "delattr", "flatten", "initargs",
       "augmented", "augmented"]
import operator as _op
AUGMENTED = [_op.iadd, _op.isub, _op.imul, _op.itruediv, _op.ifloordiv, _op.imod, _op.ipow,
             _op.ilshift, _op.irshift, _op.iand, _op.ior, _op.ixor, _op.iadd, _op.imul]


@check("C01.history")
def c_history(ctx, case):
    seed, steps = case
    rng = ctx.sub_rng("hist", seed)
    g = G.AnyGen(rng, hist=None)
    pool = [b for b in class_examples(rng, g) if isinstance(b, p.Expression)]
    pool += [g.gen(rng.randint(1, 4)) for _ in range(10)]
    pool = [b for b in pool if isinstance(b, p.Expression)]
    snaps = [snapshot(o) for o in pool]
    first_hash = [None] * len(pool)
    twins = {}
    trace = []

    def inv(step):
        for i, o in enumerate(pool):
            if snapshot(o) != snaps[i]:
                ctx.fail("C01.history", case, f"fields-changed:{type(o).__name__}:{trace[-1][0]}",
                         f"after step {step} {trace[-1]}: fields of pool[{i}] changed: now {G.src(o)}; "
                         f"trace tail {trace[-6:]}")
                snaps[i] = snapshot(o)
            if first_hash[i] is not None and hash(o) != first_hash[i]:
                ctx.fail("C01.history", case, f"hash-changed:{type(o).__name__}:{trace[-1][0]}",
                         f"after step {step} {trace[-1]}: hash of pool[{i}]={G.src(o)} changed; "
                         f"trace tail {trace[-6:]}")
                first_hash[i] = hash(o)

    for step in range(steps):
        i = rng.randrange(len(pool))
        o = pool[i]
        op = rng.choice(OPS)
        trace.append((op, i, type(o).__name__))
        ctx.count("history_ops")
        ctx.count("op:" + op)
        new = None
        try:
            if op == "hash":
                h = hash(o)
                if first_hash[i] is None:
                    first_hash[i] = h
            elif op == "eq_partner":
                j = rng.randrange(len(pool))
                got, want = (o == pool[j]), ref_eq(o, pool[j])
                if got != want:
                    ctx.fail("C01.history", case, f"eq-in-history:{type(o).__name__}",
                             f"step {step}: {G.src(o)} == {G.src(pool[j])} -> {got}, expected {want}; "
                             f"trace tail {trace[-6:]}")
            elif op == "eq_twin":
                new = twins.get(i) or (G.deep_rebuild(o) if normal.is_expr_dataclass(type(o))
                                       else _legacy_twin(o))
                twins[i] = new
            elif op == "copy":
                new = copy.copy(o)
            elif op == "deepcopy":
                new = copy.deepcopy(o)
            elif op == "pickle":
                new = pickle.loads(pickle.dumps(o, protocol=rng.randint(0, 5)))
            elif op == "replace":
                if normal.is_expr_dataclass(type(o)) and dataclasses.fields(o):
                    f = dataclasses.fields(o)[0].name
                    new = dataclasses.replace(o, **{f: getattr(o, f)})
            elif op == "repr":
                repr(o)
            elif op == "str":
                try:
                    str(o)
                except (ValueError, NotImplementedError, AttributeError, TypeError):
                    pass  # no stringifier for user node types / wildcards: not under test
            elif op == "identity":
                _Ident()(o)      # what the mapper returns is C04's business; here only
            elif op == "subst":  # the pool invariants (inv) are judged
                _Subst(make_subst_func({"zz_absent": 1}))(o)
            elif op == "deps":
                try:
                    _Deps()(o)
                except (NotImplementedError, ValueError, TypeError, AttributeError):
                    pass
            elif op == "augmented":
                # `alias += term` on a second reference to a node: augmented assignment REBINDS
                # the alias; the node other references see is not touched
                alias = o
                term = rng.choice([p.Variable("zz_t"), 3, p.Sum((p.Variable("x"), 1)), o, 2.5])
                try:
                    alias = rng.choice(AUGMENTED)(alias, term)
                except (TypeError, ValueError, ZeroDivisionError, NotImplementedError,
                        AttributeError):
                    pass        # nodes without arithmetic, constant folding that divides by zero
                ctx.count("augmented_assignments")
            elif op == "dictkey":
                d = {o: step}
                if d[o] != step or o not in d:
                    ctx.fail("C01.history", case, "dict-self", f"{G.src(o)} not found under itself")
            elif op in ("setattr", "delattr"):
                flds = normal.node_fields(o)
                if flds:
                    name, val = rng.choice(flds)
                    legacy_attr = (not normal.is_expr_dataclass(type(o))
                                   and not (dataclasses.is_dataclass(o)
                                            and name in {f.name for f in dataclasses.fields(o)}))
                    try:
                        if op == "setattr":
                            setattr(o, name, p.Variable("zz_rebound"))
                        else:
                            delattr(o, name)
                        raised = False
                    except (AttributeError, TypeError):
                        raised = True
                    if not raised:
                        object.__setattr__(o, name, val)
                        ctx.fail("C01.history", case, f"rebind-in-history:{op}:{'legacy' if legacy_attr else 'dataclass'}",
                                 f"step {step}: {op}({G.src(o)}, {name!r}) did not raise",
                                 finding=KF_LEGACY if legacy_attr else None)
            elif op == "flatten":
                try:
                    from pymbolic.mapper.flattener import FlattenMapper
                    FlattenMapper()(o)
                except (NotImplementedError, ValueError, TypeError, AttributeError):
                    pass  # node types the flattener does not know: not under test here
            elif op == "initargs":
                o.__getinitargs__()
                o.init_arg_names  # noqa: B018
        except RecursionError:
            raise
        except Exception as e:  # noqa: BLE001
            ctx.fail("C01.history", case, f"op-raised:{op}:{type(o).__name__}:{type(e).__name__}",
                     f"step {step}: {op} on {G.src(o)} raised {type(e).__name__}: {e}")
        if new is not None:
            ctx.case(None)
            ok = _try(lambda: (new == o, o == new, hash(new) == hash(o), type(new) is type(o),
                               snapshot(new) == snaps[i], {o: 1}.get(new) == 1))
            if first_hash[i] is None:
                first_hash[i] = hash(o)
            if ok != ("v", (True,) * 6):
                ctx.fail("C01.history", case, f"copy-differs:{op}:{type(o).__name__}",
                         f"step {step}: result of {op} on {G.src(o)} is {G.src(new)}; "
                         f"(new==o, o==new, hash eq, same type, same fields, dict key) = {ok}")
        inv(step)
    ctx.case(("hist", seed, steps), True, n=1)

# }}}


class Opaque:
    """a user constant with identity equality and identity hash: every copy is a NEW value"""

    def __reduce__(self):
        return (Opaque, ())


def _helpers():
    import pymbolic
    from pymbolic.cse import tag_common_subexpressions
    from pymbolic.mapper.flattener import flatten
    from pymbolic.mapper.dependency import DependencyMapper
    GL = p.cse_scope.GLOBAL
    return [
        ("wrap_in_cse(o, 'tmp')", lambda o: p.wrap_in_cse(o, "tmp")),
        ("wrap_in_cse(o)", lambda o: p.wrap_in_cse(o)),
        ("make_common_subexpression(o, 'tmp')", lambda o: p.make_common_subexpression(o, "tmp")),
        ("make_common_subexpression(o)", lambda o: p.make_common_subexpression(o)),
        ("make_common_subexpression(o, 'g', GLOBAL)", lambda o: p.make_common_subexpression(o, "g", GL)),
        ("make_common_subexpression(array of o)",
         lambda o: p.make_common_subexpression(__import__("pymbolic.geometric_algebra", fromlist=["x"])
                                               .MultiVector({0: o, 1: o}), "mv")),
        ("flattened_sum([o, o, 1])", lambda o: p.flattened_sum([o, o, 1])),
        ("flattened_product([o, 2, o])", lambda o: p.flattened_product([o, 2, o])),
        ("linear_combination", lambda o: pymbolic.linear_combination([2, 3], [o, o])),
        ("quotient(o, 2)", lambda o: p.quotient(o, 2)),
        ("substitute(o, {})", lambda o: pymbolic.substitute(o, {"zz_absent": 1})),
        ("substitute(o, x=o)", lambda o: pymbolic.substitute(p.Sum((p.Variable("x"), o)), {"x": o})),
        ("flatten(o)", flatten),
        ("tag_common_subexpressions([o, o + 1])",
         lambda o: tag_common_subexpressions([o, p.Sum((o, 1)), p.Product((o, o))])),
        ("DependencyMapper()(o)", lambda o: DependencyMapper()(o)),
        ("differentiate(o, 'x')", lambda o: pymbolic.differentiate(o, "x")),
        ("o + 0, o * 1, o ** 1, -o", lambda o: (o + 0, o * 1, o ** 1, -o, 0 + o, 1 * o, o - 0, o / 1)),
        ("o + o, o * o", lambda o: (o + o, o * o, o - o)),
        ("rebuild from init args", lambda o: type(o)(*o.__getinitargs__())),
        ("str / repr / hash", lambda o: (str(o), repr(o), hash(o))),
    ]


@check("C01.helpers")
def c_helpers(ctx, case):
    """The caller HOLDS the object (as a dict key, inside a bigger tree) and hands it to a library
    helper.  Whatever the helper returns, the held object keeps its fields, its hash and its
    equality class: still equal to its separately built twin, still found under it."""
    (o, twin) = case
    h0, k0 = hash(o), snapshot(o)
    outer, outer_twin = p.Product((2, o)), p.Product((2, twin))
    ho = hash(outer)
    table = {o: "o", outer: "outer"}
    for name, fn in _helpers():
        ctx.case(None)
        ctx.count("helper_calls")
        try:
            fn(o)
        except RecursionError:
            raise
        except Exception:  # noqa: BLE001
            ctx.count("helper_refused")     # (what the helper accepts is not this property's)
        ok = _try(lambda: (snapshot(o) == k0, hash(o) == h0, o == twin, twin == o,
                           hash(twin) == h0, table.get(twin) == "o", outer == outer_twin,
                           hash(outer) == ho, table.get(outer_twin) == "outer"))
        if ok != ("v", (True,) * 9):
            ctx.fail("C01.helpers", case, f"held-object-changed:{type(o).__name__}:{name.split('(')[0]}",
                     f"{name} with o = a held {type(o).__name__}: afterwards o is {G.src(o)} "
                     f"(built as {G.src(twin)}); (same fields, same hash, o==twin, twin==o, twin hash, "
                     f"found under twin, outer==outer twin, outer hash, outer found) = {ok}")
            return


def held_objects():
    x, y = p.Variable("x"), p.Variable("y")
    mk = [lambda: p.CommonSubexpression(p.Sum((x, y))),
          lambda: p.CommonSubexpression(p.Sum((x, y)), "pre"),
          lambda: p.CommonSubexpression(p.Sum((x, y)), None, p.cse_scope.GLOBAL),
          lambda: p.CommonSubexpression(p.Sum((x, y)), None, p.cse_scope.EXPRESSION),
          lambda: p.CommonSubexpression(p.CommonSubexpression(p.Product((x, y)))),
          lambda: p.CommonSubexpression(x), lambda: p.CommonSubexpression(3),
          lambda: p.Sum((x, y)), lambda: p.Product((x, y)), lambda: p.Sum((x,)), lambda: p.Product(()),
          lambda: p.Sum((p.Sum((x, y)), 1)), lambda: p.Product((p.Product((x, 2)), y)),
          lambda: p.Quotient(x, y), lambda: p.Power(x, 2), lambda: p.Subscript(x, (y, 1)),
          lambda: p.Call(x, (y,)), lambda: p.Variable("x"), lambda: p.Lookup(x, "a"),
          lambda: p.If(p.Comparison(x, "<", y), x, y), lambda: p.Derivative(p.Sum((x, y)), ("x",)),
          lambda: p.Min((x, y)), lambda: p.FloorDiv(x, 2), lambda: p.Sum((0, x)), lambda: p.Product((1, x))]
    return [(m(), m()) for m in mk]


import itertools as _itertools
_fresh_legacy = _itertools.count()


@check("C01.firstfailure")
def c_firstfailure(ctx, case):
    """A legacy subclass (init-args protocol) whose very FIRST hash / comparison fails and is
    caught by the caller -- its deprecation warning is turned into an error, or its
    __getinitargs__ raises until a registry is filled -- is compared and hashed like any other
    afterwards: by class and all of its init args."""
    (how, base_name) = case
    import warnings
    base = {"Variable": p.Variable, "Expression": p.Expression}[base_name]
    registry = {}

    def __init__(self, name, tag):
        if base is p.Variable:
            p.Variable.__init__(self, name)
        else:
            object.__setattr__(self, "name", name)
        object.__setattr__(self, "tag", tag)

    def __getinitargs__(self):
        if how == "initargs-raise" and "ready" not in registry:
            raise KeyError("registry not filled yet")
        return (self.name, self.tag)
    cls = type(f"FreshLegacy{next(_fresh_legacy)}", (base,),
               {"__init__": __init__, "__getinitargs__": __getinitargs__,
                "init_arg_names": ("name", "tag"), "mapper_method": "map_fresh_legacy",
                "__module__": __name__})
    a, a2, b = cls("x", 1), cls("x", 1), cls("x", 2)
    nested, nested2 = p.Sum((a, 1)), p.Sum((a2, 1))
    with warnings.catch_warnings():
        if how == "warning-as-error":
            warnings.simplefilter("error")
        for f in (lambda: hash(nested), lambda: hash(a), lambda: a == b, lambda: {a: 1}):
            try:
                f()
            except RecursionError:
                raise
            except Exception:  # noqa: BLE001
                ctx.count("first_use_failed_and_caught")
    registry["ready"] = True
    ctx.case(None)
    ctx.count("legacy_classes_after_a_failed_first_use")
    ok = _try(lambda: (a == a2, hash(a) == hash(a2), a != b, not (a == b), {a: 1}.get(a2) == 1,
                       {a: 1}.get(b) is None, len({a, a2, b}) == 2, nested == nested2,
                       hash(nested) == hash(nested2), isinstance(hash(a), int)))
    if ok != ("v", (True,) * 10):
        ctx.fail("C01.firstfailure", case, f"after-failed-first-use:{how}:{base_name}",
                 f"legacy subclass of {base_name} with init args (name, tag), first hash / == failed "
                 f"({how}) and was caught; afterwards with a = C('x', 1), a2 = C('x', 1), b = C('x', 2): "
                 f"(a==a2, hashes equal, a!=b, not a==b, found under a2, b not found, two set members, "
                 f"Sum((a,1))==Sum((a2,1)), their hashes, hash is an int) = {ok}")


@check("C01.copyhash")
def c_copyhash(ctx, case):
    """Hash look-ups interleaved with copies: whatever was cached on the original, a copy is
    == to, and hashes like, a freshly built node with the copy's own fields -- also when a leaf
    changes its hash in the copy (identity-hashed payloads; strings in another process: C17)."""
    import copy
    import pickle
    e, hash_first = case
    p.register_constant_class(Opaque)
    try:
        w = p.Call(p.Variable("f"), (Opaque(), e))
        if hash_first:
            hash(w)
            {w: 1}                  # noqa: B018
        for how, cp in (("deepcopy", copy.deepcopy), ("copy", copy.copy),
                        ("pickle", lambda o: pickle.loads(pickle.dumps(o)))):
            ctx.case(None)
            ctx.count("copies_checked")
            try:
                c = cp(w)
                fresh = type(c)(*[getattr(c, f.name) for f in dataclasses.fields(c)])
                ok_hash, ok_eq = hash(c) == hash(fresh), (c == fresh and fresh == c)
                ok_key = {c: 1}.get(fresh) == 1 and {fresh: 1}.get(c) == 1
            except RecursionError:
                raise
            except Exception as ex:  # noqa: BLE001
                ctx.fail("C01.copyhash", case, f"{how}:raised:{type(ex).__name__}",
                         f"{how} of {G.src(e)} inside a call with an opaque constant: {ex}")
                continue
            if not (ok_hash and ok_eq and ok_key):
                ctx.fail("C01.copyhash", case,
                         f"{how}:{'hash' if not ok_hash else 'eq' if not ok_eq else 'key'}:"
                         f"{'hashed-first' if hash_first else 'unhashed'}",
                         f"{how} of a node{' hashed before' if hash_first else ''}: the copy and a "
                         f"fresh node with the copy's own fields: hash equal {ok_hash}, == {ok_eq}, "
                         f"same dict key {ok_key}; tree {G.src(e)}")
    finally:
        p.unregister_constant_class(Opaque)


@check("C01.fieldless")
def c_fieldless(ctx, case):
    """State must not leak from one node CLASS to another: hashing an instance of a class
    without fields (Leaf(), AlgebraicLeaf(), a user base class) between the hash of a node and
    the construction of its equal twin changes nothing.  (Run first in every process: whatever
    a class-level slip caches stays cached.)"""
    (which,) = case
    mk = [lambda: p.Variable("fl_x"), lambda: p.Sum((p.Variable("fl_x"), 2)),
          lambda: p.Subscript(p.Variable("fl_a"), p.Variable("fl_i")), lambda: p.Wildcard(),
          lambda: U.UNode(p.Variable("fl_x"), "t"), lambda: U.LegacyVar("fl_n", "tg"),
          lambda: p.Call(p.Variable("fl_f"), (p.Variable("fl_x"),))]
    firsts = [m() for m in mk]
    h1 = [hash(o) for o in firsts]
    base = {"Leaf": p.Leaf, "AlgebraicLeaf": p.AlgebraicLeaf, "UBase": U.UFieldless}[which]()
    hash(base)
    {base: 1}                   # noqa: B018
    base == type(base)()        # noqa: B015
    for m, o1, hv in zip(mk, firsts, h1):
        ctx.case(None)
        ctx.count("fieldless_sequences")
        o2 = m()
        if hash(o2) != hv or hash(o1) != hv or not (o1 == o2) or {o1: 1}.get(o2) != 1:
            ctx.fail("C01.fieldless", case, f"leak:{which}:{type(o1).__name__}",
                     f"{G.src(o1)} hashed {hv}; after hashing a {which}() instance an equal "
                     f"{type(o2).__name__} built afresh hashes {hash(o2)} (== {o1 == o2}, same dict "
                     f"key {({o1: 1}.get(o2) == 1)})")


def workload(ctx):
    rng = ctx.rng
    for which in ("Leaf", "AlgebraicLeaf", "UBase"):
        ctx.case(("fieldless", which), True, n=0)
        ctx.run("C01.fieldless", (which,))
    npools = ctx.per_shard(ctx.pick(8, 96))
    for k in range(npools):
        pool = build_pool(ctx, rng)
        objs = [o for _, o in pool]
        for tag, o in pool:
            nt = normal.count_ops(o) >= 1 or type(o).__module__ != "pymbolic.primitives"
            ctx.case(snapshot(o), nt, n=0)
            ctx.node(type(o).__name__)
            ctx.count("pool:" + tag.split(":")[0])
        if k == 0:
            ctx.sample("pair-pool", [f"{t}: {G.src(o)}" for t, o in pool[60:64]])
        for a in objs:
            for b in objs:
                ctx.run("C01.pair", (a, b))
        for a in rng.sample(objs, 25):
            for other in (1, 0, "x", None, (a,), 1.5, frozenset([1]), str(a) if _strable(a) else "s"):
                ctx.run("C01.foreign", (a, other))
        for a in objs:
            ctx.run("C01.immutable", a)
        for a in rng.sample(objs, 12):
            if normal.is_expr_dataclass(type(a)):
                try:
                    hash(a)
                except TypeError:
                    continue
                ctx.run("C01.copyhash", (a, rng.random() < 0.7))
    # wide nodes: 9 .. 130 operands (thorough: up to 1404), the variants differing in ONE operand
    # by a value of equal hash (-1 / -2, k / k + 2**61 - 1), in one operand's position, or not at all
    x = p.Variable("x")
    for w in scale.WIDTHS + (scale.HUGE_WIDTHS if ctx.thorough else []):
        if not ctx.mine("wide"):
            continue
        vs = scale.variables(w)
        slot = rng.randrange(w)
        c1, c2 = rng.choice([(-1, -2), (5, 5 + M61), (p.Product((-1, x)), p.Product((-2, x))),
                             (-1.0, -2.0)])
        mk = rng.choice([p.Sum, p.Product, p.Min, p.LogicalOr, p.BitwiseXor,
                         lambda t: p.Call(x, t), lambda t: p.Subscript(x, t),
                         lambda t: p.CallWithKwargs(x, t, immutabledict({"k": 1})),
                         lambda t: U.LegacySum(t)])

        def tup(c, swap=False):
            t = list(vs)
            t[slot] = c
            if swap:
                t[0], t[-1] = t[-1], t[0]
            return tuple(t)
        wide = [mk(tup(c1)), mk(tup(c2)), mk(tup(c1)), mk(tup(c1, True)), mk(tup(c1)[:-1]),
                p.Sum((mk(tup(c1)), 1)), p.Sum((mk(tup(c2)), 1))]
        ctx.count("wide_nodes", len(wide))
        for a in wide:
            ctx.case(("wide", w, snapshot(a)), True, n=0)
            for b in wide:
                ctx.run("C01.pair", (a, b))
            ctx.run("C01.immutable", a)
    # deep nodes: the variants differ in ONE leaf (by a value of equal hash, or not at all) below
    # 3 .. 100 levels of one family of wrappers
    fams = scale.family_towers()
    for fam in ("cse", "neg", "square", "call", "subscript-aggregate", "if-branch", "sum-in-product",
                "logical-not", "quotient-den", "lookup"):
        for depth in scale.NEST_DEPTHS:
            if not ctx.mine("deep"):
                continue
            cores = [p.Power(x, -1), p.Power(x, -2), p.Power(x, -1), p.Sum((x, 5)), p.Sum((x, 5 + M61)),
                     p.Sum((x, 5.0))]
            deep = [scale.nest(fams[fam], depth, c) for c in cores]
            deep.append(scale.nest(fams[fam], depth - 1, cores[0]))
            ctx.count("deep_nodes", len(deep))
            for a in deep:
                ctx.case(("deep", fam, depth, snapshot(a)), True, n=0)
                for b in deep:
                    ctx.run("C01.pair", (a, b))
    # keyword arguments supplied in different orders (the mapping is the field: equal mappings,
    # equal nodes, equal hashes), bare and inside other nodes
    f_ = p.Variable("f")
    import itertools as _it
    items = [("alpha", 1), ("beta", x), ("gamma", p.Sum((x, 2))), ("a", -1)]
    calls = []
    for n in (2, 3, 4):
        for perm in list(_it.permutations(items[:n]))[:8]:
            calls.append(p.CallWithKwargs(f_, (x,), immutabledict(perm)))
    calls.append(p.CallWithKwargs(f_, (x,), immutabledict([("alpha", 2), ("beta", x)])))
    calls += [p.Sum((c, 1)) for c in calls[:6]] + [p.Call(f_, (c,)) for c in calls[2:6]]
    for a in calls:
        if ctx.mine("kwcalls"):
            ctx.case(("kwcall", snapshot(a), tuple(getattr(a, "kw_parameters", {}) or ())), True, n=0)
            ctx.count("keyword_order_nodes")
            for b in calls:
                ctx.run("C01.pair", (a, b))
    for how in ("warning-as-error", "initargs-raise", "no-failure"):
        for base_name in ("Variable", "Expression"):
            for rep in range(3):
                if ctx.mine("firstfailure"):
                    ctx.case(("firstfailure", how, base_name, rep), True, n=0)
                    ctx.run("C01.firstfailure", (how, base_name))
    for i, (o, twin) in enumerate(held_objects()):
        if ctx.mine("helpers"):
            ctx.case(("held", i), True, n=0)
            ctx.run("C01.helpers", (o, twin))
    for i in range(ctx.per_shard(ctx.pick(60, 1200))):
        r2 = ctx.sub_rng("held", i)
        g2 = G.AnyGen(r2, hist=None)
        o = g2.gen(r2.randint(1, 3))
        if isinstance(o, p.Expression) and normal.is_expr_dataclass(type(o)):
            try:
                hash(o)
            except TypeError:
                continue
            ctx.run("C01.helpers", (o, G.deep_rebuild(o)))
    nh = ctx.per_shard(ctx.pick(40, 800))
    for k in range(nh):
        case = (rng.randrange(10**9), ctx.pick(200, 300))
        if k == 0:
            ctx.sample("history", f"pool seed {case[0]}, {case[1]} random ops from {OPS}")
        ctx.run("C01.history", case)
    ctx.floor("wide_nodes", 150)
    ctx.floor("deep_nodes", 400)
    ctx.floor("keyword_order_nodes", 20)
    ctx.floor("legacy_classes_after_a_failed_first_use", 12)
    ctx.floor("helper_calls", 800)
    ctx.floor("pairs", 50000)
    ctx.floor("equal_pairs", 1000)
    ctx.floor("unequal_pairs", 10000)
    ctx.floor("mutation_attempts", 1000)
    ctx.floor("history_ops", 5000)
    ctx.floor("augmented_assignments", 500)
    ctx.floor("copies_checked", 100)
    ctx.floor("pool:field", 100)
    ctx.floor("pool:collision", 100)
    ctx.floor("hash_collisions_unequal", 100)


def _strable(a):
    try:
        str(a)
        return True
    except Exception:  # noqa: BLE001
        return False


RULE = RULE + '  Later additions: wide (9-1404 operands) and deep (3-100 levels) nodes differing in one leaf of equal hash; keyword calls in every insertion order; 20 library helpers applied to held objects; fresh legacy classes whose first hash / == fails and is caught.'
