"""C02 — evaluation gives every node type its standard meaning."""
from __future__ import annotations

import itertools
from fractions import Fraction as F

import numpy as np

import pymbolic.primitives as p
from pymbolic import evaluate, evaluate_kw
from pymbolic.mapper.evaluator import (
    CachedEvaluationMapper, EvaluationMapper, UnknownVariableError)
import pymbolic.mapper.evaluator as evmod
import pymbolic.mapper as mapmod

from ..core import check, short
from ..gen import expr as G
from ..gen import numbers, scale
from ..mon import streams
from ..mon.trace import HandlerTrace
from ..mon.typedkeys import KF_TWINS, has_twins, refkeys, typed
from ..ref import normal, refsem

RULE = ("typed random expressions (sorts int / exact rational / bool) over every node type the "
        "evaluator handles, depth<=5 (thorough 7); each evaluated on the box {-2..3,1/2,-3/2}^k "
        "(k<=2 exhaustive, else sampled) plus big-int/dyadic points, through 5 evaluator variants; "
        "plus single-fault injections and recorded-effect runs.  A case is distinct by the typed "
        "structural key of the expression and non-trivial if it has >=1 operator node.")
ASSUMPTIONS = [
    "logical operators are applied to boolean-typed operands only (IR connectives are truth-valued)",
    "lists / numpy arrays are evaluated with the plain evaluator only (unhashable: the memoizing "
    "evaluator cannot key them)",
    "when the reference finds several faults in the lazily reachable part of an expression, any of "
    "them is an acceptable exceptional outcome (operand evaluation order is not specified)",
]

BOX = [-2, -1, 0, 1, 2, 3, F(1, 2), F(-3, 2)]
IBOX = [-2, -1, 0, 1, 2, 3]
UNK = (UnknownVariableError,)


class RecEnv(dict):
    """Evaluation context that records every name read."""

    def __init__(self, *a, **k):
        super().__init__(*a, **k)
        self.reads = set()

    def __getitem__(self, k):
        self.reads.add(k)
        return dict.__getitem__(self, k)

    def get(self, k, d=None):
        self.reads.add(k)
        return dict.get(self, k, d)

    def __contains__(self, k):
        self.reads.add(k)
        return dict.__contains__(self, k)


def _same(cls):
    return cls


def variants(hashable=True, w=_same):
    """w wraps the mapper class (identity, or the typed-key explanation variant)."""
    v = [("plain", lambda e, env: w(EvaluationMapper)(env)(e))]
    if hashable:
        v += [("cached", lambda e, env: w(CachedEvaluationMapper)(env)(e)),
              ("evaluate", lambda e, env: evaluate(e, env, mapper_cls=w(CachedEvaluationMapper))
               if w is not _same else evaluate(e, env)),
              ("evaluate_kw", lambda e, env: evaluate_kw(e, mapper_cls=w(CachedEvaluationMapper), **env)
               if w is not _same else evaluate_kw(e, **env)),
              ("evaluate_plaincls", lambda e, env: evaluate(e, env, mapper_cls=w(EvaluationMapper)))]
    return v


def twin_finding(objs, rerun):
    """KF_TWINS iff the input holds ==-but-differently-typed composites AND the same run with
    typed memo keys (the one change) has no discrepancy AND the run with the documented ==-keys
    re-implemented here still has one.  rerun(w) -> True if consistent with the reference."""
    try:
        if has_twins(*objs) and rerun(typed) and not rerun(refkeys):
            return KF_TWINS
    except RecursionError:
        raise
    except Exception:  # noqa: BLE001
        pass
    return None


def envs_for(ctx, e, rng, full_limit=2, nsample=24, box=BOX):
    names = sorted(G.variables_of(e) & set("xyz"))
    if len(names) <= full_limit:
        pts = list(itertools.product(box, repeat=len(names)))
    else:
        pts = [tuple(rng.choice(box) for _ in names) for _ in range(nsample)]
    big = [2**70 + 3, -(2**65), F(5, 8), F(-7, 4), 12345678901234567890]
    for _ in range(3):
        pts.append(tuple(rng.choice(big) for _ in names))
    for pt in pts:
        env = G.base_env(0, 0, 0, s=rng.choice([0, 1, 2, 3]), t=rng.choice([True, False]))
        for n in "xyz":
            env[n] = rng.choice(box)
        env.update(zip(names, pt))
        yield env


@check("C02.eval")
def c_eval(ctx, case):
    e, env, hashable = case
    want, faults, log = refsem.expected(e, env)
    for name, fn in variants(hashable):
        got = refsem.outcome(lambda: fn(e, env), UNK)
        ctx.case(None)
        ctx.count("variant:" + name)
        ctx.count("outcome:" + want[0])
        if not refsem.consistent(got, want, faults):
            ctx.fail("C02.eval", case, f"{name}:{_sig(e, got, want)}",
                     f"variant={name} expr={e} env={_envs(env)} got={short(got)} "
                     f"want={short(want)} faults={faults}",
                     finding=twin_finding([e], lambda w: refsem.consistent(
                         refsem.outcome(lambda: dict(variants(hashable, w))[name](e, env), UNK),
                         want, faults)))


def _sig(e, got, want):
    return f"{type(e).__name__}:{got[0]}!={want[0]}"


def _envs(env):
    return {k: v for k, v in env.items() if k in "xyzst"}


@check("C02.effects")
def c_effects(ctx, case):
    """Recorded reads/calls of the real evaluator vs what the reference is entitled to."""
    e, env = case
    want, faults, log = refsem.expected(e, env)
    for name, cls in (("plain", EvaluationMapper), ("cached", CachedEvaluationMapper)):
        renv = RecEnv(env)
        calls = []

        def mk(fname, fn):
            def wrapped(*a, **kw):
                calls.append((fname, tuple(a), tuple(kw.items())))    # keyword ORDER included
                return fn(*a, **kw)
            return wrapped
        for fname in ("f", "g", "h"):
            if dict.__contains__(renv, fname):
                dict.__setitem__(renv, fname, mk(fname, dict.__getitem__(renv, fname)))
        got = refsem.outcome(lambda: cls(renv)(e), UNK)
        ctx.case(None)
        ctx.count("effects:" + name)
        if not refsem.consistent(got, want, faults):
            ctx.fail("C02.effects", case, f"{name}:value:{_sig(e, got, want)}",
                     f"expr={e} env={_envs(env)} got={short(got)} want={short(want)}",
                     finding=twin_finding([e], lambda w: refsem.consistent(
                         refsem.outcome(lambda: w(cls)(dict(env))(e), UNK), want, faults)))
            continue
        if len(faults) > 1:
            continue
        extra = renv.reads - log.reads
        if extra:
            ctx.fail("C02.effects", case, f"{name}:read-unselected",
                     f"expr={e} env={_envs(env)} read {sorted(extra)} which the selected "
                     f"branches never mention (entitled: {sorted(log.reads)})")
        if not faults:
            missing = log.reads - renv.reads
            if missing:
                ctx.fail("C02.effects", case, f"{name}:read-missing",
                         f"expr={e} env={_envs(env)} never read {sorted(missing)}")
            # how often: keywords compared as a set (g(z, j=y, k=x) and g(z, k=x, j=y) are
            # equal nodes, the memoizing evaluator may evaluate either one for both) ...
            unord = lambda cs: [(f_, a_, tuple(sorted(k_))) for f_, a_, k_ in cs]  # noqa: E731
            cgot, cwant = _multiset(unord(calls)), _multiset(unord(log.calls))
            # ... in which ORDER the keywords arrive: one of the orders the tree holds
            held = _multiset(log.calls)
            stray = [c for c in _multiset(calls) if c not in held]
            if stray:
                ctx.fail("C02.effects", case, f"{name}:keyword-order",
                         f"expr={e} env={_envs(env)}: call {stray[0]} hands over its keywords in "
                         f"an order no call node of the expression has; entitled {log.calls}")
            over = {k: v for k, v in cgot.items() if v > cwant.get(k, 0)}
            never = [k for k in cwant if k not in cgot]
            if over or never:
                ctx.fail("C02.effects", case, f"{name}:calls",
                         f"expr={e} env={_envs(env)} calls made {calls} vs entitled {log.calls}")
        ctx.count("effect_reads", len(renv.reads))
        ctx.count("effect_calls", len(calls))


def _multiset(calls):
    out = {}
    for c in calls:
        try:            # by value: g(True, j=0) and g(1, j=False) are the same call
            hash(c)
            k = c
        except TypeError:
            k = repr(c)
        out[k] = out.get(k, 0) + 1
    return out


@check("C02.reuse")
def c_reuse(ctx, case):
    """One evaluator instance reused over a history of expressions (same context)."""
    exprs, env = case

    class Computed(dict):
        """a context that computes its bindings on demand (it stays empty, hence falsy)"""
        def __missing__(self, k):
            return env[k]

    for name, cls, how in (("plain", EvaluationMapper, "given"),
                           ("cached", CachedEvaluationMapper, "given"),
                           ("plain", EvaluationMapper, "filled-later"),
                           ("cached", CachedEvaluationMapper, "filled-later"),
                           ("plain", EvaluationMapper, "computed")):
        if how == "given":
            m = cls(env)
        elif how == "filled-later":
            # the caller's dict is still empty when the evaluator is built and is filled before
            # the first evaluation: it is the caller's mapping that is the context
            live = {}
            m = cls(live)
            live.update(env)
            name += "-context-filled-after-construction"
        else:
            m = cls(Computed())
            name += "-computed-context"
        ctx.count("context:" + how)
        for i, e in enumerate(exprs):
            want, faults, _ = refsem.expected(e, env)
            got = refsem.outcome(lambda: m(e), UNK)
            ctx.case(None)
            ctx.count("reuse:" + name)
            if not refsem.consistent(got, want, faults):
                def rerun(w, upto=i, cls=cls):
                    tm = w(cls)(env)
                    ok = True
                    for e2 in exprs[:upto + 1]:
                        w2, f2, _ = refsem.expected(e2, env)
                        ok = refsem.consistent(refsem.outcome(lambda: tm(e2), UNK), w2, f2) and ok
                    return ok
                ctx.fail("C02.reuse", case, f"{name}:{_sig(e, got, want)}",
                         f"step {i} of history on one {name} evaluator: expr={e} "
                         f"env={_envs(env)} got={short(got)} want={short(want)}",
                         finding=twin_finding(exprs[:i + 1], rerun))


@check("C02.recover")
def c_recover(ctx, case):
    """One evaluator, three steps: an evaluation FAILS inside a common subexpression (division
    by zero, a variable not bound yet, a function of the caller that raises) and the caller
    catches it; asked again it fails again (an error never turns into a value); then the caller
    repairs the binding in its context and the same evaluator gives the value."""
    shape, repair = case
    XV, YV, QV = p.Variable("x"), p.Variable("y"), p.Variable("q_late")
    fcall = p.Call(p.Variable("f_raises_once"), (YV,))
    inner = {"zdiv": p.Quotient(YV, XV), "rem": p.Remainder(YV, XV), "unbound": p.Sum((QV, YV)),
             "callback": p.Sum((fcall, 1)), "pow": p.Power(XV, -1)}[shape]
    w = p.CommonSubexpression(inner, "w")
    exprs = [p.Sum((w, 3)), w, p.Product((w, w, YV)), p.Sum((p.CommonSubexpression(p.Product((w, 2))), YV))]

    class Boom(Exception):
        pass
    for cls in (EvaluationMapper, CachedEvaluationMapper):
        state = {"raise": True}

        def f_raises_once(v, state=state):
            if state["raise"]:
                raise Boom()
            return v + 10
        live = {"x": 0, "y": 7, "f_raises_once": f_raises_once}
        m = cls(live)
        for e in exprs:
            ctx.case(None)
            ctx.count("failure_then_repair_histories")
            first = refsem.outcome(lambda: m(e), (*UNK, Boom))
            again = refsem.outcome(lambda: m(e), (*UNK, Boom))
            if first[0] == "v" or again[0] == "v" or first != again:
                ctx.fail("C02.recover", case, f"recover:{cls.__name__}:error-became-a-value",
                         f"{cls.__name__} on {e} with x = 0 / q_late unbound / a raising function: "
                         f"first {short(first)}, asked again {short(again)}")
                return
        if cls is CachedEvaluationMapper and shape in ("zdiv", "rem", "pow"):
            continue    # (the memoizing evaluator rightly remembers x = 0: its context is fixed)
        live.update(repair)
        state["raise"] = False
        ref_env = dict(live, f_raises_once=lambda v: v + 10)
        for e in exprs:
            want = refsem.outcome(lambda: refsem.ev(e, ref_env), UNK)
            got = refsem.outcome(lambda: m(e), (*UNK, Boom))
            ctx.count("evaluations_after_repair")
            if not _strict_same(got, want):
                ctx.fail("C02.recover", case, f"recover:{cls.__name__}:after-repair",
                         f"{cls.__name__}: {e} failed ({shape}) and was caught; after the caller "
                         f"repaired its context ({repair}) the same evaluator gives {short(got)}, "
                         f"expected {short(want)}")
                return


X_ = p.Variable("x")


def stream_rows(seed, n):
    """short-lived expressions, each wrapping DIFFERENT children in common-subexpression nodes"""
    import random
    r = random.Random(seed)
    gen = G.TypedGen(r, int_kinds=["cse", "cse", "sum", "prod", "if", "call", "min"])
    for i in range(n):
        gen.pool = {"int": [], "num": [], "bool": []}
        k = r.random()
        if k < 0.35:
            yield p.Product((p.CommonSubexpression(p.Sum((X_, i))), 2))
        elif k < 0.5:
            yield p.CommonSubexpression(p.Sum((X_, p.Variable("y"), i)), "pre")
        elif k < 0.7:
            yield p.Sum((p.CommonSubexpression(gen.int(2)),
                         p.CommonSubexpression(p.Product((i, gen.int(1))), "pfx")))
        else:
            yield gen.int(3)


@check("C02.stream")
def c_stream(ctx, case):
    """ONE evaluator over a stream of temporaries: each row is dropped before the next is
    built, so that node addresses are recycled while the evaluator lives on."""
    seed, n, env = case
    for name, cls in (("plain", EvaluationMapper), ("cached", CachedEvaluationMapper)):
        m = cls(env)

        def judge(i, e, name=name, cls=cls, m=m):
            want, faults, _ = refsem.expected(e, env)
            got = refsem.outcome(lambda: m(e), UNK)
            ctx.case(None)
            ctx.count("stream:" + name)
            if not refsem.consistent(got, want, faults):
                def rerun(w):
                    tm = w(cls)(env)
                    ok = True
                    for j, e2 in enumerate(stream_rows(seed, i + 1)):
                        w2, f2, _ = refsem.expected(e2, env)
                        ok = refsem.consistent(refsem.outcome(lambda: tm(e2), UNK), w2, f2) and ok
                    return ok
                ctx.fail("C02.stream", case, f"{name}:{_sig(e, got, want)}",
                         f"row {i} of a stream of temporaries through one {name} evaluator: "
                         f"expr={e} env={_envs(env)} got={short(got)} want={short(want)}",
                         finding=twin_finding(list(stream_rows(seed, i + 1)), rerun))
        streams.each(ctx, stream_rows(seed, n), judge)


def _strict_same(got, want):
    """outcomes agree INCLUDING the kind of number (int / float / np.int32 / ...), the sign of
    zero and NaN-ness; exceptions by class"""
    if got[0] != want[0]:
        return False
    if got[0] != "v":
        return got[1] == want[1]
    a, b = got[1], want[1]
    if isinstance(a, (tuple, list, np.ndarray)) or isinstance(b, (tuple, list, np.ndarray)):
        return refsem.values_equal(a, b)
    try:
        return numbers.same_kind_and_value(a, b)
    except Exception:  # noqa: BLE001
        return False


@check("C02.kinds")
def c_kinds(ctx, case):
    """Every kind of number as a constant and as a variable's value: numpy scalars (they wrap
    around, round to float32, negate logically), complex, bools, integer-valued floats,
    negative zero, infinities, NaN, ints no double holds, and values whose product does not
    commute.  The evaluator's outcome is the plain computation's, down to the kind of the
    result (9 is not 9.0; 1e10 is not 1410065408) and the class of the error."""
    e, env = case
    import warnings
    with warnings.catch_warnings():
        warnings.simplefilter("ignore")     # numpy's overflow / invalid-value warnings
        want = refsem.outcome(lambda: refsem.ev(e, env), UNK)
        for name, fn in variants(True):
            if name == "evaluate_kw" and any(not isinstance(k, str) for k in env):
                continue
            got = refsem.outcome(lambda: fn(e, env), UNK)
            ctx.case(None)
            ctx.count("kinds:" + name)
            if not _strict_same(got, want):
                ctx.fail("C02.kinds", case, f"{name}:{type(e).__name__}:{got[0]}!={want[0]}"
                         if got[0] != want[0] else f"{name}:{type(e).__name__}:kind-or-value",
                         f"variant={name} expr={G.src(e)} env={ {k: v for k, v in env.items() if k in 'xyz'} }: "
                         f"got {short(got)} [{numbers.kind_of(got[1]) if got[0] == 'v' else ''}], the "
                         f"plain computation gives {short(want)} "
                         f"[{numbers.kind_of(want[1]) if want[0] == 'v' else ''}]",
                         finding=twin_finding([e], lambda w: _strict_same(
                             refsem.outcome(lambda: dict(variants(True, w))[name](e, env), UNK), want)))


@check("C02.registered")
def c_registered(ctx, case):
    """Which classes count as constants is what the public registry says NOW: a class is
    registered (itself, or an abstract base of it), and from then on trees that hold its
    instances as constants evaluate to the plain computation -- with every evaluator variant."""
    which, shape = case
    import numbers as abcs
    from fractions import Fraction
    regcls = {"exact": Fraction, "abstract": abcs.Rational}[which]
    c, d = Fraction(3, 2), Fraction(-1, 3)
    X, Y = p.Variable("x"), p.Variable("y")
    e = [lambda: p.Sum((X, c)), lambda: p.Product((c, X, d)), lambda: p.Power(p.Sum((X, c)), 2),
         lambda: p.Quotient(c, p.Sum((Y, d))), lambda: p.If(p.Comparison(X, "<", c), d, c),
         lambda: p.Sum((p.Product((c, X)), p.Product((d, Y)), c)), lambda: p.Min((c, X, d)),
         lambda: p.Call(p.Variable("f"), (c, X))][shape]()
    p.register_constant_class(regcls)
    try:
        for xv, yv in ((2, 5), (Fraction(1, 3), Fraction(7, 2)), (-3, 1)):
            env = G.base_env(xv, yv, 1)
            want = refsem.outcome(lambda: refsem.ev(e, env), UNK)
            for name, fn in variants(True):
                if name == "evaluate_kw" and any(not isinstance(k, str) for k in env):
                    continue
                got = refsem.outcome(lambda: fn(e, env), UNK)
                ctx.case(None)
                ctx.count("registered_constant_evaluations")
                if not _strict_same(got, want):
                    ctx.fail("C02.registered", case, f"registered:{name}:{type(e).__name__}",
                             f"after register_constant_class({regcls.__name__}): variant={name} "
                             f"expr={G.src(e)} at x={xv}, y={yv}: got {short(got)}, the plain "
                             f"computation gives {short(want)}")
                    return
    finally:
        p.unregister_constant_class(regcls)


@check("C02.reentrant")
def c_reentrant(ctx, case):
    """A function in the environment is itself defined by an expression: while the outer
    evaluation runs, it evaluates ANOTHER expression (sharing sub-expressions with the outer
    one) in ANOTHER environment through the same entry point.  The outer evaluation continues
    with its own environment and its own results."""
    outer, inner, inner_x = case
    for name, fn in variants(True):
        def f(v, fn=fn):
            # f(v) := inner evaluated at x = inner_x + v, y = v  (re-enters the entry point)
            return fn(inner, G.base_env(inner_x + v, v, 2))

        def f_ref(v):
            return refsem.ev(inner, G.base_env(inner_x + v, v, 2))
        for xv, yv in ((3, 4), (F(1, 2), -2), (-5, 7)):
            env, env_ref = G.base_env(xv, yv, 1), G.base_env(xv, yv, 1)
            env["f"], env_ref["f"] = f, f_ref
            want = refsem.outcome(lambda: refsem.ev(outer, env_ref), UNK)
            got = refsem.outcome(lambda: fn(outer, env), UNK)
            ctx.case(None)
            ctx.count("reentrant_evaluations")
            if not _strict_same(got, want):
                ctx.fail("C02.reentrant", case, f"reentrant:{name}",
                         f"variant={name}: {G.src(outer)} at x={xv}, y={yv}, where f(v) evaluates "
                         f"{G.src(inner)} at x={inner_x}+v, y=v through the same entry point: got "
                         f"{short(got)}, expected {short(want)}")
                return


def inject_fault(rng, e, kind):
    """Replace one leaf occurrence by a faulty node; returns new tree or None."""
    leaves = []

    def scan(x, path):
        if isinstance(x, p.Expression):
            if isinstance(x, p.Variable) and x.name in "xyz":
                leaves.append(path)
            for n, v in normal.node_fields(x):
                scan(v, path + ((n,),))
        elif isinstance(x, tuple):
            for i, c in enumerate(x):
                scan(c, path + (i,))
        elif isinstance(x, int) and not isinstance(x, bool) and path:
            leaves.append(path)
    scan(e, ())
    if not leaves:
        return None
    target = rng.choice(leaves)
    if kind == "unk":
        bad = p.Variable("q_unbound")
    elif kind == "zdiv":
        bad = p.FloorDiv(1, 0)
    elif kind == "zmod":
        bad = p.Remainder(p.Variable("x"), 0)
    else:
        bad = p.LeftShift(1, -1)

    def rebuild(x, path):
        if not path:
            return bad
        step, rest = path[0], path[1:]
        if isinstance(step, tuple):
            name = step[0]
            import dataclasses
            vals = {f.name: getattr(x, f.name) for f in dataclasses.fields(x)}
            vals[name] = rebuild(vals[name], rest)
            if isinstance(vals.get("kw_parameters"), dict):
                pass
            return type(x)(**vals)
        lst = list(x)
        lst[step] = rebuild(lst[step], rest)
        return tuple(lst)
    return rebuild(e, target)


def workload(ctx):
    rng = ctx.rng
    depth = ctx.pick(4, 6)
    n_expr = ctx.per_shard(ctx.pick(2600, 60000))
    gen = G.TypedGen(rng, hist=ctx.hist)
    with HandlerTrace([evmod, mapmod]) as tr:
        # 1. random typed expressions over the box
        for i in range(n_expr):
            gen.pool = {"int": [], "num": [], "bool": []}
            d = rng.randint(1, depth)
            sort = rng.random()
            if sort < 0.5:
                e, box = gen.int(d), IBOX
            elif sort < 0.75:
                e, box = gen.num(d), BOX
            else:
                e, box = gen.bool(d), IBOX if rng.random() < 0.6 else BOX
            nt = normal.count_ops(e) >= 1
            ctx.case(normal.typed_key(e), nt, n=0)
            if i < 3:
                ctx.sample("random-typed", f"{G.src(e)}")
            for env in envs_for(ctx, e, rng, nsample=ctx.pick(10, 40), box=box):
                if rng.random() < 0.04:
                    env.pop(rng.choice("xyz"))
                ctx.run("C02.eval", (e, env, True))
        # 2. single-fault injection, selected vs unselected branches, with effects
        n_fault = ctx.per_shard(ctx.pick(1500, 30000))
        for i in range(n_fault):
            gen.pool = {"int": [], "num": [], "bool": []}
            e = gen.int(rng.randint(2, depth)) if rng.random() < 0.7 else gen.bool(rng.randint(2, depth))
            kind = rng.choice(["unk", "unk", "zdiv", "zmod", "negshift"])
            e2 = inject_fault(rng, e, kind)
            if e2 is None:
                continue
            ctx.case(normal.typed_key(e2), True, n=0)
            if i < 2:
                ctx.sample("single-fault", f"{kind}: {G.src(e2)}")
            for _ in range(ctx.pick(4, 8)):
                env = G.base_env(rng.choice(IBOX), rng.choice(IBOX), rng.choice(IBOX),
                                 s=rng.choice([0, 1, 2]), t=rng.choice([True, False]))
                ctx.run("C02.effects", (e2, env))
                ctx.count("fault:" + kind)
        # 3. effects on fault-free lazy constructs
        lazy = G.TypedGen(rng, int_kinds=["if", "sum", "call", "callkw", "prod", "cse", "min"],
                          bool_kinds=["or", "and", "not", "cmp", "ifb"], hist=ctx.hist)
        for i in range(ctx.per_shard(ctx.pick(1500, 30000))):
            lazy.pool = {"int": [], "num": [], "bool": []}
            e = lazy.int(rng.randint(2, depth)) if rng.random() < 0.5 else lazy.bool(rng.randint(2, depth))
            ctx.case(normal.typed_key(e), normal.count_ops(e) >= 1, n=0)
            env = G.base_env(rng.choice(IBOX), rng.choice(IBOX), rng.choice(IBOX),
                             s=rng.choice([0, 1, 2]), t=rng.choice([True, False]))
            ctx.run("C02.effects", (e, env))
        # 4. reuse of one evaluator instance over a history
        for i in range(ctx.per_shard(ctx.pick(300, 6000))):
            gen.pool = {"int": [], "num": [], "bool": []}
            exprs = [gen.any_sort(rng.randint(1, depth)) for _ in range(rng.randint(2, 6))]
            if rng.random() < 0.5:
                exprs.append(exprs[0])
                exprs.append(G.deep_rebuild(exprs[1]))
            env = G.base_env(rng.choice(BOX), rng.choice(BOX), rng.choice(IBOX),
                             s=rng.choice([0, 1, 2]), t=rng.choice([True, False]))
            ctx.case(normal.typed_key(tuple(exprs)), True, n=0)
            if i < 1:
                ctx.sample("reuse-history", [G.src(x) for x in exprs])
            ctx.run("C02.reuse", (exprs, env))
        # 4b. the same with temporaries: rows built on the fly and dropped
        for i in range(ctx.per_shard(ctx.pick(24, 400))):
            env = G.base_env(rng.choice(BOX), rng.choice(BOX), rng.choice(IBOX),
                             s=rng.choice([0, 1, 2]), t=rng.choice([True, False]))
            ctx.case(("stream", i), True, n=0)
            ctx.run("C02.stream", (rng.getrandbits(32), rng.randint(20, 120), env))
        # 4c. scale: n-ary nodes of 9 .. 130 operands, long chains of one binary operator,
        #     constants beyond 2**31 / 2**53 / 2**63 / 10**18
        X, Y, Z = (p.Variable(n) for n in "xyz")
        for w in scale.WIDTHS:
            if not ctx.mine("wide"):
                continue
            for cls in (p.Sum, p.Product, p.Min, p.Max, p.BitwiseOr, p.BitwiseXor, p.BitwiseAnd,
                        p.LogicalOr, p.LogicalAnd):
                if cls in (p.LogicalOr, p.LogicalAnd):
                    ops = [rng.choice([p.Comparison(X, "<", i), p.Variable("t"), True, False,
                                       p.Comparison(Y, "!=", i % 3)]) for i in range(w)]
                else:
                    ops = [rng.choice([X, Y, Z, 2, 3, -1, -2, 5, p.Sum((X, i)), i + 2])
                           for i in range(w)]
                e = cls(tuple(ops))
                ctx.case(("wide", normal.typed_key(e)), True, n=0)
                ctx.count("wide_nodes")
                for _ in range(2):
                    env = G.base_env(rng.choice([-2, -1, 1, 2, 3]), rng.choice([-2, 1, 3]),
                                     rng.choice([-1, 2]), s=1, t=rng.choice([True, False]))
                    ctx.run("C02.eval", (e, env, True))
            for cls, leaves in ((p.Sum, None), (p.Quotient, None), (p.FloorDiv, None),
                                (p.Remainder, None), (p.Power, None), (p.LeftShift, None)):
                n = min(w, 40)
                if cls is p.Sum:
                    e = scale.chain(lambda a, b: p.Sum((a, b)), n,
                                    [rng.choice([X, Y, 1, -3, scale.big(rng)]) for _ in range(n + 1)],
                                    right=rng.random() < 0.5)
                elif cls is p.Power:    # ((x**1)**2)**1 ...: bounded magnitude
                    e = scale.chain(p.Power, min(n, 12), [X] + [rng.choice([1, 1, 2]) for _ in range(12)])
                elif cls is p.LeftShift:
                    e = scale.chain(p.LeftShift, n, [X] + [rng.choice([0, 1, 2]) for _ in range(n)])
                else:
                    e = scale.chain(cls, n, [p.Sum((X, scale.big(rng, False)))]
                                    + [rng.choice([3, 7, -2, p.Sum((Y, 5))]) for _ in range(n)])
                ctx.case(("chain", normal.typed_key(e)), True, n=0)
                ctx.count("long_chains")
                env = G.base_env(rng.choice([-2, 1, 2, 3]), rng.choice([-2, 1, 3]), 1)
                ctx.run("C02.eval", (e, env, True))
        # 4d. kinds of numbers: every binary / unary / n-ary operator over every pair of kinds,
        #     one operand a constant of the tree, the other a variable's value (or both either)
        binops = [p.Power, p.Quotient, p.FloorDiv, p.Remainder, lambda a, b: p.Sum((a, b)),
                  lambda a, b: p.Product((a, b)), lambda a, b: p.Comparison(a, "<", b),
                  lambda a, b: p.Comparison(a, "==", b), p.LeftShift, lambda a, b: p.BitwiseAnd((a, b)),
                  lambda a, b: p.Min((a, b)), lambda a, b: p.If(p.Comparison(a, "!=", 0), a, b),
                  lambda a, b: p.Sum((p.Product((a, a)), p.BitwiseNot(b))),
                  lambda a, b: p.Product((p.CommonSubexpression(p.Power(a, b)), 2))]
        kinds = list(numbers.KINDS)
        for k1 in kinds:
            for k2 in kinds:
                if not ctx.mine("kinds"):
                    continue
                for mk in rng.sample(binops, 5):
                    a, b = rng.choice(numbers.KINDS[k1]), rng.choice(numbers.KINDS[k2])
                    how = rng.randrange(4)
                    if isinstance(a, F):
                        how |= 1    # (Fraction is not a registered constant class: as a
                    if isinstance(b, F):    # value only, a tree may not hold one)
                        how |= 2
                    e = mk(X if how & 1 else a, Y if how & 2 else b)
                    env = G.base_env(a, b, 1)
                    ctx.case(("kinds", k1, k2, how, G.src(e)), True, n=0)
                    ctx.count("kind_pairs")
                    ctx.run("C02.kinds", (e, env))
        ctx.set_exhaustive("(kind of number, kind of number) over 19 kinds")
        fv = p.Variable("f")
        sh1, sh2 = p.Product((X, X)), p.CommonSubexpression(p.Sum((X, Y)), "s")
        for i, (outer, inner) in enumerate([
                (p.Sum((p.Call(fv, (Y,)), sh1, p.Product((-1, X)))), p.Sum((sh1, X))),
                (p.Sum((sh1, p.Call(fv, (Y,)), sh1)), p.Product((sh1, Y))),
                (p.Sum((sh2, p.Call(fv, (X,)), sh2)), p.Product((sh2, 2))),
                (p.Product((p.Call(fv, (sh2,)), sh2, X)), p.Sum((sh2, sh1))),
                (p.Sum((X, p.Call(fv, (p.Call(fv, (Y,)),)), X, Y)), p.Sum((X, Y, 1))),
                (p.If(p.Comparison(p.Call(fv, (1,)), ">", X), sh1, sh2), p.Sum((sh1, sh2))),
                (p.Sum((p.Call(fv, (2,)), p.Power(X, 2), p.Quotient(Y, X))), p.Sum((p.Power(X, 2), p.Quotient(Y, X))))]):
            for inner_x in (10, -1):
                if ctx.mine("reentrant"):
                    ctx.case(("reentrant", i, inner_x), True, n=0)
                    ctx.run("C02.reentrant", (outer, inner, inner_x))
        for shape in ("zdiv", "rem", "unbound", "callback", "pow"):
            for repair in ({"x": 3, "q_late": 5}, {"x": F(1, 2), "q_late": -2}, {"x": -4, "q_late": 0}):
                if ctx.mine("recover"):
                    ctx.case(("recover", shape, str(repair)), True, n=0)
                    ctx.run("C02.recover", (shape, repair))
        for which in ("exact", "abstract"):
            for shape in range(8):
                if ctx.mine("registered"):
                    ctx.case(("registered", which, shape), True, n=0)
                    ctx.run("C02.registered", (which, shape))
        # ... and values whose product does not commute (matrices): operands in operand order
        from .c03 import Mat2
        for i in range(ctx.per_shard(ctx.pick(60, 600))):
            ms = [Mat2(*[rng.randint(-2, 3) for _ in range(4)]) for _ in range(3)]
            env = G.base_env(*ms)
            for e in (p.Product((X, Y, Z)), p.Product((Y, p.Product((X, Z)), X)),
                      p.Sum((p.Product((X, Y)), p.Product((-1, Y, X)))),
                      p.Product((2, X, Y, 3)), p.Power(p.Product((X, Y)), 2),
                      p.Product((X, p.Sum((Y, Z)), Y))):
                ctx.count("noncommuting_products")
                ctx.run("C02.kinds", (e, env))
        # 5. containers at top level (plain evaluator), NaN nodes
        for i in range(ctx.per_shard(ctx.pick(200, 4000))):
            gen.pool = {"int": [], "num": [], "bool": []}
            items = [gen.any_sort(rng.randint(0, 3)) for _ in range(rng.randint(0, 4))]
            arr = np.empty((2, 2), dtype=object)
            for j in np.ndindex(2, 2):
                arr[j] = gen.int(2)
            # object arrays whose entries evaluate to sequences (tuples / lists of equal length)
            arr_t = np.empty((2, 2), dtype=object)
            for j in np.ndindex(2, 2):
                arr_t[j] = (gen.int(1), gen.int(1)) if rng.random() < 0.7 else [gen.int(1), 3]
            arr_1 = np.empty((3,), dtype=object)
            for j in range(3):
                arr_1[j] = (gen.int(1), gen.int(1), 5)
            # a ZERO-dimensional object array holding one expression: still an array afterwards
            arr_0 = np.empty((), dtype=object)
            arr_0[()] = gen.int(2)
            for cont, hashable in ((list(items), False), (tuple(items), True), (arr, False),
                                   (arr_0, False),
                                   (arr_t, False), (arr_1, False),
                                   ([tuple(items), [p.NaN(), 1]], False),
                                   (p.Sum((p.NaN(), gen.num(2))), True),
                                   (p.NaN(np.float32), True)):
                env = G.base_env(rng.choice(BOX), rng.choice(IBOX), rng.choice(IBOX))
                ctx.case(normal.typed_key(cont), True, n=0)
                ctx.run("C02.eval", (cont, env, hashable))
                ctx.count("container:" + type(cont).__name__)
        # 5b. subscripts whose index is a tuple of 0, 1 or 2 entries, on aggregates that tell
        #     a[(i,)] from a[i]: a dict keyed by both, a list (tuple index: TypeError), an array
        D_ = p.Variable("d")
        for i in range(ctx.per_shard(ctx.pick(60, 1200))):
            gen.pool = {"int": [], "num": [], "bool": []}
            k = rng.choice([0, 1, 1, 2, p.Variable("s"), gen.int(1)])
            k2 = rng.choice([0, 1, p.Variable("s")])
            for idx in ((k,), k, (k, k2), (), ((k,),)):
                for agg in (D_, p.Variable("a"), p.Variable("m")):
                    e = p.Subscript(agg, idx)
                    if rng.random() < 0.3:
                        e = p.Sum((e, 1))
                    env = G.base_env(1, 0, 0, s=rng.choice([0, 1]))
                    env["d"] = {(0,): 10, 0: 20, (1,): 30, 1: 40, (0, 0): 50, (0, 1): 60, (1, 0): 70,
                                (1, 1): 80, (): 90, ((0,),): 100, ((1,),): 110, 2: 120, (2,): 130}
                    ctx.case(normal.typed_key(e), True, n=0)
                    ctx.count("tuple_index_subscripts")
                    ctx.run("C02.eval", (e, env, True))
        # 6. typed twins: ==-but-differently-typed composites inside ONE evaluation, bare and
        #    under common-subexpression wrappers, where the type shows in the value (true
        #    division, ~, shifts, subscripts need ints).  The memo keys conflate them: a known
        #    finding, judged case by case with its explanation test.
        X = p.Variable("x")
        mk = [lambda c: p.Power(c, 3), lambda c: p.Sum((X, c)), lambda c: p.Product((c, X)),
              lambda c: p.Max((c, 0)), lambda c: p.If(p.Comparison(X, "<", 9), c, 0),
              lambda c: p.FloorDiv(c, 1), lambda c: p.Sum((c,))]
        use = [lambda t: p.BitwiseNot(t), lambda t: p.LeftShift(t, 1), lambda t: p.Quotient(t, 2),
               lambda t: p.Subscript(p.Variable("a"), t), lambda t: p.Comparison(t, "==", 1),
               lambda t: p.BitwiseAnd((t, 3)), lambda t: t]
        wrapk = [lambda t: t, lambda t: p.CommonSubexpression(t)]
        space = list(itertools.product(range(len(mk)), range(len(use)), range(2), range(2),
                                       [(1, 1.0), (1, True), (1.0, 1), (True, 1), (2, 2.0)]))
        for im, iu, iw, order, (c1, c2) in space:
            if not ctx.mine("typed-twins"):
                continue
            t1, t2 = wrapk[iw](mk[im](c1)), wrapk[iw](mk[im](c2))
            e = (t1, use[iu](t2)) if order == 0 else (use[iu](t2), t1)
            for xv in (0, 1):
                env = G.base_env(xv, 0, 0)
                ctx.case(normal.typed_key(e), True, n=0)
                ctx.count("typed_twin_cases")
                ctx.run("C02.eval", (e, env, True))
                ctx.run("C02.reuse", ([t1, use[iu](t2)], env))
        for k, v in tr.handlers().items():
            ctx.count("handler:" + k, v)
    ctx.floor("registered_constant_evaluations", 150)
    ctx.floor("reentrant_evaluations", 150)
    ctx.floor("evaluations_after_repair", 60)
    ctx.floor("typed_twin_cases", 100)
    ctx.floor("tuple_index_subscripts", 300)
    ctx.floor("variant:plain", 1000)
    ctx.floor("variant:cached", 1000)
    ctx.floor("variant:evaluate_kw", 1000)
    ctx.floor("outcome:v", 1000)
    ctx.floor("outcome:exc", 50)
    ctx.floor("outcome:unk", 50)
    ctx.floor("effect_reads", 500)
    ctx.floor("effect_calls", 100)
    ctx.floor("wide_nodes", 200)
    ctx.floor("kind_pairs", 1500)
    ctx.floor("noncommuting_products", 300)
    ctx.floor("long_chains", 100)
    ctx.floor("stream:rows", 500)
    ctx.floor("stream:row_address_reused", 100)
    for h in ("map_sum", "map_product", "map_floor_div", "map_remainder", "map_power",
              "map_left_shift", "map_right_shift", "map_bitwise_not", "map_bitwise_or",
              "map_bitwise_xor", "map_bitwise_and", "map_logical_not", "map_logical_or",
              "map_logical_and", "map_comparison", "map_if", "map_min", "map_max", "map_call",
              "map_call_with_kwargs", "map_subscript", "map_lookup", "map_tuple", "map_list",
              "map_numpy_array", "map_quotient", "map_nan", "map_common_subexpression"):
        ctx.floor("handler:EvaluationMapper." + h
                  if h != "map_common_subexpression"
                  else "handler:CSECachingMapperMixin.map_common_subexpression", 20)


RULE = RULE + '  Later additions: every pair of 19 number kinds; registered constant classes; re-entrant evaluation from a function of the environment; fail / fail again / repair histories on one evaluator; streams of temporaries.'
