"""C03 — operator overloading builds trees that mean what the operators mean."""
from __future__ import annotations

import itertools
import math
import operator
from fractions import Fraction as F

import numpy as np

import pymbolic.primitives as p

from ..core import check, short
from ..gen import expr as G
from ..gen import numbers, scale
from ..ref import normal, refsem

RULE = ("operator programs = trees over + - * / // % ** << >> & | ^, unary - + ~, call, subscript, "
        ".attr, .eq/.ne/.lt/.le/.gt/.ge, .and_/.or_/.not_ whose leaves are 'kinds' (variables, the "
        "constants 0 1 -1 2 0.0 1.0 1.5 -3 True False, and operands that are already "
        "Sum/Product/Quotient/FloorDiv/Remainder/Power/zero-valued composites). EXHAUSTIVE over every "
        "(binary operator, left kind, right kind) with >=1 expression operand (both orders, so every "
        "reflected method runs) and every (unary, kind); plus random programs of depth 2-4.  Each "
        "program is run once on symbols and once on plain numbers per environment (dyadic box; 2x2 "
        "integer matrices for + - * programs).  distinct = typed key of the program; non-trivial = "
        ">=1 operator applied to an expression.")
ASSUMPTIONS = [
    "construction may refuse (TypeError) only when an operand is a bool (booleans are declared "
    "non-arithmetic); any other refusal of a combination Python defines is a violation",
    "environments where the plain computation itself raises are skipped (property is conditional)",
]

KF_FLOORDIV1 = "C03-floordiv-by-one-shortcut"
KF_MOD1 = "C03-remainder-by-one-shortcut"
KF_ZEROPOW = "C03-zero-base-power-shortcut"
KF_EMPTYSUB = "C03-empty-tuple-subscript-returns-aggregate"

BIN = {"+": operator.add, "-": operator.sub, "*": operator.mul, "/": operator.truediv,
       "//": operator.floordiv, "%": operator.mod, "**": operator.pow,
       "<<": operator.lshift, ">>": operator.rshift, "&": operator.and_,
       "|": operator.or_, "^": operator.xor}
UN = {"neg": operator.neg, "pos": operator.pos, "inv": operator.invert}
CMPM = {"eq": operator.eq, "ne": operator.ne, "lt": operator.lt, "le": operator.le,
        "gt": operator.gt, "ge": operator.ge}
RAW = {"//": p.FloorDiv, "%": p.Remainder, "**": p.Power}


class Mat2:
    """2x2 integer matrix: a non-commutative ring element for + - * programs."""
    __slots__ = ("m",)

    def __init__(self, a, b, c, d):
        self.m = (a, b, c, d)

    @staticmethod
    def _lift(o):
        if isinstance(o, Mat2):
            return o
        if isinstance(o, (int, F)):
            return Mat2(o, 0, 0, o)
        return None

    def __add__(self, o):
        o = Mat2._lift(o)
        if o is None:
            return NotImplemented
        return Mat2(*[x + y for x, y in zip(self.m, o.m)])
    __radd__ = __add__

    def __neg__(self):
        return Mat2(*[-x for x in self.m])

    def __pos__(self):
        return self

    def __sub__(self, o):
        o = Mat2._lift(o)
        if o is None:
            return NotImplemented
        return self + (-o)

    def __rsub__(self, o):
        o = Mat2._lift(o)
        if o is None:
            return NotImplemented
        return o + (-self)

    def __mul__(self, o):
        o = Mat2._lift(o)
        if o is None:
            return NotImplemented
        a, b, c, d = self.m
        e, f, g, h = o.m
        return Mat2(a*e + b*g, a*f + b*h, c*e + d*g, c*f + d*h)

    def __rmul__(self, o):
        o = Mat2._lift(o)
        if o is None:
            return NotImplemented
        return o * self

    def __eq__(self, o):
        o = Mat2._lift(o)
        return o is not None and self.m == o.m

    def __hash__(self):
        return hash(self.m)

    def __repr__(self):
        return f"Mat2{self.m}"


class TupTable:
    """an aggregate for which d[(i,)], d[i] and d[i, j] are three different entries"""

    def __getitem__(self, k):
        if isinstance(k, tuple):
            return 1000 * (len(k) + 1) + sum((i + 2) * v for i, v in enumerate(k))
        return 500 + k


# {{{ kinds: (symbolic builder, numeric builder); env gives x, y

X, Y = p.Variable("x"), p.Variable("y")

KINDS = {
    "x": (lambda: X, lambda e: e["x"]),
    "y": (lambda: Y, lambda e: e["y"]),
    "0": (lambda: 0, lambda e: 0), "1": (lambda: 1, lambda e: 1),
    "-1": (lambda: -1, lambda e: -1), "2": (lambda: 2, lambda e: 2),
    "0.0": (lambda: 0.0, lambda e: 0.0), "1.0": (lambda: 1.0, lambda e: 1.0),
    "1.5": (lambda: 1.5, lambda e: 1.5), "-3": (lambda: -3, lambda e: -3),
    "True": (lambda: True, lambda e: True), "False": (lambda: False, lambda e: False),
    "sum": (lambda: p.Sum((X, Y)), lambda e: e["x"] + e["y"]),
    "sum1": (lambda: p.Sum((X, 1)), lambda e: e["x"] + 1),
    "prod": (lambda: p.Product((X, Y)), lambda e: e["x"] * e["y"]),
    "prod2": (lambda: p.Product((2, Y)), lambda e: 2 * e["y"]),
    "quot": (lambda: p.Quotient(X, Y), lambda e: e["x"] / e["y"]),
    "fdiv": (lambda: p.FloorDiv(X, Y), lambda e: e["x"] // e["y"]),
    "rem": (lambda: p.Remainder(X, Y), lambda e: e["x"] % e["y"]),
    "pow": (lambda: p.Power(X, 2), lambda e: e["x"] ** 2),
    "zprod": (lambda: p.Product((0, X)), lambda e: 0 * e["x"]),
    "zquot": (lambda: p.Quotient(0, Y), lambda e: 0 / e["y"]),
    "zsum": (lambda: p.Sum((0,)), lambda e: 0),
    "oprod": (lambda: p.Product((1, 1)), lambda e: 1),
    # subscripts written with subscript syntax: scalar, one-element tuple, pair
    "subs": (lambda: p.Variable("d")[X], lambda e: TupTable()[e["x"]]),
    "sub1": (lambda: p.Variable("d")[X,], lambda e: TupTable()[e["x"],]),
    "sub2": (lambda: p.Variable("d")[X, Y], lambda e: TupTable()[e["x"], e["y"]]),
}
EXPR_KINDS = [k for k, (s, _) in KINDS.items() if isinstance(s(), p.Expression)]
CONST_KINDS = [k for k in KINDS if k not in EXPR_KINDS]

# }}}


def has_bool(prog):
    if prog[0] == "leaf":
        return prog[1] in ("True", "False")
    return any(has_bool(c) for c in prog[1:] if isinstance(c, tuple))


def leaves_of(prog):
    if prog[0] == "leaf":
        return {prog[1]}
    out = set()
    for c in prog[1:]:
        if isinstance(c, tuple) and c and isinstance(c[0], str):
            out |= leaves_of(c)
    return out


def has_empty_subscript(prog):
    if prog[0] == "tindex" and prog[1] == 0:
        return True
    return any(has_empty_subscript(c) for c in prog[1:] if isinstance(c, tuple) and c
               and isinstance(c[0], str))


class Refused(Exception):
    pass


def sym(prog, raw_sites=frozenset(), path=()):
    """Run the program on symbols (the real operator overloads)."""
    k = prog[0]
    if k == "leaf":
        return KINDS[prog[1]][0]()
    if k == "bin":
        a, b = sym(prog[2], raw_sites, path + (2,)), sym(prog[3], raw_sites, path + (3,))
        if path in raw_sites:
            return RAW[prog[1]](a, b)
        return BIN[prog[1]](a, b)
    if k == "un":
        return UN[prog[1]](sym(prog[2], raw_sites, path + (2,)))
    if k == "cmp":
        a, b = sym(prog[2], raw_sites, path + (2,)), sym(prog[3], raw_sites, path + (3,))
        if not isinstance(a, p.Expression):   # folded to a number: no constructor method
            return p.Comparison(a, p.Comparison.name_to_operator[prog[1]], b)
        return getattr(a, prog[1])(b)
    if k == "logic":
        a = sym(prog[2], raw_sites, path + (2,))
        if not isinstance(a, p.Expression):
            if prog[1] == "not_":
                return p.LogicalNot(a)
            b = sym(prog[3], raw_sites, path + (3,))
            return (p.LogicalAnd if prog[1] == "and_" else p.LogicalOr)((a, b))
        if prog[1] == "not_":
            return a.not_()
        return getattr(a, prog[1])(sym(prog[3], raw_sites, path + (3,)))
    if k == "call":
        args = [sym(c, raw_sites, path + (i + 2,)) for i, c in enumerate(prog[2:])]
        if prog[1] == "kw":
            return p.Variable("g")(args[0], k=args[1])
        if prog[1] == "kw2":    # several keywords, NOT in alphabetical order (PEP 468)
            return p.Variable("h")(args[0], zeta=args[1], alpha=args[0], mid=2)
        return p.Variable("f")(*args)
    if k == "index":
        return p.Variable("a")[sym(prog[1], raw_sites, path + (1,))]
    if k == "tindex":      # subscript syntax with a tuple: d[i,]  d[i, j]  d[()]
        sub = tuple(sym(c, raw_sites, path + (i + 2,)) for i, c in enumerate(prog[2:]))
        if not sub and "emptyok" in raw_sites:
            return p.Variable("d")[p.EmptyOK(())]
        return p.Variable("d")[sub]
    if k == "attr":
        o = p.Variable("o")
        nm = prog[2] if len(prog) > 2 else "attr"
        # the two spellings of attribute look-up: o.attr("name") and o.a.name
        return o.attr(nm) if prog[1] == "attr" else getattr(o.a, nm)
    raise ValueError(k)


def _rat(v):
    return isinstance(v, (int, F)) and not isinstance(v, bool)


def _xbin(op, a, b):
    """The operator on exact rationals: int/int and negative integer powers stay Fractions."""
    if op == "/" and isinstance(a, (int, F)) and isinstance(b, (int, F)):
        return F(a) / F(b)          # (1996 / True is int / int as well)
    if op == "**" and _rat(a) and isinstance(b, int) and not isinstance(b, bool) and b < 0:
        return F(a) ** b
    if op == "**" and _rat(a) and _rat(b) and a == 1:
        return F(1)     # Fraction ** Fraction falls back to floats
    return BIN[op](a, b)


class _RatEnv(dict):
    """the environment with int values of x, y read as exact rationals"""

    def __getitem__(self, k):
        v = dict.__getitem__(self, k)
        if k in ("x", "y") and isinstance(v, int) and not isinstance(v, bool):
            return F(v)
        return v


def num(prog, env, exact=False, fold=None, path=()):
    """The program on plain numbers.  exact=True is the same computation with the dyadic float
    constants and int/int quotients kept as exact rationals (a float here is only ever a
    by-product; // and % amplify its rounding error to a whole unit).  fold: paths of binary
    sites at which the three recorded shortcuts are emulated ON NUMBERS (x // 1 -> x,
    x % 1 -> 0, 0 ** x -> 0) -- the plain computation 'as the findings distort it'."""
    k = prog[0]
    if k == "leaf":
        if exact:       # composite leaf kinds divide inside their builder: give them rationals
            env = _RatEnv(env)
        v = KINDS[prog[1]][1](env)
        if exact and isinstance(v, F) and v.denominator == 1:
            v = int(v)  # integral values keep their int-ness (shifts, bitwise operators, indexing)
        return F(v) if exact and isinstance(v, float) else v
    if k == "bin":
        a = num(prog[2], env, exact, fold, path + (2,))
        b = num(prog[3], env, exact, fold, path + (3,))
        if fold and path in fold:
            if prog[1] == "//" and b == 1:
                return a
            if prog[1] == "%" and b == 1:
                return 0
            if prog[1] == "**" and a == 0:
                return 0
        if prog[1] == "**":
            refsem._pow(a, b) if _rat(a) and _rat(b) else None    # refuses 10**6-bit results
        return _xbin(prog[1], a, b) if exact else BIN[prog[1]](a, b)
    if k == "un":
        return UN[prog[1]](num(prog[2], env, exact, fold, path + (2,)))
    if k == "cmp":
        return CMPM[prog[1]](num(prog[2], env, exact, fold, path + (2,)),
                             num(prog[3], env, exact, fold, path + (3,)))
    if k == "logic":
        a = bool(num(prog[2], env, exact, fold, path + (2,)))
        if prog[1] == "not_":
            return not a
        b = bool(num(prog[3], env, exact, fold, path + (3,)))
        return (a and b) if prog[1] == "and_" else (a or b)
    if k == "call":
        args = [num(c, env, exact, fold, path + (i + 2,)) for i, c in enumerate(prog[2:])]
        if prog[1] == "kw":
            return env["g"](args[0], k=args[1])
        if prog[1] == "kw2":
            return env["h"](args[0], zeta=args[1], alpha=args[0], mid=2)
        return env["f"](*args)
    if k == "index":
        return env["a"][num(prog[1], env, exact, fold, path + (1,))]
    if k == "tindex":
        return TupTable()[tuple(num(c, env, exact, fold, path + (i + 2,))
                                for i, c in enumerate(prog[2:]))]
    if k == "attr":
        return getattr(env["o"], prog[2] if len(prog) > 2 else "attr")
    raise ValueError(k)


def agrees(got, prog, env, want, tree=None):
    """The tree's outcome is the plain computation's value, or -- when a float by-product sits
    below a discontinuous operator on either side -- the two agree as the same computation on
    exact rationals (a dropped 0.0 makes the tree exact where the plain computation rounds;
    a folded x**0 -> 1 makes int/int round in the tree where the plain Fraction is exact)."""
    if got[0] != "v":
        # the tree RAISES where the plain computation returns a number: with a float by-product
        # below a remainder (True % 0.333.. is 5e-17 in floats, 0 on exact rationals) a divisor
        # is zero exactly and almost zero in floats -- agreed if the same computation on exact
        # rationals raises the same error
        if got[0] == "exc" and "float" in _types_below(prog, env):
            try:
                num(prog, env, exact=True)
            except RecursionError:
                raise
            except Exception as ex:  # noqa: BLE001
                return type(ex).__name__ == got[1]
        if got == ("exc", "OverflowError") and tree is not None:
            # 4**200 % (int / int): the tree's true division of two ints is a float (the plain
            # operand was exact because a dropped zero-valued term had made it a Fraction) and a
            # huge int does not convert -- agreed if the tree on exact rationals gives the value
            try:
                with refsem.exact():
                    gx = refsem.outcome(lambda: refsem.ev(tree, env))
                wx = num(prog, env, exact=True)
                return gx[0] == "v" and refsem.values_equal(gx[1], wx)
            except RecursionError:
                raise
            except Exception:  # noqa: BLE001
                return False
        return False
    if refsem.values_equal(got[1], want):
        return True
    if "float" in _types_below(prog, env) or isinstance(got[1], float):
        try:
            wx = num(prog, env, exact=True)
        except RecursionError:
            raise
        except Exception:  # noqa: BLE001
            return False
        if refsem.values_equal(got[1], wx):
            return True
        if tree is not None:
            with refsem.exact():
                gx = refsem.outcome(lambda: refsem.ev(tree, env))
            return gx[0] == "v" and refsem.values_equal(gx[1], wx)
    return False


def _types_below(prog, env):
    out = set()

    def go(q):
        try:
            out.add(type(num(q, env)).__name__)
        except RecursionError:
            raise
        except Exception:  # noqa: BLE001
            pass
        for c in q[1:]:
            if isinstance(c, tuple) and c and isinstance(c[0], str):
                go(c)
    go(prog)
    return out


def sites(prog, path=()):
    """Paths of the three shortcut sites that are known findings."""
    out = []
    if prog[0] == "bin":
        if prog[1] in ("//", "%", "**"):
            out.append((path, prog[1]))
        out += sites(prog[2], path + (2,)) + sites(prog[3], path + (3,))
    else:
        for i, c in enumerate(prog):
            if isinstance(c, tuple) and c and isinstance(c[0], str) and i >= 1:
                out += sites(c, path + (i,))
    return out


def ops_on_expr(prog):
    return 0 if prog[0] == "leaf" else 1 + sum(ops_on_expr(c) for c in prog[1:] if isinstance(c, tuple))


def envs(prog_ops, rng, n, nan_ok=False):
    intish = prog_ops & {"<<", ">>", "&", "|", "^", "inv", "index"}
    box = [-2, -1, 0, 1, 2, 3] if intish else [-2, -1, 0, 1, 2, 3, F(1, 2), F(-3, 2), F(5, 4)]
    pts = list(itertools.product(box, repeat=2))
    if len(pts) > n:
        pts = rng.sample(pts, n)
    out = []
    for x, y in pts:
        e = G.base_env(x, y, 0)
        e["d"] = TupTable()
        out.append(e)
    if {"cmp", "logic"} <= prog_ops and not (prog_ops - {"cmp", "logic"}) and nan_ok:
        # unordered operands: with a NaN, 'not (a < b)' is not 'a >= b'
        for x, y in ((float("nan"), 1), (2, float("nan")), (float("nan"), float("nan"))):
            e = G.base_env(x, y, 0)
            e["d"] = TupTable()
            out.append(e)
    if not (prog_ops - {"+", "-", "*", "neg", "pos"}):
        for _ in range(3):
            e = G.base_env(Mat2(*[rng.randint(-2, 3) for _ in range(4)]),
                           Mat2(*[rng.randint(-2, 3) for _ in range(4)]), 0)
            e["d"] = TupTable()
            out.append(e)
    return out


def prog_ops(prog):
    if prog[0] == "leaf":
        return set()
    s = {prog[1]} if prog[0] in ("bin", "un") else {prog[0]}
    for c in prog[1:]:
        if isinstance(c, tuple):
            s |= prog_ops(c)
    return s


@check("C03.program")
def c_program(ctx, case):
    prog, nenv = case
    try:
        tree = sym(prog)
    except RecursionError:
        raise
    except Exception as e:  # noqa: BLE001
        ctx.case(None)
        ctx.count("construction_refused")
        defined = 0
        for env in envs(prog_ops(prog), ctx.sub_rng("env", repr(prog)), 12):
            try:
                num(prog, env)
                defined += 1
            except RecursionError:
                raise
            except Exception:  # noqa: BLE001
                pass
        if defined == 0:
            ctx.count("undefined_on_numbers_too")
            return
        if not has_bool(prog):
            ctx.fail("C03.program", case, f"refused:{type(e).__name__}:{_psig(prog)}",
                     f"program {show(prog)} could not be built on symbols: {type(e).__name__}: {e}",
                     finding=_refusal_finding(ctx, prog))
        return
    ops = prog_ops(prog)
    rng = ctx.sub_rng("env", repr(prog))
    # NaN operands only where no algebraic shortcut is in play (0*nan, 0/nan are not 0): pure
    # comparison / logic programs over variables and non-zero constants
    nan_ok = leaves_of(prog) <= {"x", "y", "1", "2", "-3", "1.5", "-1", "1.0"}
    for env in envs(ops, rng, nenv, nan_ok):
        try:
            want = num(prog, env)
        except RecursionError:
            raise
        except Exception:
            ctx.count("numeric_undefined")
            continue
        ctx.case(None)
        ctx.count("compared")
        got = refsem.outcome(lambda: refsem.ev(tree, env))
        if agrees(got, prog, env, want, tree):
            if not (got[0] == "v" and refsem.values_equal(got[1], want)):
                ctx.count("agreed_only_with_exact_rational_computation")
            continue
        # d[()]: documented (and deprecated) to return the aggregate itself
        if has_empty_subscript(prog):
            try:
                t0 = sym(prog, frozenset(["emptyok"]))
                g0 = refsem.outcome(lambda: refsem.ev(t0, env))
                if not agrees(g0, prog, env, want, t0):
                    # ... next to one of the other recorded shortcuts (d[()] // True)
                    t0 = sym(prog, frozenset(["emptyok"]) | frozenset(pth for pth, _ in sites(prog)))
                    g0 = refsem.outcome(lambda: refsem.ev(t0, env))
                if agrees(g0, prog, env, want, t0):
                    ctx.fail("C03.program", case, f"value:{_psig(prog)}",
                             f"program {show(prog)} built {tree!s}; env x={env['x']} y={env['y']}: "
                             f"tree evaluates to {short(got)}, plain computation gives {want!r}",
                             finding=KF_EMPTYSUB)
                    continue
            except RecursionError:
                raise
            except Exception:  # noqa: BLE001
                pass
        # classify: is it one of the three known shortcuts?  explanation test = rebuild with
        # the raw node constructor at exactly the classified sites and require agreement.
        finding = None
        st = sites(prog)
        if st:
            raw = frozenset(pth for pth, _ in st)
            try:
                tree2 = sym(prog, raw)
                got2 = refsem.outcome(lambda: refsem.ev(tree2, env))
                if agrees(got2, prog, env, want, tree2):
                    finding = _which_site(prog, st, env, want)
            except Exception:
                finding = None
            if finding is None and has_bool(prog):
                finding = _folded_site(prog, st, env, got)
        ctx.fail("C03.program", case, f"value:{_psig(prog)}",
                 f"program {show(prog)} built {tree!s} [{G.src(tree)}]; env x={env['x']} y={env['y']}: "
                 f"tree evaluates to {short(got)}, plain computation gives {want!r}", finding=finding)


def _refusal_finding(ctx, prog):
    """A shortcut that folds to a wrong *number* can make the next (plain Python) operator raise
    (0.0 ** Sum((0,)) folds to 0, then 0 ** -1).  Attributed to a finding only if building with the
    raw node at that one class of sites succeeds and agrees wherever the numbers are defined."""
    st = sites(prog)
    for fid, opname in ((KF_FLOORDIV1, "//"), (KF_MOD1, "%"), (KF_ZEROPOW, "**")):
        raw = frozenset(pth for pth, o in st if o == opname)
        if not raw:
            continue
        if has_empty_subscript(prog):
            # (d[()] elsewhere in the program: the other recorded shortcut is neutralised too,
            #  or the rebuilt tree fails for ITS reason -- d >> x -- and explains nothing)
            raw = raw | frozenset(["emptyok"])
        try:
            t = sym(prog, raw)
        except RecursionError:
            raise
        except Exception:  # noqa: BLE001
            continue
        ok, cond = True, False
        for env in envs(prog_ops(prog), ctx.sub_rng("env", repr(prog)), 12):
            try:
                want = num(prog, env)
            except RecursionError:
                raise
            except Exception:  # noqa: BLE001
                continue
            g = refsem.outcome(lambda: refsem.ev(t, env))
            ok = ok and agrees(g, prog, env, want, t)
            cond = cond or _site_condition(prog, raw, opname, env)
        if ok and cond:
            return fid
    return None


def _folded_site(prog, st, env, got):
    """Second explanation test, for programs that cannot be rebuilt with raw nodes (a bool next
    to the site makes the raw expression refuse it): the tree's value equals the plain
    computation with that ONE class of sites folded on numbers the way the finding folds it."""
    if got[0] not in ("v", "exc"):
        return None
    for fid, opname in ((KF_FLOORDIV1, "//"), (KF_MOD1, "%"), (KF_ZEROPOW, "**")):
        raw = frozenset(pth for pth, o in st if o == opname)
        if not raw or not _site_condition(prog, raw, opname, env):
            continue
        for exact in (False, True):
            try:
                w = num(prog, env, exact=exact, fold=raw)
            except RecursionError:
                raise
            except Exception as ex:  # noqa: BLE001
                # (x % 1 folded to 0 next to `+ False`, then `... % 0`: the tree raises what the
                #  plain computation raises once the site is folded the way the finding folds it)
                if got[0] == "exc" and type(ex).__name__ == got[1]:
                    return fid
                continue
            if got[0] == "v" and refsem.values_equal(got[1], w):
                return fid
    return None


def _which_site(prog, st, env, want):
    """Attribute to a finding only if neutralising that site class explains it -- a single class
    first; then two or three together (x // True over y % 1.0 meets two shortcuts at once), each
    of which must satisfy its own condition.  The id returned is the first class of the set."""
    classes = ((KF_FLOORDIV1, "//"), (KF_MOD1, "%"), (KF_ZEROPOW, "**"))
    for r in (1, 2, 3):
        for combo in itertools.combinations(classes, r):
            raws = [frozenset(pth for pth, o in st if o == opname) for _, opname in combo]
            if not all(raws):
                continue
            raw = frozenset().union(*raws)
            try:
                t = sym(prog, raw)
                g = refsem.outcome(lambda: refsem.ev(t, env))
            except Exception:
                continue
            if agrees(g, prog, env, want, t) \
                    and all(_site_condition(prog, rw, opname, env)
                            for rw, (_, opname) in zip(raws, combo)):
                return combo[0][0]
    return None


def _sub(prog, path):
    for i in path:
        prog = prog[i]
    return prog


def _site_condition(prog, raw, opname, env):
    """The syntactic/semantic condition of the finding holds at one of the sites."""
    for pth in raw:
        if not isinstance(pth, tuple):
            continue        # ("emptyok": not a site)
        node = _sub(prog, pth)
        try:
            lv, rv = num(node[2], env), num(node[3], env)
        except Exception:
            continue
        if opname in ("//", "%") and rv == 1 \
                and not (isinstance(lv, int) or (isinstance(lv, F) and lv.denominator == 1)
                         or (isinstance(lv, float) and lv.is_integer() and opname == "%")):
            return True
        if opname in ("//",) and rv == 1 and isinstance(lv, float):
            return True     # x // 1 on a float returns a float floor, x stays x: value equal iff integral
        if opname == "**" and lv == 0 and rv == 0:
            return True
    return False


def _psig(prog):
    if prog[0] == "leaf":
        return prog[1]
    if prog[0] == "bin":
        return f"({_psig(prog[2])}{prog[1]}{_psig(prog[3])})"[:60]
    return f"{prog[0]}:{prog[1] if isinstance(prog[1], str) else ''}"


def show(prog):
    if prog[0] == "leaf":
        return prog[1]
    if prog[0] == "bin":
        return f"({show(prog[2])} {prog[1]} {show(prog[3])})"
    if prog[0] == "un":
        return f"{prog[1]}({show(prog[2])})"
    return f"{prog[0]}[{', '.join(show(c) if isinstance(c, tuple) else str(c) for c in prog[1:])}]"


@check("C03.ordering")
def c_ordering(ctx, case):
    lk, rk = case
    a, b = KINDS[lk][0](), KINDS[rk][0]()
    for name, f in (("<", operator.lt), ("<=", operator.le), (">", operator.gt), (">=", operator.ge)):
        ctx.case(None)
        ctx.count("ordering_compares")
        try:
            r = f(a, b)
        except TypeError:
            continue
        except Exception as e:  # noqa: BLE001
            ctx.fail("C03.ordering", case, f"ordering-raises-{type(e).__name__}:{lk}{name}{rk}",
                     f"{a!r} {name} {b!r} raised {type(e).__name__}, expected TypeError")
            continue
        ctx.fail("C03.ordering", case, f"ordering-returns:{type(a).__name__}{name}{type(b).__name__}",
                 f"{a!r} {name} {b!r} returned {r!r} instead of raising TypeError")


def rand_prog(rng, d, need_expr=True):
    if d <= 0:
        k = rng.choice(EXPR_KINDS if need_expr or rng.random() < 0.6 else CONST_KINDS)
        return ("leaf", k)
    u = rng.random()
    if u < 0.62:
        op = rng.choice(list(BIN))
        left_expr = rng.random() < 0.6
        a = rand_prog(rng, d - 1 if rng.random() < 0.7 else 0, left_expr)
        b = rand_prog(rng, d - 1 if rng.random() < 0.7 else 0, not left_expr)
        if op == "**":
            b = ("leaf", rng.choice(["0", "1", "2", "-1", "x", "True", "1.0"])) if rng.random() < 0.8 else b
        if op in ("<<", ">>"):
            b = ("leaf", rng.choice(["0", "1", "2", "x"]))
        return ("bin", op, a, b)
    if u < 0.74:
        return ("un", rng.choice(list(UN)), rand_prog(rng, d - 1, True))
    if u < 0.82:
        return ("cmp", rng.choice(list(CMPM)), rand_prog(rng, d - 1, True), rand_prog(rng, d - 1, False))
    if u < 0.88:
        op = rng.choice(["and_", "or_", "not_"])
        return ("logic", op, rand_prog(rng, d - 1, True), rand_prog(rng, d - 1, False))
    if u < 0.94:
        return ("call", rng.choice(["pos", "kw", "kw2"]), rand_prog(rng, d - 1, False), rand_prog(rng, d - 1, False))
    if u < 0.96:
        return ("index", ("bin", "%", rand_prog(rng, d - 1, True), ("leaf", "2")))
    if u < 0.98:
        n = rng.choice([0, 1, 1, 2])
        return ("tindex", n, *[rand_prog(rng, d - 1, i == 0) for i in range(n)])
    return ("attr", rng.choice(["attr", "a"]), rng.choice(G.ATTR_NAMES))


def _exactly(a, b):
    """the same number: exact comparison whenever an exact kind (int, bool, Fraction) is on
    either side -- 10**18 + 49 is not 1.000000000000000049e18 --, floats with float tolerance"""
    import numpy as np
    fl = (float, complex, np.floating, np.complexfloating)
    try:
        if isinstance(a, fl) and isinstance(b, fl):
            return refsem.values_equal(a, b)
        if a != a and b != b:
            return True
        return bool(a == b)
    except Exception:  # noqa: BLE001
        return False


@check("C03.kinds")
def c_kinds(ctx, case):
    """One operator, an expression on one side and a constant of some KIND on the other
    (integer-valued floats, negative zero, bools, huge ints, extreme floats, complex), evaluated
    where the variable holds a value of every kind (numpy scalars that wrap around or round,
    ints no double holds, Fractions, infinities, NaN): exactly the plain computation."""
    op, c, side, nested = case
    import warnings
    f = BIN[op]
    # the plain computation, with the reference's refusal of astronomically large results
    g = {"**": refsem._pow, "<<": refsem._lshift}.get(op, f)
    cx = F(c) if isinstance(c, float) and math.isfinite(c) else F(int(c)) if isinstance(c, int) else c
    inner = p.Sum((X, 0)) if nested else X      # a composite operand (one-child-like sum)

    def build():
        return f(inner, c) if side == "left" else f(c, inner)
    try:
        tree = build()
    except RecursionError:
        raise
    except Exception as ex:  # noqa: BLE001
        tree, built_err = None, type(ex).__name__
    for k in numbers.KINDS:
        if k == "np.uint8":
            continue    # a - b is REPRESENTED as a + (-1)*b: unsigned fixed-width values cannot
            #             be negated (OverflowError in numpy 2) -- outside the representable fragment
        for xv in numbers.KINDS[k][:3]:
            env = {"x": xv, "y": 1}
            with warnings.catch_warnings():
                warnings.simplefilter("ignore")
                try:
                    want = refsem.outcome(lambda: g(xv + 0 if nested else xv, c) if side == "left"
                                          else g(c, xv + 0 if nested else xv))
                except refsem.TooCostly:
                    ctx.count("kind_evaluations_too_costly")
                    continue
                if tree is None:
                    if isinstance(c, bool):
                        continue    # (bools are not accepted as arithmetic operands: C03.program)
                    if want[0] == "v":
                        ctx.fail("C03.kinds", case, f"refused:{op}:{numbers.kind_of(c)}",
                                 f"x {op} {c!r} ({side}) could not be built ({built_err}) although "
                                 f"{xv!r} {op} {c!r} is defined")
                        return
                    continue
                try:
                    got = refsem.outcome(lambda: refsem.ev(tree, env))
                except refsem.TooCostly:
                    continue
            ctx.case(None)
            ctx.count("kind_evaluations")
            if want[0] != "v":
                continue            # the statement is about environments where the plain
                #                     computation is defined (0 / x at x == 0 is not)
            try:
                if want[1] != want[1] or (c == 0 and not np.isfinite(complex(xv))):
                    # 0 * inf, 0.0 / False in numpy: IEEE makes these NaN; the x*0 and 0/x
                    # folds of the statement are about numbers
                    ctx.count("kind_nonfinite_fold_skipped")
                    continue
            except Exception:  # noqa: BLE001
                pass
            if got[0] == "v" and not _exactly(got[1], want[1]) \
                    and (isinstance(c, float) or (op == "/" and isinstance(c, int))) \
                    and not isinstance(xv, (float, complex, np.floating, np.complexfloating)):
                # a float constant makes the plain result a rounded float; a dropped neutral
                # 0.0 / 1.0 (or x**1.0) leaves the tree exact: accepted if the tree gives the
                # SAME computation on exact rationals (as in C03.program)
                try:
                    xq = F(int(xv)) if isinstance(xv, (int, np.integer)) and not isinstance(xv, bool) \
                        and op == "/" else xv
                    wx = g(xq, cx) if side == "left" else g(cx, xq)
                    if _exactly(got[1], wx) and refsem.values_equal(float(wx), want[1]):
                        ctx.count("kind_agreed_with_exact_rational_computation")
                        continue
                except Exception:  # noqa: BLE001
                    pass
            if got[0] != "v" or not _exactly(got[1], want[1]):
                ctx.fail("C03.kinds", case, f"value:{op}:{side}:{numbers.kind_of(c)}",
                         f"x {op} {c!r} built ({side}) as {tree}; at x={xv!r} "
                         f"[{numbers.kind_of(xv)}] the tree evaluates to {short(got)}, the plain "
                         f"computation gives {want[1]!r} [{numbers.kind_of(want[1])}]",
                         finding=_kinds_finding(op, c, side, xv, want))


def _kinds_finding(op, c, side, xv, want):
    """the three recorded construction-time shortcuts, by their site: x // 1 and x % 1 with a
    non-integral x, 0 ** x at x == 0"""
    try:
        if side == "left" and op == "//" and c == 1:       # (True == 1: x // True is folded too)
            return KF_FLOORDIV1
        if side == "left" and op == "%" and c == 1:
            return KF_MOD1
        if side == "right" and op == "**" and c == 0:
            return KF_ZEROPOW
    except Exception:  # noqa: BLE001
        pass
    return None


@check("C03.registry")
def c_registry(ctx, case):
    """'over a mix of expressions and numbers': which classes count as numbers is what the public
    registry says NOW.  A refused operation (the operand's class is not registered yet), then a
    registration -- of the class itself or of a base / abstract class of it --, then the same
    operation: it builds the tree of the plain computation; after unregistering it is refused
    again."""
    op, side, reg = case
    import numbers as abcs
    from fractions import Fraction
    f = BIN[op]
    c = Fraction(3, 2)
    regcls = {"exact": Fraction, "abstract": abcs.Rational, "abstract-real": abcs.Real}[reg]

    def attempt():
        return refsem.outcome(lambda: f(X, c) if side == "left" else f(c, X))
    ctx.case(None)
    ctx.count("registry_histories")
    first = attempt()       # (refused for most operators; not a promise of the statement)
    ctx.count("registry_first_attempt:" + first[0])
    p.register_constant_class(regcls)
    try:
        second = attempt()
        if second[0] != "v":
            ctx.fail("C03.registry", case, f"refused-after-registration:{reg}",
                     f"x {op} Fraction(3, 2) [{side}]: refused ({first[1]}), then "
                     f"register_constant_class({regcls.__name__}), then the same operation is "
                     f"still refused ({second[1]})")
        else:
            for xv in (2, F(1, 3), -3):
                want = refsem.outcome(lambda: f(xv, c) if side == "left" else f(c, xv))
                got = refsem.outcome(lambda: refsem.ev(second[1], {"x": xv}))
                # (Fraction ** x turns ITSELF into a float before pymbolic sees it)
                if want[0] == "v" and (got[0] != "v" or not refsem.values_equal(got[1], want[1])):
                    ctx.fail("C03.registry", case, f"value-after-registration:{op}",
                             f"x {op} Fraction(3, 2) built {second[1]}; at x={xv}: {short(got)} "
                             f"vs plain {short(want)}")
    finally:
        p.unregister_constant_class(regcls)
    third = attempt()
    if third[0] != first[0]:
        ctx.fail("C03.registry", case, "registration-outlives-unregistration",
                 f"x {op} Fraction(3, 2): {short(first)} before registration, {short(third)} after "
                 f"register + unregister of {regcls.__name__}")


@check("C03.smart")
def c_smart(ctx, case):
    """The construction helpers that stand for repeated operator application -- the builtin
    sum() over expressions, linear_combination, flattened_sum, flattened_product -- on LONG
    operand lists: the tree evaluates to the plain computation on numbers."""
    kind, n, seed = case
    rng = ctx.sub_rng("smart", seed)
    syms = [X, Y, p.Sum((X, 1)), p.Product((2, Y)), p.Power(X, 2), p.Variable("z")]
    terms = [rng.choice(syms) if rng.random() < 0.75 else rng.choice([0, 1, 2, -3, 1, 0])
             for _ in range(n)]
    coeffs = [rng.choice([1, 2, -1, 3, 0, -2, 5]) for _ in range(n)]
    try:
        if kind == "linear_combination":
            tree = p.linear_combination(coeffs, terms)
        elif kind == "sum()":
            tree = sum(terms)
        elif kind == "flattened_sum":
            tree = p.flattened_sum(terms)
        elif kind == "flattened_product":
            tree = p.flattened_product(terms)
        else:       # nested: sums of sums / products of products handed to the flattener
            half = n // 2
            if kind == "flattened_sum:nested":
                tree = p.flattened_sum([p.Sum(tuple(terms[:half])), *terms[half:],
                                        p.Sum((p.Sum(tuple(terms[:3])), 1))])
            else:
                tree = p.flattened_product([p.Product(tuple(terms[:half])), *terms[half:],
                                            p.Product((p.Product(tuple(terms[:3])), 1))])
    except RecursionError:
        raise
    except Exception as ex:  # noqa: BLE001
        ctx.fail("C03.smart", case, f"{kind}:raised:{type(ex).__name__}",
                 f"{kind} over {n} operands raised {type(ex).__name__}: {ex}")
        return
    for xv, yv, zv in ((2, 3, -1), (-1, 2, 5), (F(1, 2), -2, 3), (3, F(-3, 2), 2)):
        env = {"x": xv, "y": yv, "z": zv}
        vals = [refsem.ev(t, env) for t in terms]
        if kind == "linear_combination":
            want = sum(c * v for c, v in zip(coeffs, vals))
        elif kind in ("sum()", "flattened_sum"):
            want = sum(vals)
        elif kind == "flattened_product":
            want = math.prod(vals)
        elif kind == "flattened_sum:nested":
            want = sum(vals[:n // 2]) + sum(vals[n // 2:]) + sum(vals[:3]) + 1
        else:
            want = math.prod(vals[:n // 2]) * math.prod(vals[n // 2:]) * math.prod(vals[:3])
        ctx.case(None)
        ctx.count("smart_constructor_values")
        got = refsem.outcome(lambda: refsem.ev(tree, env))
        if got[0] != "v" or not refsem.values_equal(got[1], want):
            ctx.fail("C03.smart", case, f"{kind}:value",
                     f"{kind} over {n} operands (coefficients {coeffs[:6]}..., terms "
                     f"{[str(t) for t in terms[:6]]}...) at x={xv} y={yv} z={zv}: the tree "
                     f"evaluates to {short(got)}, the plain computation gives {want!r}")
            return


AUG = {"+": operator.iadd, "-": operator.isub, "*": operator.imul, "//": operator.ifloordiv,
       "%": operator.imod, "**": operator.ipow}
DIRECTED_STATEMENTS = [
    # s = x + y; t = 2 * s; s += z; r = t - s      (t refers to the object s names)
    [("set", "s", "+", "x", "y"), ("set", "t", "*", 2, "s"), ("aug", "s", "+", "z"), ("set", "r", "-", "t", "s")],
    [("set", "s", "+", "x", "y"), ("set", "b", "+", "s", 0), ("aug", "s", "+", "z"), ("aug", "s", "+", "b")],
    [("set", "s", "*", "x", "y"), ("set", "t", "+", "s", 1), ("aug", "s", "*", "z"), ("aug", "s", "*", "s")],
    [("set", "s", "-", "x", "y"), ("set", "t", "*", "s", "s"), ("aug", "s", "-", "z"), ("aug", "s", "-", 3)],
    [("set", "s", "+", "x", 1), ("set", "t", "**", "s", 2), ("aug", "s", "**", 2), ("aug", "s", "+", "t")],
    [("set", "s", "+", "x", 5), ("set", "t", "//", "s", 2), ("aug", "s", "//", 2), ("aug", "s", "%", 3), ("set", "r", "+", "t", "s")],
    [("set", "s", "+", "x", "y"), ("set", "t", "+", "s", "s"), ("aug", "s", "+", "s"), ("aug", "t", "+", "s")],
    # an operator applied to the RESULT of the same operator, with constants of either sign
    [("set", "t", "//", "x", 3), ("set", "u", "//", "t", -2), ("set", "w", "%", "t", -2), ("aug", "t", "//", -1)],
    [("set", "t", "//", "x", -2), ("set", "u", "//", "t", 3), ("aug", "t", "//", 2), ("aug", "t", "//", -3)],
    [("set", "t", "%", "x", 5), ("set", "u", "%", "t", -3), ("aug", "t", "%", 3), ("aug", "t", "%", -2)],
    [("set", "t", "**", "x", 2), ("set", "u", "**", "t", 3), ("aug", "t", "**", 2), ("aug", "t", "**", 0)],
    [("set", "t", "-", "x", "y"), ("set", "u", "-", "t", "z"), ("set", "w", "-", "z", "t"), ("aug", "t", "-", "t")],
    [("set", "s", "+", "x", "y"), ("aug", "s", "+", 0), ("set", "t", "*", 3, "s"), ("aug", "s", "+", "t"), ("aug", "s", "*", 1)],
]


def rand_statements(rng):
    names = ["x", "y", "z"]
    out = []
    for i in range(rng.randint(3, 9)):
        operand = lambda: rng.choice(names) if rng.random() < 0.75 else rng.choice([0, 1, 2, -1, 3, -2])  # noqa: E731
        if len(names) > 3 and rng.random() < 0.45:
            t = rng.choice(names[3:])
            op = rng.choice(["+", "+", "+", "-", "*", "*", "//", "%", "**"])
            out.append(("aug", t, op, rng.choice([2, 3]) if op == "**" else operand()))
        else:
            t = rng.choice([f"v{len(names)}", f"v{len(names)}", *names[3:]]) if len(names) > 3 else f"v{len(names)}"
            op = rng.choice(["+", "+", "-", "*", "*", "//", "%", "**"])
            a = rng.choice(names)
            b = rng.choice([0, 1, 2, 3]) if op == "**" else operand()
            if rng.random() < 0.3 and op != "**":
                a, b = b, a
            out.append(("set", t, op, a, b))
            if t not in names:
                names.append(t)
    return out


def run_statements(stmts, env):
    """the statements with Python's own (augmented) assignment semantics: names are rebound,
    the values other names hold stay what they were"""
    vals = dict(env)
    get = lambda a: vals[a] if isinstance(a, str) else a  # noqa: E731
    for st in stmts:
        if st[0] == "set":
            _, t, op, a, b = st
            vals[t] = BIN[op](get(a), get(b))
        else:
            _, t, op, a = st
            vals[t] = AUG[op](vals[t], get(a))
    return vals


def show_statements(stmts):
    return "; ".join(f"{st[1]} = {st[3]} {st[2]} {st[4]}" if st[0] == "set" else f"{st[1]} {st[2]}= {st[3]}"
                     for st in stmts)


@check("C03.statements")
def c_statements(ctx, case):
    """A straight-line computation of several statements, with names used more than once and
    augmented assignments (s += z) -- every name ends up denoting what the same statements give
    on plain numbers.  In particular `s += z` REBINDS s: a tree built earlier from the object s
    named still means what it meant."""
    (stmts, seed) = case
    from pymbolic import evaluate
    ctx.case(None)
    ctx.count("statement_programs")
    syms = {n: p.Variable(n) for n in "xyz"}
    try:
        trees = run_statements(stmts, syms)
    except RecursionError:
        raise
    except Exception as ex:  # noqa: BLE001
        # (operands that the shortcuts folded to plain numbers compute like plain numbers: an
        #  error that the plain computation raises in EVERY environment is not the tree's)
        r0 = ctx.sub_rng("stmt-env0", seed)
        same = 0
        for k in range(12):
            try:
                run_statements(stmts, {n: r0.choice([-7, -3, -2, -1, 1, 2, 3, 5, 11, 4]) for n in "xyz"})
            except type(ex):
                same += 1
            except Exception:  # noqa: BLE001
                pass
        if same == 12:
            ctx.count("statements_refused_like_plain_numbers")
            return
        ctx.fail("C03.statements", case, f"statements:raised:{type(ex).__name__}",
                 f"{show_statements(stmts)} on Variables raised {type(ex).__name__}: {ex}")
        return
    rng = ctx.sub_rng("stmt-env", seed)
    judged = 0
    for k in range(8):
        env = {n: rng.choice([-7, -3, -2, -1, 1, 2, 3, 5, 11, 4]) for n in "xyz"}
        try:
            want = run_statements(stmts, env)
        except (ZeroDivisionError, OverflowError, ValueError):
            continue
        if any(isinstance(v, int) and abs(v) > 10**60 for v in want.values()) \
                or any(isinstance(v, (float, complex)) for v in want.values()):
            continue      # (a negative power: floats, not this check's business)
        judged += 1
        for n, w in want.items():
            t = trees[n]
            try:
                got = evaluate(t, env) if isinstance(t, p.Expression) else t
            except Exception as ex:  # noqa: BLE001
                ctx.fail("C03.statements", case, f"statements:eval-raised:{type(ex).__name__}",
                         f"{show_statements(stmts)}: the tree for {n} = {t} at {env} raised "
                         f"{type(ex).__name__}: {ex}; plain numbers give {w}")
                return
            ctx.count("statement_values")
            if not (got == w):
                ctx.fail("C03.statements", case, "statements:value",
                         f"{show_statements(stmts)}: on Variables {n} = {t}, which at {env} is {got}; "
                         f"the same statements on plain numbers give {n} = {w}")
                return


def workload(ctx):
    rng = ctx.rng
    nenv = ctx.pick(40, 81)
    for i, stmts in enumerate(DIRECTED_STATEMENTS):
        if ctx.mine("statements"):
            ctx.case(("stmts", i), True, n=0)
            ctx.run("C03.statements", (stmts, i))
    for i in range(ctx.per_shard(ctx.pick(600, 12000))):
        r2 = ctx.sub_rng("stmts", i)
        stmts = rand_statements(r2)
        ctx.case(("stmts", tuple(stmts)), True, n=0)
        ctx.run("C03.statements", (stmts, i))
    # kinds of numbers: every operator x every constant kind x both sides x every value kind
    consts = [2.0, -2.0, 1.0, -1.0, 0.0, -0.0, 40.0, 0.5, True, False, 2, -3, 2**53 + 1, 10**9 + 7,
              1e308, 5e-324, float("inf"), 1j, 2 + 0j, 3, 1, 0, -1]
    for op in BIN:
        for c in consts:
            for side in ("left", "right"):
                if isinstance(c, complex) and op in ("//", "%", "<<", ">>", "&", "|", "^"):
                    continue
                if not ctx.mine("kinds"):
                    continue
                ctx.case(("kinds", op, repr(c), side), True, n=0)
                ctx.run("C03.kinds", (op, c, side, False))
                if op in ("**", "/", "//", "%", "*"):
                    ctx.run("C03.kinds", (op, c, side, True))
    ctx.set_exhaustive("(operator, constant kind, side) with the variable over 19 value kinds")
    for op in ("+", "-", "*", "/", "**", "//", "%"):
        for side in ("left", "right"):
            for reg in ("exact", "abstract", "abstract-real"):
                if ctx.mine("registry"):
                    ctx.case(("registry", op, side, reg), True, n=0)
                    ctx.run("C03.registry", (op, side, reg))
    # scale: construction helpers and operator chains over 1 .. 130 operands
    for n in [1, 2, 3, 5, 8, *scale.WIDTHS]:
        for kind in ("linear_combination", "sum()", "flattened_sum", "flattened_product",
                     "flattened_sum:nested", "flattened_product:nested"):
            if ctx.mine("smart"):
                ctx.case(("smart", kind, n), True, n=0)
                ctx.run("C03.smart", (kind, n, rng.randrange(10**6)))
        for op in ("+", "-", "*", "mixed"):
            if not ctx.mine("chain"):
                continue
            prog = ("leaf", rng.choice(["x", "y"]))
            for i in range(n):
                o = rng.choice(["+", "-", "*"]) if op == "mixed" else op
                operand = ("leaf", rng.choice(["x", "y", "2", "-3", "1", "0", "1.5", "sum"]))
                prog = ("bin", o, prog, operand) if rng.random() < 0.8 else ("bin", o, operand, prog)
            ctx.case(("prog", prog), True, n=0)
            ctx.count("long_operator_chains")
            ctx.run("C03.program", (prog, 6))
    # exhaustive (op, left kind, right kind)
    kinds = list(KINDS)
    n = 0
    for op in BIN:
        for lk in kinds:
            for rk in kinds:
                if lk not in EXPR_KINDS and rk not in EXPR_KINDS:
                    continue
                if not ctx.mine("triples"):
                    continue
                prog = ("bin", op, ("leaf", lk), ("leaf", rk))
                ctx.case(("prog", prog), True, n=0)
                ctx.count("exhaustive_triples")
                ctx.node("op:" + op)
                if n < 2:
                    ctx.sample("exhaustive-triple", show(prog))
                n += 1
                ctx.run("C03.program", (prog, nenv))
    ctx.set_exhaustive("(binary operator, left kind, right kind)")
    for uop in UN:
        for k in EXPR_KINDS:
            if ctx.mine("unary"):
                prog = ("un", uop, ("leaf", k))
                ctx.case(("prog", prog), True, n=0)
                ctx.node("op:" + uop)
                ctx.run("C03.program", (prog, nenv))
    ctx.set_exhaustive("(unary operator, kind)")
    for route in ("attr", "a"):
        for nm in G.ATTR_NAMES:
            for prog in (("attr", route, nm), ("bin", "+", ("attr", route, nm), ("leaf", "x")),
                         ("bin", "*", ("leaf", "2"), ("attr", route, nm))):
                ctx.case(("prog", prog), True, n=0)
                ctx.count("attribute_names")
                ctx.run("C03.program", (prog, 4))
    ctx.set_exhaustive("(look-up spelling, attribute name) over names with leading / trailing / "
                       "inner underscores, digits, capitals, keyword-like names")
    # one level deeper, exhaustively: a unary operator or a binary minus / plus / times applied
    # to the RESULT of every (binary operator, kind, kind) -- what a node does when it is itself
    # negated or subtracted (-(7 // x), y - 7 % x, 2 * (x / 3))
    small = ["x", "y", "0", "1", "-1", "2", "-3", "1.5", "True"]
    small = [k for k in small if k in KINDS]
    for op in BIN:
        for lk in small:
            for rk in small:
                if lk not in EXPR_KINDS and rk not in EXPR_KINDS:
                    continue
                inner = ("bin", op, ("leaf", lk), ("leaf", rk))
                outers = [("un", u, inner) for u in UN] + \
                    [("bin", o2, ("leaf", "y"), inner) for o2 in ("-", "+", "*")] + \
                    [("bin", o2, ("leaf", "2"), inner) for o2 in ("-", "*")] + \
                    [("bin", "-", inner, ("leaf", "y"))]
                for prog in outers:
                    if not ctx.mine("outer-of-triple"):
                        continue
                    ctx.case(("prog", prog), True, n=0)
                    ctx.count("exhaustive_outer_of_triples")
                    ctx.run("C03.program", (prog, ctx.pick(14, 30)))
    ctx.set_exhaustive("(unary or +,-,* with a plain operand) over (binary operator, kind, kind), "
                       "9 plain kinds")
    # depth: an operator applied to its own result, 3 .. 8 times (~~~x, -(-(-x)), not not not,
    # x - (x - (x - ...)), ((x // 2) // 3) // ..., 2 ** (x ** ...)); also inside a larger program
    for depth in (3, 4, 5, 6, 7, 8):
        for k in ("x", "sum", "y"):
            if k not in KINDS:
                continue
            towers = []
            for uop in UN:
                t = ("leaf", k)
                for _ in range(depth):
                    t = ("un", uop, t)
                towers.append(t)
            t = ("leaf", k)
            for i in range(depth):
                t = ("un", list(UN)[i % len(UN)], t)
            towers.append(t)
            t = ("cmp", "lt", ("leaf", k), ("leaf", "1"))
            for _ in range(depth):
                t = ("logic", "not_", t, ("leaf", "1"))
            towers.append(t)
            for op, side in (("-", "r"), ("-", "l"), ("//", "l"), ("%", "l"), ("/", "r"), ("**", "l"), ("+", "r"),
                             ("*", "l"), ("^", "r"), ("<<", "l")):
                t = ("leaf", k)
                for i in range(depth):
                    c = ("leaf", ["2", "-3", "1", "2"][i % 4]) if op != "<<" else ("leaf", "1")
                    t = ("bin", op, t, c) if side == "l" else ("bin", op, ("leaf", "y" if i % 2 else "2"), t)
                towers.append(t)
            for t in towers:
                for prog in (t, ("bin", "+", t, ("leaf", "y")), ("bin", "*", ("leaf", "2"), t)):
                    if ctx.mine("towers"):
                        ctx.case(("prog", prog), True, n=0)
                        ctx.count("operator_towers")
                        ctx.run("C03.program", (prog, 10))
    for lk in kinds:
        for rk in kinds:
            if (lk in EXPR_KINDS or rk in EXPR_KINDS) and ctx.mine("ordering"):
                ctx.case(("ord", lk, rk), True, n=0)
                ctx.run("C03.ordering", (lk, rk))
    ctx.set_exhaustive("ordering comparisons over (kind, kind)")
    # comparison / logic constructor methods composed with each other (x.lt(y).not_(), ...),
    # exhaustively over the six comparisons: also evaluated where the operands are unordered
    lf = lambda k: ("leaf", k)  # noqa: E731
    for op in CMPM:
        for l_, r_ in (("x", "y"), ("x", "1"), ("2", "y"), ("sum", "1.5")):
            c1 = ("cmp", op, lf(l_), lf(r_))
            for prog in (("logic", "not_", c1, lf("1")),
                         ("logic", "not_", ("logic", "not_", c1, lf("1")), lf("1")),
                         ("logic", "and_", ("logic", "not_", c1, lf("1")), ("cmp", "ne", lf("x"), lf("x"))),
                         ("logic", "or_", c1, ("logic", "not_", ("cmp", op, lf(r_), lf(l_)), lf("1")))):
                if ctx.mine("cmp-logic"):
                    ctx.case(("prog", prog), True, n=0)
                    ctx.count("comparison_logic_compositions")
                    ctx.run("C03.program", (prog, nenv))
    # random deeper programs
    for i in range(ctx.per_shard(ctx.pick(5000, 120000))):
        prog = rand_prog(rng, rng.randint(2, 4))
        if ops_on_expr(prog) == 0:
            continue
        ctx.case(("prog", prog), True, n=0)
        for o in prog_ops(prog):
            ctx.node("op:" + o)
        if i < 3:
            ctx.sample("random-program", show(prog))
        ctx.run("C03.program", (prog, ctx.pick(12, 30)))
    ctx.floor("statement_values", 3000)
    ctx.floor("operator_towers", 500)
    ctx.floor("exhaustive_triples", 12 * 200)
    ctx.floor("registry_histories", 30)
    ctx.floor("kind_evaluations", 10000)
    ctx.floor("smart_constructor_values", 500)
    ctx.floor("long_operator_chains", 100)
    ctx.floor("exhaustive_outer_of_triples", 3000)
    ctx.floor("compared", 50000)
    ctx.floor("ordering_compares", 1000)


RULE = RULE + '  Later additions: statement programs with augmented assignment and re-used names; operator towers (3-8 levels); (operator, constant kind, side) exhaustively; registry histories; long operand lists through the construction helpers.'
