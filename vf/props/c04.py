"""C04 — mapper dispatch and the stock traversals reach every node correctly."""
from __future__ import annotations

import itertools
from collections import Counter

import numpy as np
from immutabledict import immutabledict

import pymbolic.primitives as p
from pymbolic.geometric_algebra import MultiVector, Space
from pymbolic.mapper import (
    CachedIdentityMapper, CachedMapper, CachedWalkMapper, CallbackMapper, CombineMapper,
    Collector, IdentityMapper, Mapper, UnsupportedExpressionError, WalkMapper)
from pymbolic.polynomial import Polynomial
import pymbolic.mapper as mapmod

from .. import usertypes as U
from ..core import check, short
from ..gen import expr as G
from ..gen import scale
from ..mon.trace import HandlerTrace
from ..ref import normal
from ..ref.children import children, occurrences
from .c01 import ref_eq

RULE = ("dispatch: node classes created at run time in hierarchies of depth <= 3 (decorated / "
        "undecorated-legacy / mixed; handler name explicit / derived / inherited) x ALL subsets of "
        "the relevant handler names on a recording mapper (plain and cached base) x extra-argument "
        "tuples (), (1,), (1,'a') x kwargs {}, {'k': 2}; a golden table of class-name -> handler-name "
        "pairs; foreign objects (bool, int, float, complex, numpy scalars, arrays, lists, tuples and "
        "rejected ones).  Traversals: random trees over every node type incl. keyword calls, slices "
        "with omitted parts, tuples, nested CSEs, substitution/derivative nodes, lists, object arrays, "
        "polynomials and multivectors with identity-shared occurrences; identity mapper (typed equal, "
        "same object if nothing changed, rewriting the i-th leaf leaves siblings identical), walk "
        "mapper (well-nested pre/post once per occurrence, pruning, extra arguments), combine / "
        "collector (fold of every leaf), callback mapper; unsupported node types must raise.  "
        "distinct = typed key of the tree (hierarchy x subset); non-trivial = >=1 operator node.")
ASSUMPTIONS = [
    "child order inside a node is not specified: only nesting and multiplicity are checked",
    "lists, arrays and multivectors are always rebuilt by the identity traversal: equality only",
    "what happens to post_visit when visit returns false is not asserted",
]
KF_CSE0 = "C04-identity-mapper-collapses-zero-cse"

ARGS = [(), (1,), (1, "a")]
KWARGS = [{}, {"k": 2}]


# {{{ dispatch

GOLDEN = {"FooBar": "map_foo_bar", "ABCNode": "map_abc_node", "Node2D": "map_node2d",
          "HTTPServer": "map_http_server", "X": "map_x", "MyCSE": "map_my_cse", "lower": "map_lower",
          "FooBarBaz": "map_foo_bar_baz", "IOError2": "map_io_error2", "Foo": "map_foo",
          "A1B": "map_a1b", "NaNLike": "map_na_n_like"}

_uid = itertools.count()


class PlainMixin:
    """a plain mix-in: not a node class, no handler name"""
    tags = ()


def make_hierarchy(spec):
    """spec: list of (class name, 'dec'|'legacy', explicit mapper_method or None); each class
    derives from the previous one (the first from Expression).  Returns the classes."""
    classes = []
    base = p.Expression
    for name, kind, explicit in spec:
        ns = {"__module__": __name__, "__qualname__": name}
        if explicit is not None:
            ns["mapper_method"] = explicit
        # "+mixin" / "+mixinlast": the class also derives from a plain class that is no node
        # class and names no handler, listed before / after its node base
        kind, _, mix = kind.partition("+")
        bases = (PlainMixin, base) if mix == "mixin" else (base, PlainMixin) if mix == "mixinlast" else (base,)
        if kind == "dec":
            ns["__annotations__"] = {f"f{len(classes)}": object} if not classes or True else {}
            cls = type(name, bases, ns)
            cls = p.expr_dataclass()(cls)
        else:
            n_parent = len(classes)

            def __init__(self, *a, _n=n_parent, _base=base):
                if _base is not p.Expression and normal.is_expr_dataclass(_base):
                    _base.__init__(self, *a[:_count_fields(_base)])
                object.__setattr__(self, "_args", tuple(a))

            def __getinitargs__(self):
                return self._args
            ns.update(__init__=__init__, __getinitargs__=__getinitargs__,
                      init_arg_names=tuple(f"a{i}" for i in range(n_parent + 1)))
            cls = type(name, bases, ns)
        classes.append(cls)
        base = cls
    return classes


def _count_fields(cls):
    import dataclasses
    return len(dataclasses.fields(cls))


def instantiate(classes):
    cls = classes[-1]
    import dataclasses
    if normal.is_expr_dataclass(cls):
        return cls(*[p.Variable(f"v{i}") for i in range(len(dataclasses.fields(cls)))])
    # legacy: as many args as levels
    return cls(*[p.Variable(f"v{i}") for i in range(len(classes))])


def model_dispatch(obj, handler_names):
    """name of the handler the statement says must run, or 'UNSUPPORTED' / 'REJECT'."""
    if isinstance(obj, p.Expression):
        for cls in type(obj).__mro__:
            name = cls.__dict__.get("mapper_method") if cls is not type(obj) \
                else getattr(obj, "mapper_method", None)
            if cls is type(obj):
                name = getattr(type(obj), "mapper_method", None)
            else:
                name = getattr(cls, "mapper_method", None)
            if isinstance(name, str) and name in handler_names:
                return name
        return "UNSUPPORTED"
    mm = getattr(obj, "mapper_method", None)
    if isinstance(mm, str) and mm in handler_names:
        return mm
    if isinstance(obj, (int, float, complex, np.number, np.bool_)):
        return "map_constant" if "map_constant" in handler_names else "NOTIMPL"
    if isinstance(obj, np.ndarray):
        return "map_numpy_array" if "map_numpy_array" in handler_names else "NOTIMPL"
    if isinstance(obj, list):
        return "map_list" if "map_list" in handler_names else "NOTIMPL"
    if isinstance(obj, tuple):
        return "map_tuple" if "map_tuple" in handler_names else "NOTIMPL"
    return "REJECT"


def recording_mapper(base, handler_names):
    log = []

    def mk(name):
        def h(self, expr, *a, **k):
            log.append((name, expr, a, dict(k)))
            return ("handled", name)
        return h
    ns = {n: mk(n) for n in handler_names}

    def unsupported(self, expr, *a, **k):
        log.append(("UNSUPPORTED", expr, a, dict(k)))
        return ("handled", "UNSUPPORTED")
    ns["handle_unsupported_expression"] = unsupported
    cls = type(f"Rec{next(_uid)}", (base,), ns)
    return cls(), log


@check("C04.dispatch_history")
def c_dispatch_history(ctx, case):
    """ONE set of node classes, a sequence of different mappers applied to its instances: the
    handler chosen for a mapper must not depend on which mappers were applied before."""
    spec, subsets = case
    classes = make_hierarchy(spec)
    for subset, args, kw, cached in subsets:
        _dispatch_once(ctx, "C04.dispatch_history", case, spec, classes, subset, args, kw, cached)


@check("C04.evolving")
def c_evolving(ctx, case):
    """ONE mapper object whose class gains and loses handlers between uses (mix-ins patched in,
    a handler deleted again): every call dispatches by the handlers the mapper has NOW -- the
    nearest implemented ancestor, else the unsupported hook -- whatever it was asked before."""
    spec, subsets = case
    classes = make_hierarchy(spec)
    obj = instantiate(classes)
    log = []

    def mkh(name):
        def h(self, expr, *a, **k):
            log.append(name)
            return ("handled", name)
        return h

    def unsupported(self, expr, *a, **k):
        log.append("UNSUPPORTED")
        return ("handled", "UNSUPPORTED")
    cls = type(f"Evolving{next(_uid)}", (Mapper,), {"handle_unsupported_expression": unsupported})
    m = cls()
    have = set()
    for step, (subset, args, kw, _c) in enumerate(subsets):
        for n in have - set(subset):
            delattr(cls, n)
        for n in set(subset) - have:
            setattr(cls, n, mkh(n))
        have = set(subset)
        for entry in ("__call__", "rec"):
            del log[:]
            ctx.case(None)
            ctx.count("evolving_dispatches")
            want = model_dispatch(obj, have)
            try:
                m(obj, *args, **kw) if entry == "__call__" else m.rec(obj, *args, **kw)
            except Exception as ex:  # noqa: BLE001
                ctx.fail("C04.evolving", case, f"raised:{type(ex).__name__}",
                         f"step {step}: one mapper object, handlers now {sorted(have)}: {entry} on "
                         f"{type(obj).__name__} raised {type(ex).__name__}: {ex}")
                return
            if log != [want]:
                ctx.fail("C04.evolving", case, f"stale-handler:{entry}",
                         f"step {step}: one mapper object whose class now implements "
                         f"{sorted(have)} (earlier: {[sorted(x[0]) for x in subsets[:step]][-3:]}): "
                         f"ran {log}, the statement names {want} (hierarchy {spec})")
                return


@check("C04.dispatch")
def c_dispatch(ctx, case):
    spec, subset, args, kw, cached = case
    classes = make_hierarchy(spec)
    _dispatch_once(ctx, "C04.dispatch", case, spec, classes, subset, args, kw, cached)


def _dispatch_once(ctx, check_name, case, spec, classes, subset, args, kw, cached):
    obj = instantiate(classes)
    base = CachedMapper if cached else Mapper
    want = model_dispatch(obj, set(subset))
    for entry in ("__call__", "rec") + (("rec_fallback",) if not cached else ()):
        m, log = recording_mapper(base, subset)
        ctx.case(None)
        ctx.count("dispatches")
        if entry == "rec_fallback":
            # the fallback skips the node's own class by contract
            want_e = model_dispatch_fallback(obj, set(subset))
        else:
            want_e = want
        try:
            getattr(m, entry)(obj, *args, **kw) if entry != "__call__" else m(obj, *args, **kw)
        except Exception as ex:  # noqa: BLE001
            ctx.fail(check_name, case, f"raised:{entry}:{type(ex).__name__}",
                     f"{entry} on {type(obj).__name__} (hierarchy {spec}) with handlers {subset} "
                     f"raised {type(ex).__name__}: {ex}")
            continue
        if not log:
            ctx.fail(check_name, case, f"nothing-called:{entry}", f"{spec} {subset}: no handler ran")
            continue
        name, e, a, k = log[0]
        if name != want_e or len(log) != 1:
            ctx.fail(check_name, case, f"wrong-handler:{entry}",
                     f"{entry}: hierarchy {spec} (mapper_methods "
                     f"{[getattr(c, 'mapper_method', None) for c in classes]}), mapper implements "
                     f"{sorted(subset)}: ran {[x[0] for x in log]}, the statement names {want_e}")
        elif e is not obj or a != tuple(args) or k != dict(kw):
            ctx.fail(check_name, case, f"arguments:{entry}",
                     f"handler {name} received ({e!r}, {a}, {k}) instead of ({obj!r}, {args}, {kw})")
        if cached and entry == "__call__":
            m(obj, *args, **kw)        # second call must not run the handler again (memo)
            if len(log) != 1:
                ctx.fail(check_name, case, "cached-recomputed", f"{spec} {subset}: {len(log)} runs")


def model_dispatch_fallback(obj, names):
    for cls in type(obj).__mro__[1:]:
        name = getattr(cls, "mapper_method", None)
        if isinstance(name, str) and name in names:
            return name
    return "UNSUPPORTED"


@check("C04.names")
def c_names(ctx, case):
    (clsname, want) = case
    ctx.case(None)
    ctx.count("derived_names")
    classes = make_hierarchy([(clsname, "dec", None)])
    got = classes[0].mapper_method
    if got != want:
        ctx.fail("C04.names", case, f"derived-name:{clsname}",
                 f"class {clsname} declared with the decorator got handler name {got!r}, expected "
                 f"{want!r}")
    # an inherited name is replaced by the derived one, an explicit one is kept
    sub = make_hierarchy([("BaseThing", "dec", "map_custom_base"), (clsname, "dec", None)])[1]
    if sub.mapper_method != want:
        ctx.fail("C04.names", case, "inherited-name-not-replaced",
                 f"decorated subclass {clsname} of a class with mapper_method=map_custom_base has "
                 f"{sub.mapper_method!r}, expected {want!r}")
    exp = make_hierarchy([(clsname, "dec", "map_explicit_one")])[0]
    if exp.mapper_method != "map_explicit_one":
        ctx.fail("C04.names", case, "explicit-name-overridden", f"{clsname}: {exp.mapper_method!r}")
    # "unless it sets one itself" -- also when the name it sets IS the one its parent uses
    # ("treat me like my parent"), under a user base class and under a stock node class
    same = make_hierarchy([("BaseThing", "dec", "map_custom_base"),
                           (clsname, "dec", "map_custom_base")])[1]

    @p.expr_dataclass()
    class LikeVariable(p.Variable):
        mapper_method = "map_variable"
    LikeVariable.__name__ = LikeVariable.__qualname__ = clsname

    class Both(Mapper):
        def map_variable(self, expr, *a, **k):
            return "parent-name"

        def map_custom_base(self, expr, *a, **k):
            return "parent-name"
    setattr(Both, want, lambda self, expr, *a, **k: "derived-name")
    ctx.count("explicit_same_as_parent")
    for cls_, inst in ((same, same(p.Variable("u"), p.Variable("v"))), (LikeVariable, LikeVariable("n"))):
        parent = "map_custom_base" if cls_ is same else "map_variable"
        routed = Both()(inst)
        if cls_.mapper_method != parent or routed != "parent-name":
            ctx.fail("C04.names", case, "explicit-name-equal-to-inherited-ignored",
                     f"a decorated class that itself sets mapper_method = {parent!r} (the name "
                     f"its parent uses) has mapper_method {cls_.mapper_method!r} and is dispatched "
                     f"to the {routed} handler")


class Weird:
    pass


class UserNumber:
    """an application's own number type, made known through register_constant_class"""

    def __init__(self, v):
        self.v = v

    def __eq__(self, o):
        return isinstance(o, UserNumber) and o.v == self.v

    def __hash__(self):
        return hash(("UserNumber", self.v))


@check("C04.registered")
def c_registered(ctx, case):
    """'numbers ... go to their foreign-object handlers and any other object is rejected': what
    counts as a number is what the public registry says NOW -- a class registered after the
    mappers were imported is a constant for every mapper and stock traversal, and stops being
    one when it is unregistered."""
    (args, kw, cached) = case
    obj = UserNumber(3)
    tree = p.Sum((p.Variable("x"), p.Product((obj, p.Variable("y")))))
    for phase in ("before", "registered", "unregistered"):
        if phase == "registered":
            p.register_constant_class(UserNumber)
        try:
            m, log = recording_mapper(CachedMapper if cached else Mapper, ["map_constant"])
            ctx.case(None)
            ctx.count("registry_dispatches")
            try:
                m(obj, *args, **kw)
                raised = None
            except Exception as ex:  # noqa: BLE001
                raised = ex
            route = [x[0] for x in log]
            try:
                out = IdentityMapper()(tree)
                walked = None if normal.typed_eq(out, tree) else "changed the tree"
            except Exception as ex:  # noqa: BLE001
                walked = ex
            if phase == "registered":
                if raised is not None or route != ["map_constant"] or walked is not None:
                    ctx.fail("C04.registered", case, "registered-class-not-a-constant",
                             f"after register_constant_class(UserNumber): dispatch ran {route}, "
                             f"raised {raised!r}; IdentityMapper over a tree holding one: {walked!r} "
                             f"(is_constant says {p.is_constant(obj)})")
            else:
                if raised is None or not isinstance(walked, Exception):
                    ctx.fail("C04.registered", case, f"accepted-{phase}",
                             f"{phase} registration a UserNumber is 'any other object': dispatch "
                             f"ran {route} raised {raised!r}; identity traversal: {walked!r}")
        finally:
            if phase == "registered":
                p.unregister_constant_class(UserNumber)


@check("C04.foreign")
def c_foreign(ctx, case):
    (which, args, kw, cached) = case
    objs = {"bool": True, "int": 3, "float": 2.5, "complex": 1j, "np.float64": np.float64(2),
            "np.int32": np.int32(2), "np.bool_": np.bool_(True), "ndarray": np.array([1, 2]),
            "objarray": np.array([p.Variable("x"), 1], dtype=object), "list": [1, 2], "tuple": (1, 2),
            "emptytuple": (), "str": "abc", "dict": {"a": 1}, "None": None, "object": Weird(),
            "set": {1, 2}, "bytes": b"x", "mv": MultiVector({1: 2}, Space(2)),
            "poly": Polynomial(p.Variable("x"), ((0, 1), (2, 3)))}
    obj = objs[which]
    allh = ["map_constant", "map_numpy_array", "map_list", "map_tuple", "map_multivector",
            "map_polynomial"]
    for subset in (allh, ["map_constant", "map_tuple"], []):
        m, log = recording_mapper(CachedMapper if cached and which not in
                                  ("ndarray", "objarray", "list", "dict", "set", "poly") else Mapper, subset)
        want = model_dispatch(obj, set(subset))
        ctx.case(None)
        ctx.count("foreign_dispatches")
        try:
            m(obj, *args, **kw)
            raised = None
        except Exception as ex:  # noqa: BLE001
            raised = ex
        if want in ("REJECT", "NOTIMPL"):
            if raised is None:
                ctx.fail("C04.foreign", case, f"accepted:{which}",
                         f"{which} object {obj!r} was not rejected by a mapper implementing {subset}: "
                         f"ran {[x[0] for x in log]}")
        elif want == "UNSUPPORTED":
            if [x[0] for x in log] != ["UNSUPPORTED"]:
                ctx.fail("C04.foreign", case, f"unsupported:{which}", f"{which}: ran {log} raised {raised}")
        else:
            if raised is not None or [x[0] for x in log] != [want]:
                ctx.fail("C04.foreign", case, f"foreign-route:{which}",
                         f"{which} object {obj!r}: expected {want}, ran {[x[0] for x in log]} "
                         f"raised {raised!r}")
            elif log[0][2] != tuple(args) or log[0][3] != dict(kw):
                ctx.fail("C04.foreign", case, f"foreign-args:{which}", f"{log[0]} vs {args} {kw}")

# }}}


# {{{ traversals

class RecWalk(WalkMapper):
    def __init__(self, stop=()):
        self.ev = []
        self.stop = stop

    def visit(self, expr, *a, **k):
        self.ev.append(("v", id(expr), a, tuple(sorted(k.items()))))
        go = not any(expr is t for t in self.stop)
        if not go and not is_leaf(expr):
            # the monitor's own marker: this visit asked for pruning (no post_visit is due)
            self.ev.append(("x", id(expr), a, tuple(sorted(k.items()))))
        return go

    def post_visit(self, expr, *a, **k):
        self.ev.append(("p", id(expr), a, tuple(sorted(k.items()))))


class RecCachedWalk(CachedWalkMapper):
    def __init__(self):
        super().__init__()
        self.seen = []

    def visit(self, expr, *a, **k):
        self.seen.append(expr)
        return True


LEAFY = (p.Variable, p.NaN, p.Wildcard, p.DotWildcard, p.StarWildcard, p.FunctionSymbol)


def is_leaf(e):
    return not isinstance(e, (p.Expression, tuple, list, np.ndarray, MultiVector)) or isinstance(e, LEAFY)


def expected_walk(e, stop, a, k, out):
    out.append(("v", id(e), a, k))
    if any(e is t for t in stop) and not is_leaf(e):
        out.append(("x", id(e), a, k))
        return
    for c in children(e):
        expected_walk(c, stop, a, k, out)
    out.append(("p", id(e), a, k))


def nest(seq):
    """canonical nested form of a visit/post-visit sequence, sibling order ignored"""
    def parse(i):
        tag, ident, a, k = seq[i]
        if tag != "v":
            raise ValueError("post without visit")
        kids = []
        i += 1
        while i < len(seq) and seq[i][0] == "v":
            sub, i = parse(i)
            kids.append(sub)
        closed = i < len(seq) and seq[i][0] in ("p", "x") and seq[i][1] == ident
        pa = None
        if closed:
            pa = (seq[i][0],) + tuple(seq[i][2:])
            i += 1
        # (a digest per level: nested repr() of strings doubles its escapes at every level)
        return _digest((ident, a, k, pa, tuple(sorted(kids)))), i
    g, i = parse(0)
    if i != len(seq):
        raise ValueError("trailing events")
    return g


def _digest(t):
    import hashlib
    return hashlib.sha1(repr(t).encode("utf-8", "backslashreplace")).hexdigest()


def has_rebuilt_container(e):
    return any(isinstance(x, (list, np.ndarray, MultiVector, Polynomial)) for x in occurrences(e))


def has_zero_cse(e):
    from .c08 import is_falsy
    return any(isinstance(x, p.CommonSubexpression) and is_falsy(x.child) for x in occurrences(e))


class LeafRewriter(IdentityMapper):
    def __init__(self, target_index):
        self.i = -1
        self.target = target_index

    def map_variable(self, expr, *a, **k):
        self.i += 1
        if self.i == self.target:
            return p.Variable("REPLACED")
        return expr


def other_kind(c):
    """an EQUAL number of another kind (2 -> 2.0, 2.0 -> 2, True -> 1, np.float32(.5) -> .5)"""
    import math
    if isinstance(c, (bool, np.bool_)):
        return int(c)
    if isinstance(c, (int, np.integer)):
        return float(c) if abs(int(c)) < 2**53 else c
    if isinstance(c, (float, np.floating)):
        if math.isfinite(c) and float(c).is_integer() and not (c == 0 and math.copysign(1, c) < 0):
            return int(c)
        return float(c) if type(c) is not float else np.float64(c)
    return c


class KindChanger(IdentityMapper):
    """a derived identity traversal that changes the KIND of every constant, not its value"""

    def map_constant(self, expr, *a, **k):
        return other_kind(expr)


def ref_rewrite(e, counter, target):
    """independent rebuild with the target-th Variable occurrence (in *a* pre-order) replaced;
    returns (new, changed)"""
    if isinstance(e, p.Variable):
        counter[0] += 1
        if counter[0] == target:
            return p.Variable("REPLACED"), True
        return e, False
    return e, False


class LeafCounter(CombineMapper):
    def __init__(self):
        self.args_seen = set()

    def combine(self, values):
        t = Counter()
        for v in values:
            t += v
        return t

    def map_constant(self, expr, *a, **k):
        self.args_seen.add((a, tuple(sorted(k.items()))))
        return Counter({("c", type(expr).__name__, repr(expr)): 1})

    def map_variable(self, expr, *a, **k):
        self.args_seen.add((a, tuple(sorted(k.items()))))
        return Counter({("v", expr.name): 1})

    def map_nan(self, expr, *a, **k):
        return Counter({("nan",): 1})

    def map_wildcard(self, expr, *a, **k):
        return Counter({("w", type(expr).__name__): 1})
    map_dot_wildcard = map_wildcard
    map_star_wildcard = map_wildcard
    map_function_symbol = map_wildcard


def leaf_count(x, out):
    if isinstance(x, p.Variable):
        out[("v", x.name)] += 1
    elif isinstance(x, p.NaN):
        out[("nan",)] += 1
    elif isinstance(x, (p.Wildcard, p.DotWildcard, p.StarWildcard, p.FunctionSymbol)):
        out[("w", type(x).__name__)] += 1
    elif not isinstance(x, (p.Expression, tuple, list, np.ndarray, MultiVector)):
        out[("c", type(x).__name__, repr(x))] += 1
    for c in children(x):
        leaf_count(c, out)


REFUSAL = (UnsupportedExpressionError, NotImplementedError)


@check("C04.walk")
def c_walk(ctx, case):
    e, args, kw, stop_idx = case
    occ = occurrences(e)
    stop = tuple(occ[i % len(occ)] for i in stop_idx)
    w = RecWalk(stop)
    ctx.case(None)
    ctx.count("walks")
    try:
        w(e, *args, **kw)
    except REFUSAL:
        ctx.count("walk_refused")
        return
    except RecursionError:
        raise
    except Exception as ex:  # noqa: BLE001
        ctx.fail("C04.walk", case, f"walk:raised:{type(ex).__name__}",
                 f"WalkMapper on {G.src(e)} raised {type(ex).__name__}: {ex}")
        return
    exp = []
    expected_walk(e, stop, tuple(args), tuple(sorted(kw.items())), exp)
    ctx.count("walk_events", len(w.ev))
    try:
        ok = nest(w.ev) == nest(exp)
    except (ValueError, IndexError):
        ok = False
    if not ok:
        got_v = Counter(x[1] for x in w.ev if x[0] == "v")
        want_v = Counter(x[1] for x in exp if x[0] == "v")
        byid = {id(o): o for o in occ}
        diff = [(type(byid.get(i)).__name__, got_v.get(i, 0), want_v.get(i, 0))
                for i in set(got_v) | set(want_v) if got_v.get(i, 0) != want_v.get(i, 0)]
        badargs = [x for x in w.ev if x[2] != tuple(args) or x[3] != tuple(sorted(kw.items()))]
        kind = "args" if badargs else ("multiplicity" if diff else "nesting")
        node = type(byid.get(badargs[0][1])).__name__ if badargs else (diff[0][0] if diff else "?")
        ctx.fail("C04.walk", case, f"walk:{kind}:{node}",
                 f"WalkMapper on {G.src(e)} with extra args {args} {kw}, pruning at "
                 f"{[type(s).__name__ for s in stop]}: events are not the well-nested pre/post "
                 f"traversal; visit counts differing (type, got, expected): {diff[:5]}; events with "
                 f"wrong extra arguments: {[(x[0], type(byid.get(x[1])).__name__, x[2], x[3]) for x in badargs[:3]]}")
    # cached walk: each distinct node once
    if not args and not kw and not has_rebuilt_container(e):
        cw = RecCachedWalk()
        try:
            cw(e)
            want = {}
            for o in occ:
                want[(type(o), o)] = 1
            got = Counter((type(o), o) for o in cw.seen)
            if set(got) != set(want) or any(v > 1 for v in got.values()):
                # type-ambiguous trees (1 vs True inside equal composites) may legitimately differ
                amb = any(len({normal.typed_key(x) for x in occ if type(x) is type(o) and x == o}) > 1
                          for o in occ if isinstance(o, (p.Expression, tuple)))
                if not amb:
                    ctx.fail("C04.walk", case, "cached-walk",
                             f"CachedWalkMapper on {G.src(e)}: visited {len(got)} distinct nodes "
                             f"(max multiplicity {max(got.values())}), tree has {len(want)}")
        except (REFUSAL, TypeError):
            pass


@check("C04.identity")
def c_identity(ctx, case):
    e, args, kw = case
    for name, cls in (("IdentityMapper", IdentityMapper), ("CachedIdentityMapper", CachedIdentityMapper)):
        if cls is CachedIdentityMapper and has_rebuilt_container(e):
            continue
        ctx.case(None)
        ctx.count("identity_maps")
        try:
            out = cls()(e, *args, **kw)
        except REFUSAL:
            ctx.count("identity_refused")
            continue
        except RecursionError:
            raise
        except Exception as ex:  # noqa: BLE001
            ctx.fail("C04.identity", case, f"identity:raised:{type(ex).__name__}",
                     f"{name} on {G.src(e)} raised {type(ex).__name__}: {ex}")
            continue
        # a memo hit may return the result for an *equal* node (Remainder(a, True) == Remainder(a, 1)):
        # the cached variant is compared with ==-style field equality, the plain one typed
        same = ref_eq(out, e) if cls is CachedIdentityMapper else normal.typed_eq(out, e)
        if not same:
            ctx.fail("C04.identity", case, f"identity:not-equal:{name}",
                     f"{name}()({G.src(e)}, *{args}, **{kw}) = {G.src(out)}",
                     finding=KF_CSE0 if has_zero_cse(e) else None)
            continue
        if cls is IdentityMapper and not has_rebuilt_container(e) and isinstance(e, (p.Expression, tuple)) \
                and out is not e:
            ctx.fail("C04.identity", case, "identity:not-same-object",
                     f"nothing changed below {G.src(e)} but IdentityMapper returned a new object")
    # a derived traversal that turns every constant into an EQUAL constant of another kind: the
    # result holds the new constants everywhere ("equal, so nothing changed" is not "unchanged")
    if isinstance(e, p.Expression) and not has_zero_cse(e) and not has_rebuilt_container(e) \
            and all(normal.is_expr_dataclass(type(o)) for o in occurrences(e)
                    if isinstance(o, p.Expression)) \
            and not any(isinstance(o, (p.NaN, p.Slice)) for o in occurrences(e)):
        try:
            want_k = G.deep_rebuild(e, leaf=lambda v: other_kind(v)
                                    if isinstance(v, (int, float, np.number, np.bool_)) else v)
            out_k = KindChanger()(e, *args, **kw)
        except REFUSAL:
            want_k = None
        except RecursionError:
            raise
        except Exception as ex:  # noqa: BLE001
            ctx.fail("C04.identity", case, f"kind-rewrite:raised:{type(ex).__name__}", str(ex))
            want_k = None
        if want_k is not None:
            ctx.case(None)
            ctx.count("kind_rewrites")
            if not normal.typed_eq(out_k, want_k):
                ctx.fail("C04.identity", case, "kind-rewrite:dropped",
                         f"an IdentityMapper subclass mapping every constant to an equal constant "
                         f"of another kind, over {G.src(e)}: got {G.src(out_k)}, expected "
                         f"{G.src(want_k)}")
    # rewriting identity mapper: replace the i-th leaf; untouched siblings identical
    nvars = sum(1 for o in occurrences(e) if isinstance(o, p.Variable))
    if nvars and not has_zero_cse(e):
        rng = ctx.sub_rng("rw", repr(normal.digest(normal.typed_key(e))))
        t = rng.randrange(nvars)
        m = LeafRewriter(t)
        try:
            out = m(e, *args, **kw)
        except REFUSAL:
            return
        except RecursionError:
            raise
        except Exception as ex:  # noqa: BLE001
            ctx.fail("C04.identity", case, f"rewrite:raised:{type(ex).__name__}", str(ex))
            return
        ctx.case(None)
        ctx.count("rewrites")
        n_repl = sum(1 for o in occurrences(out) if isinstance(o, p.Variable) and o.name == "REPLACED")
        n_before = sum(1 for o in occurrences(e) if isinstance(o, p.Variable) and o.name == "REPLACED")
        if m.i + 1 != nvars or n_repl != n_before + 1:
            ctx.fail("C04.identity", case, "rewrite:coverage",
                     f"rewriting leaf #{t} of {G.src(e)}: the mapper met {m.i + 1} variables (tree has "
                     f"{nvars}) and the result {G.src(out)} has {n_repl - n_before} replaced leaves")
            return
        # shape preserved: same tree except exactly one leaf
        a, b = normal.typed_key(e), normal.typed_key(out)
        if _diff_count(a, b) != 1:
            ctx.fail("C04.identity", case, "rewrite:shape",
                     f"rewriting leaf #{t} of {G.src(e)} gave {G.src(out)}: differs in "
                     f"{_diff_count(a, b)} places")
            return
        # untouched children of the root come back identical
        if isinstance(e, p.Expression) and not has_rebuilt_container(e) and type(out) is type(e):
            for (n1, v1), (n2, v2) in zip(normal.node_fields(e), normal.node_fields(out)):
                if isinstance(v1, p.Expression) and normal.typed_eq(v1, v2) and v1 is not v2:
                    ctx.fail("C04.identity", case, "rewrite:sibling-rebuilt",
                             f"field {n1} of {G.src(e)} did not change but was rebuilt")


@check("C04.override")
def c_override(ctx, case):
    """A subclass that overrides ONE handler of a stock traversal is entered for exactly the
    occurrences whose class names that handler -- not for sibling node types that merely share
    an implementation in the base class (map_floor_div / map_remainder next to map_quotient)."""
    (e,) = case
    occ = [o for o in occurrences(e) if isinstance(o, p.Expression)]
    names = sorted({type(o).mapper_method for o in occ if isinstance(getattr(type(o), "mapper_method", None), str)})
    for base in (IdentityMapper, CombineCounter):
        for M in names:
            if not callable(getattr(base, M, None)):
                continue
            calls = []

            def h(self, expr, *a, _M=M, _base=base, **k):
                calls.append(type(expr))
                return getattr(_base, _M)(self, expr, *a, **k)
            cls = type(f"Only_{M}", (base,), {M: h})
            ctx.case(None)
            ctx.count("single_handler_overrides")
            try:
                cls()(e)
            except REFUSAL:
                continue
            except RecursionError:
                raise
            except Exception as ex:  # noqa: BLE001
                ctx.fail("C04.override", case, f"override:raised:{type(ex).__name__}",
                         f"{base.__name__} subclass overriding only {M} on {G.src(e)}: {ex}")
                continue
            want = Counter(type(o).__name__ for o in occ if _resolved(o, cls) == M)
            got = Counter(t.__name__ for t in calls)
            if got != want:
                ctx.fail("C04.override", case, f"override:{base.__name__}:{M}",
                         f"{base.__name__} subclass overriding only {M} over {G.src(e)}: the override "
                         f"was entered for {dict(got)}, the tree has {dict(want)} occurrences whose "
                         f"class names that handler")


class _Boom(Exception):
    pass


RAISED = [AttributeError, KeyError, TypeError, LookupError, ValueError, NotImplementedError,
          _Boom, AttributeError]      # (not StopIteration: generators turn it into RuntimeError)


def _try_value(f):
    try:
        return ("v", f())
    except RecursionError:
        raise
    except BaseException as ex:  # noqa: BLE001
        return ("exc", type(ex).__name__)


@check("C04.raise")
def c_raise(ctx, case):
    """Dispatch invokes the ONE handler the rule selects; what that handler raises is the
    caller's to see: the very exception object, with no other handler tried on that node
    afterwards (an AttributeError raised inside a handler is not a missing handler)."""
    e, which = case
    occ = [o for o in occurrences(e) if isinstance(o, p.Expression)]
    names = sorted({type(o).mapper_method for o in occ
                    if isinstance(getattr(type(o), "mapper_method", None), str)})
    for base in (IdentityMapper, CombineCounter, CachedIdentityMapper, WalkMapper):
        for M in names:
            if not callable(getattr(base, M, None)):
                continue
            exc0 = RAISED[which % len(RAISED)]("raised inside the handler")
            entered = []

            armed = [True]

            def h(self, expr, *a, _exc=exc0, _entered=entered, _armed=armed, _base=base, _M=M, **k):
                if not _armed[0]:
                    return getattr(_base, _M)(self, expr, *a, **k)
                _entered.append(expr)
                raise _exc
            log = []

            def spy(name):
                def f(self, expr, *a, **k):
                    log.append((name, expr))
                    return getattr(base, name)(self, expr, *a, **k)
                return f
            body = {n: spy(n) for n in dir(base)
                    if n.startswith("map_") and n != M and callable(getattr(base, n))}
            body[M] = h
            cls = type(f"Raises_{M}", (base,), body)
            if not any(_resolved(o, cls) == M for o in occ):
                continue
            ctx.case(None)
            ctx.count("raising_handlers")
            inst = cls()
            try:
                inst(e)
                got = None
            except RecursionError:
                raise
            except BaseException as ex:  # noqa: BLE001
                got = ex
            if not entered:
                continue        # refused or failed before reaching the node: nothing to swallow
            after = [n for n, x in log if x is entered[0]]
            if got is exc0 and len(entered) == 1 and not after:
                # ... the caller caught it; the handler's fault is repaired (it no longer raises)
                # and the SAME mapper object is asked again: what a fresh one gives
                armed[0] = False
                del log[:]
                retry = _try_value(lambda: inst(e))
                log_retry = [(n, normal.typed_key(x)) for n, x in log]
                del log[:]
                fresh = _try_value(lambda: cls()(e))
                log_fresh = [(n, normal.typed_key(x)) for n, x in log]
                ctx.count("retries_after_a_caught_failure")
                same = retry[0] == fresh[0] and (normal.typed_eq(retry[1], fresh[1]) if retry[0] == "v"
                                                 else retry[1] == fresh[1])
                if not same or (base is WalkMapper and log_retry != log_fresh):
                    ctx.fail("C04.raise", case, f"retry-after-failure:{base.__name__}",
                             f"{base.__name__} subclass whose {M} raised over {G.src(e)} (caught); with "
                             f"the handler repaired the same mapper object gives {short(retry)} "
                             f"({len(log_retry)} handler entries), a fresh one {short(fresh)} "
                             f"({len(log_fresh)} entries)")
                continue
            ctx.fail("C04.raise", case, f"raise:{base.__name__}:{type(exc0).__name__}",
                     f"{base.__name__} subclass whose {M} raises {type(exc0).__name__} over "
                     f"{G.src(e)}: the handler was entered {len(entered)} time(s), the call ended "
                     f"with {got!r} instead of that exception"
                     + (f"; handlers {after} also ran on the same node" if after else ""))


def _resolved(o, mapper_cls):
    """handler name by the documented rule: the node's own, else the nearest ancestor's that
    the mapper implements"""
    for c in type(o).__mro__:
        name = c.__dict__.get("mapper_method", None) if "mapper_method" in c.__dict__ \
            else getattr(c, "mapper_method", None)
        if isinstance(name, str) and callable(getattr(mapper_cls, name, None)):
            return name
    return None


class CombineCounter(CombineMapper):
    def combine(self, values):
        return sum(values)

    def map_constant(self, expr, *a, **k):
        return 1

    map_variable = map_nan = map_wildcard = map_dot_wildcard = map_star_wildcard = \
        map_function_symbol = map_constant


def _tagger(base):
    class Tagger(base):
        def map_variable(self, expr, *a, **k):
            return p.Variable(expr.name + "".join(str(x) for x in a) + k.get("tag", ""))
    return Tagger


TaggerC, TaggerP = _tagger(CachedIdentityMapper), _tagger(IdentityMapper)


@check("C04.argflow")
def c_argflow(ctx, case):
    """Extra positional / keyword arguments reach the handlers with the values of THIS call, on
    one instance called several times with the same argument names and different values."""
    e, calls = case
    if has_zero_cse(e):
        return
    names = sorted(o.name for o in occurrences(e) if isinstance(o, p.Variable))
    for label, m in (("IdentityMapper", TaggerP()), ("CachedIdentityMapper", TaggerC())):
        if label == "CachedIdentityMapper":
            try:        # polynomials, rebuilt containers: not memoizable at all
                if has_rebuilt_container(e) or any(hash(x) and False for x in G.walk(e)
                                                    if isinstance(x, p.Expression)):
                    continue
            except TypeError:
                continue
        for i, (a, kw) in enumerate(calls):
            ctx.case(None)
            ctx.count("argflow_calls")
            try:
                out = m(e, *a, **kw)
            except REFUSAL:
                ctx.count("identity_refused")
                break
            except RecursionError:
                raise
            except Exception as ex:  # noqa: BLE001
                ctx.fail("C04.argflow", case, f"argflow:raised:{type(ex).__name__}",
                         f"{label} subclass on {G.src(e)} with {a}, {kw}: {type(ex).__name__}: {ex}")
                break
            suffix = "".join(str(x) for x in a) + kw.get("tag", "")
            got = sorted(o.name for o in occurrences(out) if isinstance(o, p.Variable))
            if got != sorted(n + suffix for n in names):
                ctx.fail("C04.argflow", case, f"argflow:{label}:call{min(i, 1)}",
                         f"call {i} of {calls} on one {label} subclass: handlers should have seen "
                         f"args={a} kwargs={kw} (suffix {suffix!r}) but {G.src(e)} became {G.src(out)}")
                break


def _diff_count(a, b):
    if a == b:
        return 0
    if isinstance(a, tuple) and isinstance(b, tuple) and len(a) == len(b):
        return sum(_diff_count(x, y) for x, y in zip(a, b))
    return 1


@check("C04.combine")
def c_combine(ctx, case):
    e, args, kw = case
    ctx.case(None)
    ctx.count("combines")
    m = LeafCounter()
    try:
        got = m(e, *args, **kw)
    except REFUSAL:
        ctx.count("combine_refused")
        return
    except RecursionError:
        raise
    except Exception as ex:  # noqa: BLE001
        ctx.fail("C04.combine", case, f"combine:raised:{type(ex).__name__}",
                 f"CombineMapper on {G.src(e)} raised {type(ex).__name__}: {ex}")
        return
    want = Counter()
    leaf_count(e, want)
    if got != want:
        ctx.fail("C04.combine", case, "combine:fold",
                 f"CombineMapper over {G.src(e)}: missing {dict(want - got)} extra {dict(got - want)}")
    wa = {(tuple(args), tuple(sorted(kw.items())))}
    if m.args_seen and m.args_seen != wa:
        ctx.fail("C04.combine", case, "combine:args", f"leaves saw extra arguments {m.args_seen}, passed {wa}")
    # Collector: set union
    class VarCollector(Collector):
        def map_variable(self, expr, *a, **k):
            return {expr.name}
    try:
        got = VarCollector()(e, *args, **kw)
        allv = {k[1] for k in want if k[0] == "v"}
        if got != allv:
            ctx.fail("C04.combine", case, "collector:union",
                     f"Collector over {G.src(e)} = {sorted(got)}, variables {sorted(allv)}")
    except REFUSAL:
        pass
    # a collector whose leaf results are LONG-LIVED objects (a table of per-name sets handed
    # out as they are): folding child results must not write into them
    table = {}

    class TableCollector(Collector):
        def map_variable(self, expr, *a, **k):
            return table.setdefault(expr.name, {expr.name})
    try:
        tc = TableCollector()
        first = set(tc(e, *args, **kw))
        second = set(tc(e, *args, **kw))
        ctx.count("collector_argument_audits")
        spoiled = {k_: sorted(v) for k_, v in table.items() if v != {k_}}
        if spoiled or first != second:
            ctx.fail("C04.combine", case, "collector:child-result-modified",
                     f"Collector over {G.src(e)}: the per-leaf result sets handed to combine() "
                     f"were written into: {spoiled}; first run {sorted(first)}, second run "
                     f"{sorted(second)}")
    except REFUSAL:
        pass
    vals = [{1}, {2, 3}, set(), {4}]
    out = Collector().combine(vals)
    if vals != [{1}, {2, 3}, set(), {4}] or set(out) != {1, 2, 3, 4}:
        ctx.fail("C04.combine", case, "collector:combine-arguments-modified",
                 f"Collector().combine([{{1}}, {{2, 3}}, set(), {{4}}]) = {out}; its arguments "
                 f"afterwards: {vals}")
    # the stock collectors derived from Collector, with all composite kinds switched off and
    # with calls descended into: they too fold in every child (keyword-argument values, slice
    # parts, conditions, ...).  The dependency model is C09's independent one.
    from .c09 import depmodel, eff
    from pymbolic.mapper.dependency import CachedDependencyMapper, DependencyMapper
    for flags in ((False, False, False, False, False), (False, False, False, False, None),
                  (False, False, "descend_args", False, None)):
        want_d = None
        for cls in (DependencyMapper, CachedDependencyMapper):
            ctx.case(None)
            ctx.count("stock_collector_folds")
            try:
                got_d = cls(include_subscripts=flags[0], include_lookups=flags[1],
                            include_calls=flags[2], include_cses=flags[3],
                            composite_leaves=flags[4])(e)
            except RecursionError:
                raise
            except Exception:  # noqa: BLE001   (node types the collector does not handle, unhashables)
                ctx.count("stock_collector_refused")
                continue
            if want_d is None:
                want_d = set(depmodel(e, eff(flags)))
            if set(got_d) != want_d:
                ctx.fail("C04.combine", case, f"stock-collector:{cls.__name__}:calls={flags[2]}",
                         f"{cls.__name__}(calls={flags[2]}, composite_leaves={flags[4]}) over "
                         f"{G.src(e)}: missing {[G.src(x) for x in want_d - set(got_d)]} extra "
                         f"{[G.src(x) for x in set(got_d) - want_d]}")


@check("C04.callback")
def c_callback(ctx, case):
    (e,) = case
    ctx.case(None)
    ctx.count("callbacks")
    seen = []

    def fn(expr, mapper, *a, **k):
        seen.append(expr)
        return mapper.fallback_mapper(expr, *a, **k) if False else IdentityMapper.__call__(fb, expr)
    fb = IdentityMapper()
    try:
        cm = CallbackMapper(lambda expr, mapper: (seen.append(expr), expr)[1], fb)
        out = cm(e)
    except REFUSAL:
        return
    except Exception as ex:  # noqa: BLE001
        ctx.fail("C04.callback", case, f"callback:raised:{type(ex).__name__}", f"{G.src(e)}: {ex}")
        return
    if out is not e or seen != [e]:
        ctx.fail("C04.callback", case, "callback:route",
                 f"CallbackMapper on {G.src(e)}: function saw {len(seen)} objects, result is input: {out is e}")

# }}}


def rich_tree(rng, g, d):
    """AnyGen tree with extra container node types spliced in."""
    u = rng.random()
    if u < 0.08:
        return [g.gen(d - 1), g.gen(d - 1)]
    if u < 0.14:
        a = np.empty(2, dtype=object)
        a[0], a[1] = g.gen(d - 1), g.gen(d - 1)
        return a
    if u < 0.18:
        return MultiVector({0: g.gen(d - 1), 1: p.Variable("x"), 3: g.gen(1)}, Space(2))
    if u < 0.22:
        return Polynomial(p.Variable("x"), ((0, g.gen(d - 1)), (2, p.Variable("y"))))
    if u < 0.30:    # a wrapper SUBCLASS carrying an extra constructor property
        from ..usertypes import TaggedCSE
        inner = p.Sum((g.gen(d - 1), p.Variable(rng.choice("xy"))))
        return p.Product((TaggedCSE(inner, rng.choice([None, "w"]), p.cse_scope.EVALUATION,
                                    rng.choice(["t1", "t2"])), g.gen(1)))
    return g.gen(d)


SPECS = []
for kinds in itertools.product(["dec", "legacy"], repeat=3):
    for depth in (1, 2, 3):
        for explicit in itertools.product([None, "E"], repeat=depth):
            names = ["AlphaNode", "BetaNode", "GammaNode"][:depth]
            spec = []
            for i in range(depth):
                ex = None if explicit[i] is None else f"map_explicit_{i}"
                if kinds[i] == "legacy" and ex is None and i == 0:
                    ex = "map_legacy_root"      # a legacy root must name its handler
                spec.append((names[i], kinds[i], ex))
            if spec not in SPECS:
                SPECS.append(spec)


MIXIN_SPECS = []
for _spec in SPECS:
    if len(_spec) >= 2:
        for _i in range(len(_spec)):
            for _mix in ("+mixin", "+mixinlast"):
                if _i == 0 and _spec[0][1] == "legacy":
                    continue
                _s2 = [(n_, k_ + (_mix if j_ == _i else ""), e_) for j_, (n_, k_, e_) in enumerate(_spec)]
                MIXIN_SPECS.append(_s2)


def relevant_handlers(spec):
    classes = make_hierarchy(spec)
    names = []
    for c in classes:
        mm = getattr(c, "mapper_method", None)
        if isinstance(mm, str) and mm not in names:
            names.append(mm)
    names.append("map_unrelated")
    return names


def workload(ctx):
    rng = ctx.rng
    with HandlerTrace([mapmod]) as tr:
        # ... a plain mix-in class among the bases of one level (first or last), all subsets
        for si, spec in enumerate(MIXIN_SPECS):
            if not ctx.thorough and si % 4 != ctx.seed % 4:
                continue
            names = relevant_handlers(spec)
            for r in range(len(names) + 1):
                for subset in itertools.combinations(names, r):
                    if not ctx.mine("dispatch-mixin"):
                        continue
                    for cached in (False, True):
                        ctx.case(("dispatch", str(spec), subset, cached), True, n=0)
                        ctx.count("mixin_hierarchies_dispatched")
                        ctx.run("C04.dispatch", (spec, subset, (), {}, cached))
        # dispatch: all subsets
        for spec in SPECS:
            names = relevant_handlers(spec)
            for r in range(len(names) + 1):
                for subset in itertools.combinations(names, r):
                    if not ctx.mine("dispatch"):
                        continue
                    args, kw = rng.choice(ARGS), rng.choice(KWARGS)
                    for cached in (False, True):
                        ctx.case(("dispatch", tuple(spec), subset, cached), True, n=0)
                        ctx.run("C04.dispatch", (spec, subset, args, kw, cached))
            # histories on one set of classes: all subsets in two random orders
            if ctx.mine("dispatch_history"):
                allsubs = [c for r in range(len(names) + 1) for c in itertools.combinations(names, r)]
                for _ in range(2):
                    order = allsubs[:]
                    rng.shuffle(order)
                    seq = [(sub, rng.choice(ARGS), rng.choice(KWARGS), rng.random() < 0.3)
                           for sub in order]
                    ctx.case(("dispatch-history", tuple(spec), tuple(x[0] for x in seq)), True, n=0)
                    ctx.count("dispatch_histories")
                    ctx.run("C04.dispatch_history", (spec, seq))
                    ctx.run("C04.evolving", (spec, seq))
        ctx.set_exhaustive("hierarchies (depth<=3, decorated/legacy, explicit/derived) x all handler subsets")
        ctx.sample("dispatch", {"hierarchy": SPECS[-1], "handlers": relevant_handlers(SPECS[-1])})
        for nm, want in GOLDEN.items():
            if ctx.mine("names"):
                ctx.case(("name", nm), True, n=0)
                ctx.run("C04.names", (nm, want))
        for which in ("bool", "int", "float", "complex", "np.float64", "np.int32", "np.bool_",
                      "ndarray", "objarray", "list", "tuple", "emptytuple", "str", "dict", "None",
                      "object", "set", "bytes", "mv", "poly"):
            for args in ARGS:
                for kw in KWARGS:
                    if ctx.mine("foreign"):
                        ctx.case(("foreign", which, args, tuple(kw)), True, n=0)
                        ctx.run("C04.foreign", (which, args, kw, rng.random() < 0.5))
        for args in ARGS:
            for kw in KWARGS:
                if ctx.mine("registered"):
                    ctx.case(("registered", args, tuple(kw)), True, n=0)
                    ctx.run("C04.registered", (args, kw, rng.random() < 0.5))
        ctx.set_exhaustive("foreign object kinds x extra arguments")
        # traversals
        g = G.AnyGen(rng, hist=ctx.hist, share_p=0.25)
        for i in range(ctx.per_shard(ctx.pick(3000, 60000))):
            g.pool = []
            e = rich_tree(rng, g, rng.randint(1, ctx.pick(4, 6)))
            args, kw = rng.choice(ARGS), rng.choice(KWARGS)
            try:
                key = normal.typed_key(e)
            except Exception:  # noqa: BLE001
                continue
            ctx.case(key, normal.count_ops(e) >= 1, n=0)
            if not isinstance(e, p.Expression):
                ctx.node(type(e).__name__)
            if i < 3:
                ctx.sample("traversal", {"tree": G.src(e), "args": args, "kwargs": kw})
            if isinstance(e, (p.Expression, tuple)) and i % 3 == 0:
                tags = [rng.choice(["_a", "_b", "_c"]) for _ in range(rng.randint(2, 4))]
                calls = [(rng.choice([(), ("p",), ("q",)]), {"tag": t} if rng.random() < 0.8 else {})
                         for t in tags]
                ctx.run("C04.argflow", (e, calls))
            if isinstance(e, p.Expression) and i % 4 == 1:
                ctx.run("C04.override", (e,))
            if isinstance(e, p.Expression) and i % 4 == 2:
                ctx.run("C04.raise", (e, i // 4))
            nstop = rng.choice([0, 0, 1, 2])
            ctx.run("C04.walk", (e, args, kw, tuple(rng.randrange(10**6) for _ in range(nstop))))
            ctx.run("C04.identity", (e, args, kw))
            ctx.run("C04.combine", (e, args, kw))
            if isinstance(e, p.Expression) and rng.random() < 0.2:
                ctx.run("C04.callback", (e,))
        # scale: every traversal over nodes of 9 .. 130 children (operands, call parameters,
        # keyword arguments, tuple entries, substitution lists), children of mixed kinds
        for w in scale.WIDTHS:
            if not ctx.mine("wide"):
                continue
            vs = scale.variables(w)
            kids = tuple(rng.choice([v, p.Sum((v, 1)), p.Subscript(v, (0, v)), p.Lookup(v, "w"),
                                     p.Call(v, (p.Variable("q"),)), 3, p.Power(v, 2),
                                     p.CommonSubexpression(p.Product((2, v)))]) for v in vs)
            for mk in (p.Sum, p.Product, p.Min, p.LogicalAnd, p.BitwiseXor,
                       lambda t: p.Call(p.Variable("f"), t),
                       lambda t: p.CallWithKwargs(p.Variable("f"), t[:3],
                                                  immutabledict({f"k{i}": v for i, v in enumerate(t)})),
                       lambda t: p.Subscript(p.Variable("a"), t), lambda t: t,
                       lambda t: p.Substitution(p.Sum(t[:3]), tuple(f"v{i}" for i in range(len(t))), t),
                       lambda t: p.Sum((p.Product(t), p.Max(t)))):
                e = mk(kids)
                args, kw = rng.choice(ARGS), rng.choice(KWARGS)
                ctx.case(("wide", normal.typed_key(e)), True, n=0)
                ctx.count("wide_nodes")
                ctx.run("C04.walk", (e, args, kw, ()))
                ctx.run("C04.identity", (e, args, kw))
                ctx.run("C04.combine", (e, args, kw))
        # depth: towers of one family (wrapper in wrapper in wrapper, call in call, ...), 3 .. 100
        fams = scale.family_towers()
        for fam, wrap in fams.items():
            for depth in scale.NEST_DEPTHS:
                if not ctx.mine("deep"):
                    continue
                for core in (p.Variable("x"), p.Sum((p.Variable("x"), 1))):
                    e = scale.nest(wrap, depth, core)
                    args, kw = rng.choice(ARGS), rng.choice(KWARGS)
                    ctx.case(("deep", fam, depth, type(core).__name__), True, n=0)
                    ctx.count("deep_towers")
                    ctx.run("C04.walk", (e, args, kw, ()))
                    ctx.run("C04.identity", (e, args, kw))
                    ctx.run("C04.combine", (e, args, kw))
        # arrays of plain numbers (every numeric dtype), at the root and inside containers:
        # their entries are constants like any other
        xv_ = p.Variable("x")
        for i, arr in enumerate([np.array([1, 2, 3]), np.array([1.5, 2.5]), np.array([[1, 2], [3, 4]]),
                                 np.array([1 + 2j, 3j]), np.array([True, False]), np.array([7], dtype=np.int8),
                                 np.array([0.5], dtype=np.float32), np.arange(40), np.zeros((2, 3))]):
            obj = np.empty(3, dtype=object)
            obj[0], obj[1], obj[2] = xv_, arr, p.Sum((xv_, 2))
            for e in (arr, [arr, xv_], (p.Sum((xv_, 1)), arr), obj, [arr, arr]):
                if ctx.mine("numeric-arrays"):
                    ctx.case(("numeric-array", i, type(e).__name__), True, n=0)
                    ctx.count("numeric_dtype_arrays")
                    ctx.run("C04.combine", (e, (), {}))
        for k, v in tr.handlers().items():
            ctx.count("handler:" + k, v)
    ctx.floor("wide_nodes", 250)
    ctx.floor("numeric_dtype_arrays", 40)
    ctx.floor("deep_towers", 400)
    ctx.floor("mixin_hierarchies_dispatched", 200)
    ctx.floor("retries_after_a_caught_failure", 300)
    ctx.floor("evolving_dispatches", 300)
    ctx.floor("explicit_same_as_parent", 10)
    ctx.floor("kind_rewrites", 800)
    ctx.floor("registry_dispatches", 12)
    ctx.floor("raising_handlers", 500)
    ctx.floor("dispatches", 2000)
    ctx.floor("dispatch_histories", 20)
    ctx.floor("derived_names", 10)
    ctx.floor("foreign_dispatches", 200)
    ctx.floor("walks", 1500)
    ctx.floor("walk_events", 20000)
    ctx.floor("identity_maps", 1500)
    ctx.floor("rewrites", 1000)
    ctx.floor("combines", 1500)
    ctx.floor("collector_argument_audits", 1000)
    for h in ("WalkMapper.map_slice", "WalkMapper.map_substitution", "WalkMapper.map_derivative",
              "WalkMapper.map_call_with_kwargs", "WalkMapper.map_multivector",
              "IdentityMapper.map_slice", "IdentityMapper.map_substitution",
              "IdentityMapper.map_call_with_kwargs", "IdentityMapper.map_polynomial",
              "CombineMapper.map_call_with_kwargs", "CombineMapper.map_if"):
        ctx.floor("handler:" + h, 50)


RULE = RULE + '  Later additions: towers of 21 node families up to depth 100; plain mix-in bases; numeric arrays; handlers that raise once and a retry on the same mapper; handler sets that change between calls.'
