"""C05 — memoization and mapper optimization are observationally transparent."""
from __future__ import annotations

import itertools
import json
import os
import subprocess
import sys
from collections import Counter

import numpy as np

import pymbolic.primitives as p
from pymbolic.mapper import (
    CachedCollector, CachedCombineMapper, CachedIdentityMapper, CachedWalkMapper, Collector,
    CombineMapper, IdentityMapper, WalkMapper)
from pymbolic.mapper.analysis import NodeCountMapper
from pymbolic.mapper.constant_folder import (
    CommutativeConstantFoldingMapper, ConstantFoldingMapper)
from pymbolic.mapper.dependency import CachedDependencyMapper, DependencyMapper
from pymbolic.mapper.differentiator import DifferentiationMapper
from pymbolic.mapper.evaluator import CachedEvaluationMapper, EvaluationMapper
from pymbolic.mapper.flop_counter import FlopCounter, FlopCounterBase
from pymbolic.mapper.substitutor import (
    CachedSubstitutionMapper, SubstitutionMapper, make_subst_func)
import pymbolic.mapper as mapmod

from .. import REPO, VERIF_DIR
from ..core import check, short
from ..gen import expr as G
from ..mon.trace import HandlerTrace
from ..mon.typedkeys import KF_TWINS, has_twins, refkeys, typed
from ..ref import normal, refsem

RULE = ("histories of 2-30 calls on ONE memoizing mapper instance, drawn from a pool of <= 12 "
        "expressions (heavy identity sharing, equal twins, and 4 / 4.0 / True dispatched as "
        "expressions in their own right, as leaves, tuple elements and call arguments) x <= 3 extra-"
        "argument tuples; every call is compared (typed equality) with a fresh non-memoizing "
        "counterpart, and instrumented subclasses count handler entries per (type, expression, "
        "args, kwargs) key (at most once per instance).  Pairs: cached identity (renamer with "
        "positional and keyword extra arguments), combine, collector, walk, evaluation, dependency "
        "(random flags), substitution, node count, flop count, and the CSE-caching mix-in users "
        "(evaluator, dependency, differentiator, constant folders).  Optimizer: ALL 32 option "
        "combinations on argument-free cached subjects, the admissible ones on subjects with extra "
        "arguments / without a cache, each alone in a fresh process AND 2-6 applications in random "
        "order inside one process.  distinct = typed key of the history; non-trivial = >=2 calls.")
ASSUMPTIONS = [
    "pools that hold two composite nodes that are == but differ in a constant's type "
    "(Sum((x,4)), Sum((x,4.0))) are judged like all others; a discrepancy there is attributed to "
    "the known finding on ==-keyed memo tables only if it vanishes with typed keys",
    "optimizer combinations outside an option's documented precondition (drop_args / drop_kwargs / "
    "inline_cache on subjects that take extra arguments; cache inlining on uncached subjects) are "
    "recorded, not judged",
]

KF_INLINE_REC = "C05-optimizer-inline-rec-without-inline-cache-bypasses-memo"
V = {n: p.Variable(n) for n in "xyzabf"}
ARGT = [(), ("p_",), ("q_",)]


# {{{ instrumented pairs

class CountedRenamer(CachedIdentityMapper):
    def __init__(self):
        super().__init__()
        self.cnt = Counter()

    def _k(self, expr, a, k):
        self.cnt[(type(expr), expr, a, tuple(sorted(k.items())))] += 1

    def map_variable(self, expr, *a, **k):
        self._k(expr, a, k)
        pre = (a[0] if a else "") + k.get("pre2", "")
        suf = k.get("suffix", "")
        return p.Variable(pre + expr.name + suf) if (pre or suf) else expr

    def map_constant(self, expr, *a, **k):
        self._k(expr, a, k)
        return expr

    def map_sum(self, expr, *a, **k):
        self._k(expr, a, k)
        return super().map_sum(expr, *a, **k)

    def map_call(self, expr, *a, **k):
        self._k(expr, a, k)
        return super().map_call(expr, *a, **k)


class PlainRenamer(IdentityMapper):
    def map_variable(self, expr, *a, **k):
        pre = (a[0] if a else "") + k.get("pre2", "")
        suf = k.get("suffix", "")
        return p.Variable(pre + expr.name + suf) if (pre or suf) else expr


def _leafcounter(base):
    class LC(base):
        def __init__(self):
            super().__init__()
            self.entered = Counter()

        def combine(self, values):
            t = Counter()
            for v in values:
                t += v
            return t

        def map_constant(self, expr, *a, **k):
            return Counter({("c", type(expr).__name__, repr(expr), a): 1})

        def map_variable(self, expr, *a, **k):
            self.entered[(expr, a)] += 1
            return Counter({("v", expr.name, a): 1})

        def map_nan(self, expr, *a, **k):
            return Counter()
        map_wildcard = map_dot_wildcard = map_star_wildcard = map_function_symbol = map_nan
    return LC


CachedLC, PlainLC = _leafcounter(CachedCombineMapper), _leafcounter(CombineMapper)


def _varcollector(base):
    class VC(base):
        def map_variable(self, expr, *a, **k):
            return {(expr.name, a)}
    return VC


CachedVC, PlainVC = _varcollector(CachedCollector), _varcollector(Collector)


class SeenCachedWalk(CachedWalkMapper):
    def __init__(self):
        super().__init__()
        self.seen = []

    def visit(self, expr, *a, **k):
        self.seen.append((type(expr), expr))
        return True


class SeenWalk(WalkMapper):
    def __init__(self):
        self.seen = []

    def visit(self, expr, *a, **k):
        self.seen.append((type(expr), expr))
        return True


class PlainFlops(FlopCounterBase):
    pass


class CSEArgRenamer(mapmod.CSECachingMapperMixin, IdentityMapper):
    """a user of the wrapper-caching mix-in whose result depends on an extra positional
    argument (no CachedMapper in front): one table entry per (wrapper, arguments)"""

    def map_variable(self, expr, *a):
        return p.Variable((a[0] if a else "") + expr.name) if a and a[0] else expr

    def map_common_subexpression_uncached(self, expr, *a):
        return type(expr)(self.rec(expr.child, *a), expr.prefix, expr.scope)


def _hooked_deps(base):
    class Hooked(base):
        """overrides the documented per-wrapper hook: wrappers also report a marker"""
        def map_common_subexpression_uncached(self, expr, *a, **k):
            return {p.Variable("wrapper_seen"), *super().map_common_subexpression_uncached(expr, *a, **k)}
    return Hooked


HookedDeps, HookedCachedDeps = _hooked_deps(DependencyMapper), _hooked_deps(CachedDependencyMapper)


def _hooked_eval(base):
    class Hooked(base):
        """overrides the documented per-wrapper hook: the value of a wrapper is offset by 1000"""
        def map_common_subexpression_uncached(self, expr):
            return super().map_common_subexpression_uncached(expr) + 1000
    return Hooked


HookedEval, HookedCachedEval = _hooked_eval(EvaluationMapper), _hooked_eval(CachedEvaluationMapper)

# }}}


def _power_over_wrapper(e):
    return any(isinstance(x, (p.Power, p.LeftShift))
               and any(isinstance(y, p.CommonSubexpression) for y in G.walk(x))
               for x in G.walk(e))


def subobjects(pool):
    out = []
    for e in pool:
        out.extend(G.walk(e))
    return out


def teq(a, b):
    if isinstance(a, (set, frozenset)) and isinstance(b, (set, frozenset)):
        # "exactly what its counterpart returns": a set stays a set (callers update it in place)
        return type(a) is type(b) and a == b
    if isinstance(a, Counter) or isinstance(b, Counter):
        return a == b
    return normal.typed_eq(a, b)


def outcome(f):
    try:
        return ("v", f())
    except RecursionError:
        raise
    except Exception as ex:  # noqa: BLE001
        return ("exc", type(ex).__name__)


def same_out(a, b):
    if a[0] != b[0]:
        return False
    return teq(a[1], b[1]) if a[0] == "v" else a[1] == b[1]


@check("C05.history")
def c_history(ctx, case):
    pool, hist, flags = case
    env = {"x": 3, "y": -2, "z": 5, "a": [1, 2, 3], "b": 7, "f": lambda *a, **k: sum(a) + 1}
    subst = {"x": V["y"], "y": V["x"], V["z"]: p.Sum((V["x"], 1))}
    def same(cls):
        return cls
    pairs = [
        ("identity+args", lambda w: w(CountedRenamer)(), lambda w: PlainRenamer(), True, True),
        ("combine+args", lambda w: w(CachedLC)(), lambda w: PlainLC(), True, False),
        ("collector+args", lambda w: w(CachedVC)(), lambda w: PlainVC(), True, False),
        ("evaluation", lambda w: w(CachedEvaluationMapper)(env), lambda w: w(EvaluationMapper)(env),
         False, False),
        ("dependency", lambda w: w(CachedDependencyMapper)(**flags),
         lambda w: w(DependencyMapper)(**flags), False, False),
        # the same pairs with a documented extension hook overridden IDENTICALLY on both
        ("dependency+hook", lambda w: w(HookedCachedDeps)(**flags), lambda w: w(HookedDeps)(**flags),
         False, False),
        ("evaluation+hook", lambda w: w(HookedCachedEval)(env), lambda w: w(HookedEval)(env),
         False, False),
        ("substitution", lambda w: w(CachedSubstitutionMapper)(make_subst_func(subst)),
         lambda w: SubstitutionMapper(make_subst_func(subst)), False, False),
        ("flops", lambda w: w(FlopCounter)(), lambda w: PlainFlops(), False, False),
        # users of the CSE-caching mix-in: one reused instance vs a fresh one per call
        ("cse-mixin:evaluator", lambda w: w(EvaluationMapper)(env), lambda w: w(EvaluationMapper)(env),
         False, False),
        ("cse-mixin:dependency", lambda w: w(DependencyMapper)(**flags),
         lambda w: w(DependencyMapper)(**flags), False, False),
        ("cse-mixin:differentiator", lambda w: w(DifferentiationMapper)(V["x"]),
         lambda w: w(DifferentiationMapper)(V["x"]), False, False),
        ("cse-mixin:renamer+args", lambda w: w(CSEArgRenamer)(), lambda w: w(CSEArgRenamer)(),
         True, False),
        ("cse-mixin:fold", lambda w: w(ConstantFoldingMapper)(), lambda w: w(ConstantFoldingMapper)(),
         False, False),
        ("cse-mixin:commfold", lambda w: w(CommutativeConstantFoldingMapper)(),
         lambda w: w(CommutativeConstantFoldingMapper)(), False, False),
    ]
    twins = has_twins(*pool)

    costly = {}

    def too_costly(ei):
        """a power tower the reference refuses (> 2M-bit result): Python itself would not
        finish (-2) ** (4 ** 343); nothing to compare"""
        if ei not in costly:
            # (a history evaluates the same expression dozens of times -- several instances,
            #  fresh counterparts, explanation runs: the bound here is 100 000 bits, not 2M)
            old_bits, refsem.MAX_BITS = refsem.MAX_BITS, 100_000
            try:
                refsem.outcome(lambda: refsem.ev(pool[ei], env))
                costly[ei] = False
            except refsem.TooCostly:
                costly[ei] = True
            finally:
                refsem.MAX_BITS = old_bits
        return costly[ei]

    def replay(name, mk, fresh, takes_args, w):
        """(index of first differing call or None, got, want, memo) for one pair."""
        memo = mk(w)
        for i, (ei, a, kw) in enumerate(hist):
            e = pool[ei]
            if "evaluat" in name and too_costly(ei):
                ctx.count("evaluation_too_costly_skipped")
                continue
            if name == "evaluation+hook" and _power_over_wrapper(e):
                # (the hooked pair adds 1000 per wrapper: (CSE(3) << CSE(z)) ** ... has 300-digit
                #  operands there -- a cost of this harness's own hook, nothing to compare)
                ctx.count("hooked_evaluation_skipped_power_over_wrapper")
                continue
            if not takes_args:
                a, kw = (), {}
            if name in ("combine+args", "collector+args", "cse-mixin:renamer+args"):
                kw = {}
            got = outcome(lambda: memo(e, *a, **kw))
            # (the counterpart keeps a per-call table of wrappers too: in the explanation runs
            #  it gets the same kind of keys as the instance under test)
            want = outcome(lambda: fresh(w)(e, *a, **kw))
            if not same_out(got, want):
                return i, (e, a, kw), got, want, memo
        return None, None, None, None, memo

    for name, mk, fresh, takes_args, counted in pairs:
        ctx.case(None, n=len(hist))
        ctx.count("history_calls", len(hist))
        ctx.count("pair:" + name, len(hist))
        i, call, got, want, memo = replay(name, mk, fresh, takes_args, same)
        if i is not None:
            finding = None
            if twins:
                # explanation test: the same history with ONLY the memo keys made typed
                # ... and the documented ==-keys, re-implemented here, fail at the same call
                if replay(name, mk, fresh, takes_args, typed)[0] is None \
                        and replay(name, mk, fresh, takes_args, refkeys)[0] == i:
                    finding = KF_TWINS
            e, a, kw = call
            ctx.fail("C05.history", case, f"{name}:differs",
                     f"{name}: call {i} of a history on one memoizing instance: "
                     f"({G.src(e)}, args={a}, kwargs={kw}) -> {short(got, 300)}; a fresh "
                     f"non-memoizing counterpart gives {short(want, 300)}; earlier calls: "
                     f"{[(G.src(pool[j]), aa, kk) for j, aa, kk in hist[:i]][-4:]}",
                     finding=finding)
        if counted:
            twice = {k: c for k, c in memo.cnt.items() if c > 1}
            ctx.count("keys_counted", len(memo.cnt))
            if twice:
                k = next(iter(twice))
                ctx.fail("C05.history", case, f"{name}:computed-twice:{k[0].__name__}",
                         f"{name}: key (type={k[0].__name__}, expr={G.src(k[1])}, args={k[2]}, "
                         f"kwargs={k[3]}) was computed {twice[k]} times on one instance")
    # walk: the cached walker sees each distinct (type, node) once, and the same set
    def walks(w):
        """[problems] of the cached walker / node counter against the plain walker; with typed
        keys (w=typed) 'distinct node' means distinct typed structure."""
        cw, pw, nc = w(SeenCachedWalk)(), SeenWalk(), w(NodeCountMapper)()
        for ei, a, kw in hist:
            cw(pool[ei])
            pw(pool[ei])
            nc(pool[ei])
        if w is typed:
            ident = lambda seen: [normal.typed_key(x) for _, x in seen]  # noqa: E731
        else:
            ident = lambda seen: seen  # noqa: E731
        cs, ps = Counter(ident(cw.seen)), set(ident(pw.seen))
        out = []
        if set(cs) != ps or any(v > 1 for v in cs.values()):
            out.append(("walk:visited-set",
                        f"CachedWalkMapper over the history visited {len(cs)} distinct nodes (max "
                        f"multiplicity {max(cs.values())}); the plain walker visited {len(ps)}"))
        if nc.count != len(ps):
            out.append(("nodecount:history", f"NodeCountMapper over the history counted "
                        f"{nc.count}, distinct nodes {len(ps)}"))
        return out
    try:
        ctx.case(None)
        ctx.count("pair:walk")
        probs = walks(same)
        if probs:
            finding = KF_TWINS if twins and not walks(typed) \
                and [x[0] for x in walks(refkeys)] == [x[0] for x in probs] else None
            for sig, detail in probs:
                ctx.fail("C05.history", case, sig, detail, finding=finding)
    except (TypeError, NotImplementedError, ValueError):
        pass


def big_expression(n, rng):
    """>= 3n distinct nodes; the shared pieces recur before and after every other node"""
    y2 = p.Power(V["y"], 2)
    shared = p.Sum((V["x"], y2))
    terms = []
    for i in range(n):
        t = p.Product((p.Variable(f"v{i}"), y2 if i % 2 else G.deep_rebuild(y2)))
        terms.append(p.Sum((t, shared)) if i % 97 == 0 else t)
    return p.Sum((shared, *terms, G.deep_rebuild(shared)))


@check("C05.big")
def c_big(ctx, case):
    """One memoizing instance that accumulates THOUSANDS of keys -- one big expression, and a
    long history of small ones: each key is still computed once, every distinct node is still
    visited / counted once, results still equal the non-memoizing counterpart's."""
    n, seed = case
    rng = ctx.sub_rng("big", seed)
    e = big_expression(n, rng)
    distinct = {}
    for x in G.walk(e):
        if isinstance(x, p.Expression) or isinstance(x, (int, float)):
            distinct[(type(x), x)] = 1
    ctx.case(None)
    ctx.count("big_expressions")
    ctx.count("big_distinct_nodes", len(distinct))
    m = CountedRenamer()
    out = m(e, "p_")
    again = m(e, "p_")
    want = PlainRenamer()(e, "p_")
    if not teq(out, want) or not teq(again, want):
        ctx.fail("C05.big", case, "identity:differs",
                 f"CachedIdentityMapper over an expression of {len(distinct)} distinct nodes "
                 f"differs from the plain mapper's result")
    twice = {k: c for k, c in m.cnt.items() if c > 1}
    if twice:
        k = next(iter(twice))
        ctx.fail("C05.big", case, f"computed-twice:{k[0].__name__}",
                 f"one CachedIdentityMapper over an expression of {len(distinct)} distinct nodes "
                 f"(called twice): key (type={k[0].__name__}, expr={G.src(k[1])}, args={k[2]}) was "
                 f"computed {twice[k]} times; {len(twice)} keys in all were computed more than once")
    cw, pw, nc = SeenCachedWalk(), SeenWalk(), NodeCountMapper()
    cw(e)
    pw(e)
    nc(e)
    cs, ps = Counter(cw.seen), set(pw.seen)
    if set(cs) != ps or any(v > 1 for v in cs.values()):
        ctx.fail("C05.big", case, "walk:visited-set",
                 f"CachedWalkMapper over {len(ps)} distinct nodes visited {len(cs)} distinct nodes, "
                 f"max multiplicity {max(cs.values())}")
    if nc.count != len(ps):
        ctx.fail("C05.big", case, "nodecount",
                 f"NodeCountMapper counted {nc.count} nodes, the plain walker saw {len(ps)} "
                 f"distinct ones")
    # a long history of small expressions on one instance
    m2, cw2 = CountedRenamer(), SeenCachedWalk()
    small = [p.Sum((V["x"], i)) for i in range(n)]
    for rounds in range(2):
        for i in (range(n) if rounds == 0 else rng.sample(range(n), 200)):
            r = m2(small[i], "q_")
            cw2(small[i])
            if rounds and not teq(r, PlainRenamer()(small[i], "q_")):
                ctx.fail("C05.big", case, "history:differs",
                         f"call on {small[i]} after {n} earlier calls on one instance differs")
                break
    ctx.count("big_history_calls", n + 200)
    twice = {k: c for k, c in m2.cnt.items() if c > 1}
    cs2 = Counter(cw2.seen)
    if twice or any(v > 1 for v in cs2.values()):
        k = next(iter(twice), None)
        ctx.fail("C05.big", case, "history:computed-twice",
                 f"one instance over a history of {n + 200} calls on {n} distinct small "
                 f"expressions: {len(twice)} keys computed more than once"
                 + (f", e.g. {G.src(k[1])} {twice[k]} times" if k else "")
                 + f"; the cached walker visited {sum(1 for v in cs2.values() if v > 1)} nodes "
                 f"more than once")


def _depflags(d):
    return (d["include_subscripts"], d["include_lookups"], d["include_calls"], d["include_cses"])


@check("C05.instances")
def c_instances(ctx, case):
    """What a memoizing mapper remembers belongs to the INSTANCE: two live instances of one
    class with different configurations (analysis flags, environments, substitution maps),
    used alternately on the same expressions, each give what an independent reference gives
    for its own configuration -- whatever the other one has already been asked."""
    from .c08 import has_zero_cse, refsub
    from .c09 import depmodel
    pool, hist, fa, fb = case
    enva = {"x": 3, "y": -2, "z": 5, "a": [1, 2, 3], "b": 7, "f": lambda *a, **k: sum(a) + 1}
    envb = {"x": -4, "y": 6, "z": 1, "a": [5, 0, 2], "b": -3, "f": lambda *a, **k: sum(a) - 2}
    sa = {"x": V["y"], "y": V["x"]}
    sb = {"x": p.Sum((V["z"], 1)), "z": V["x"]}
    kinds = [
        ("dependency", lambda c: DependencyMapper(**c), (fa, fb),
         lambda e, c: set(depmodel(e, _depflags(c))), lambda a, b: a == b),
        ("cached-dependency", lambda c: CachedDependencyMapper(**c), (fa, fb),
         lambda e, c: set(depmodel(e, _depflags(c))), lambda a, b: a == b),
        ("evaluation", lambda c: EvaluationMapper(c), (enva, envb),
         lambda e, c: refsem.ev(e, c), refsem.values_equal),
        ("cached-evaluation", lambda c: CachedEvaluationMapper(c), (enva, envb),
         lambda e, c: refsem.ev(e, c), refsem.values_equal),
        ("cached-substitution", lambda c: CachedSubstitutionMapper(make_subst_func(c)), (sa, sb),
         lambda e, c: refsub(e, list(c.items())), teq),
    ]
    twins = has_twins(*pool)
    for name, mk, cfgs, ref, eq in kinds:
        insts = [mk(cfgs[0]), mk(cfgs[1])]
        for step, (ei, _a, _kw) in enumerate(hist):
            e = pool[ei]
            if not isinstance(e, p.Expression):
                continue
            for which in ((0, 1) if step % 2 == 0 else (1, 0)):
                try:
                    want = ref(e, cfgs[which])
                except RecursionError:
                    raise
                except Exception:  # noqa: BLE001   (outside the reference's fragment)
                    ctx.count("instances_reference_undefined")
                    continue
                got = outcome(lambda: insts[which](e))
                ctx.case(None)
                ctx.count("instance_calls")
                ctx.count("instances:" + name)
                if got[0] == "v" and not eq(got[1], want) and name == "cached-substitution" \
                        and has_zero_cse(e, list(cfgs[which].items())) \
                        and eq(got[1], refsub(e, list(cfgs[which].items()), collapse_cse=True)):
                    # the identity traversal's zero-wrapper collapse (finding of C04/C08): the
                    # non-memoizing counterpart does the same, not a memoization matter
                    ctx.count("instances_zero_cse_collapse_seen")
                    continue
                if got[0] != "v" or not eq(got[1], want):
                    if twins and name.startswith("cached"):
                        ctx.count("instances_twin_pool_skipped")
                        break       # (==-keyed memo tables: judged by C05.history)
                    ctx.fail("C05.instances", case, f"{name}:instance-{'AB'[which]}",
                             f"{name}: two live instances with different configurations used "
                             f"alternately; call {step} on instance {'AB'[which]} "
                             f"({G.src(e)}) -> {short(got, 300)}, an independent reference for "
                             f"that instance's configuration gives {short(want, 300)}")
                    break
            else:
                continue
            break


@check("C05.walkretry")
def c_walkretry(ctx, case):
    """A memoizing walk whose visit hook (the caller's code) RAISES at some node; the caller
    catches it and walks again with the same object -- the same expression, and others that
    share sub-expressions with it.  Every distinct node is still visited: what was not finished
    is not remembered as done."""
    exprs, k = case
    order = []
    probe = SeenWalk()
    for e in exprs:
        probe(e)
    distinct = list(dict.fromkeys(probe.seen))
    if not distinct:
        return
    target = distinct[k % len(distinct)]

    class Boom(Exception):
        pass

    class W(SeenCachedWalk):
        armed = True

        def visit(self, expr, *a, **kw):
            if self.armed and (type(expr), expr) == target:
                raise Boom()
            return super().visit(expr, *a, **kw)
    m = W()
    ctx.case(None)
    ctx.count("walk_retries_after_a_raising_visit")
    for e in exprs:
        try:
            m(e)
        except Boom:
            pass
    m.armed = False
    for e in exprs:
        m(e)
    got, want = set(m.seen), set(distinct)
    # (ancestors of the faulting node are visited a second time on the retry: their first walk
    #  was aborted -- only "every node is visited" is judged)
    if got != want:
        ctx.fail("C05.walkretry", case, "walk-after-failure:missing",
                 f"CachedWalkMapper whose visit raised at {target[1]} (caught), then the same object "
                 f"over {[str(e) for e in exprs]} again: never visited "
                 f"{[str(x[1]) for x in want - got][:5]}")


# {{{ optimizer

OPTS = ["drop_args", "drop_kwargs", "inline_rec", "inline_cache", "inline_get_cache_key"]
ALL32 = [dict(zip(OPTS, bits)) for bits in itertools.product([False, True], repeat=5)]


def admissible(subject, o):
    if subject in ("OptCachedRenamer", "OptCachedCounter", "OptCachedWalker", "OptCachedTwice"):
        return True
    if subject == "OptArgRenamer":
        return not (o["drop_args"] or o["drop_kwargs"] or o["inline_cache"])
    if subject == "OptPlainRenamer":
        return not (o["inline_cache"] or o["inline_get_cache_key"])
    if subject == "OptArgPlain":
        return not (o["drop_args"] or o["drop_kwargs"] or o["inline_cache"]
                    or o["inline_get_cache_key"])
    return False


def run_opt_jobs(jobs):
    env = dict(os.environ, PYTHONHASHSEED="0", PYTHONDONTWRITEBYTECODE="1", VF_REPO=REPO)
    r = subprocess.run([sys.executable, "-m", "vf.props.c05_opt", json.dumps(jobs)],
                       cwd=VERIF_DIR, env=env, capture_output=True, text=True, timeout=300)
    for line in r.stdout.splitlines():
        if line.startswith("C05OPT "):
            return json.loads(line[7:]), None
    return None, (r.stdout + r.stderr)[-600:]


@check("C05.optimize")
def c_optimize(ctx, case):
    (jobs,) = case
    try:
        res, err = run_opt_jobs(jobs)
    except subprocess.TimeoutExpired:
        ctx.inconclusive.append("optimizer worker watchdog")
        return
    if res is None:
        ctx.fail("C05.optimize", case, "worker-crashed", f"optimizer worker failed: {err}")
        return
    for i, r in enumerate(res):
        ctx.case(None)
        ctx.count("optimized_classes")
        ctx.count("subject:" + r["subject"])
        if r["problems"]:
            on = [k for k, v in r["options"].items() if v]
            finding = None
            if (r["options"]["inline_rec"] and not r["options"]["inline_cache"]
                    and r["subject"] in ("OptCachedCounter", "OptCachedWalker")
                    and all(pr.startswith("handler entries:") for pr in r["problems"])):
                finding = KF_INLINE_REC
            earlier = [(j["subject"], [k for k, v in j["options"].items() if v]) for j in res[:i]]
            ctx.fail("C05.optimize", case,
                     f"optimized-differs:{r['subject']}:{'+'.join(on) or 'none'}:{'history' if i else 'fresh'}",
                     f"optimize_mapper({on}) applied to {r['subject']}"
                     f"{' after ' + str(earlier) + ' in the same process' if i else ' in a fresh process'}"
                     f": {r['problems'][:2]}", finding=finding)

# }}}


def workload(ctx):
    rng = ctx.rng
    with HandlerTrace([mapmod]) as tr:
        g = G.AnyGen(rng, hist=ctx.hist, share_p=0.3, names="xyzab",
                     exclude=("subst", "deriv", "subs"), leaf_extra=False,
                     consts=(0, 1, -1, 2, 4, 4.0, True, 3))
        tg = G.TypedGen(rng)
        n = ctx.per_shard(ctx.pick(500, 10000))
        for i in range(n):
            g.pool = []
            tg.pool = {"int": [], "num": [], "bool": []}
            pool = [g.gen(rng.randint(0, 3)) for _ in range(4)] + \
                   [tg.int(rng.randint(1, 3)) for _ in range(3)] + \
                   [4, 4.0, True, (4, V["x"]), (V["y"], 4.0), p.Call(V["f"], (4, 4.0, True)),
                    # ... and the numpy kinds that are == to them (np.float64 IS a float subclass)
                    np.float64(4.0), np.int64(4), np.float32(4.0), 1, np.bool_(True), 1.0,
                    (np.float64(4.0), V["x"]), p.Call(V["f"], (np.float64(4.0), 4.0, np.int64(4)))]
            pool += [G.deep_rebuild(pool[0]), pool[1]]
            if i % 4 == 1:      # wrappers that differ only in their prefix (distinct nodes)
                child = rng.choice([pool[4], p.Sum((V["x"], V["y"])), p.Product((2, V["z"]))])
                pool += [p.CommonSubexpression(child, "pa"),
                         p.Sum((p.CommonSubexpression(child, "pb"), V["a"]))]
            if i % 4 == 2:      # distinct keys with EQUAL HASHES: hash(-1) == hash(-2),
                #                     hash(n) == hash(n + 2**61 - 1); node hashes inherit this
                c1, c2 = rng.choice([(-1, -2), (5, 5 + 2**61 - 1), (-2, -1)])
                sh = rng.choice([lambda c: p.Product((c, V["x"])), lambda c: p.Subscript(V["a"], c),
                                 lambda c: p.Sum((V["y"], p.Power(c, 2))), lambda c: c,
                                 lambda c: p.Call(V["f"], (V["x"], c))])
                pool += [sh(c1), sh(c2)]
            if i % 4 == 0:      # typed twins: == composites that differ in a constant's type
                c1, c2 = rng.choice([(4, 4.0), (1, True), (0, False), (2.0, 2)])
                sh = rng.choice([lambda c: p.Sum((V["x"], c)), lambda c: p.Power(c, 3),
                                 lambda c: p.CommonSubexpression(p.Product((c, V["y"]))),
                                 lambda c: p.Call(V["f"], (c,)), lambda c: (c, V["x"])])
                pool += [sh(c1), p.Sum((sh(c2), 1)) if rng.random() < .5 and not isinstance(sh(c2), tuple)
                         else sh(c2)]
            if has_twins(*pool):
                ctx.count("pools_with_typed_twins")
            hist = [(rng.randrange(len(pool)), rng.choice(ARGT),
                     # (the SAME two keywords in both orders: one key, not two)
                     rng.choice([{}, {}, {"suffix": "_s"}, {"suffix": "_t"},
                                 {"suffix": "_s", "pre2": "q"}, {"pre2": "q", "suffix": "_s"}]))
                    for _ in range(rng.randint(2, 30))]
            flags = dict(include_subscripts=rng.random() < .5, include_lookups=rng.random() < .5,
                         include_calls=rng.choice([True, False, "descend_args"]),
                         include_cses=rng.random() < .5)
            ctx.case(("hist", normal.typed_key(tuple(pool)),
                      tuple((h[0], h[1], tuple(h[2])) for h in hist)), len(hist) >= 2, n=0)
            if i < 2:
                ctx.sample("history", {"pool": [G.src(e) for e in pool[:5]],
                                       "calls": [(h[0], h[1], h[2]) for h in hist[:6]]})
            ctx.run("C05.history", (pool, hist, flags))
            if i % 3 == 0:
                fb = dict(flags, include_cses=not flags["include_cses"],
                          include_calls=rng.choice([True, False, "descend_args"]),
                          include_subscripts=not flags["include_subscripts"])
                ctx.run("C05.instances", (pool, hist, flags, fb))
        for n in ([400, 1500, 2600] if not ctx.thorough else [400, 700, 1500, 2600, 6000, 12000]):
            if ctx.mine("big"):
                ctx.case(("big", n), True, n=0)
                ctx.run("C05.big", (n, rng.randrange(10**6)))
        for k, v in tr.handlers().items():
            ctx.count("handler:" + k, v)
        ctx.count("handler:CachedMapper.get_cache_key", tr.counts.get("CachedMapper.get_cache_key", 0))
    for i in range(ctx.per_shard(ctx.pick(300, 6000))):
        r2 = ctx.sub_rng("walkretry", i)
        g2 = G.AnyGen(r2, hist=None, share_p=0.3, names="xyzab", exclude=("subst", "deriv", "subs"),
                      leaf_extra=False, consts=(0, 1, -1, 2, 3))
        es = [g2.gen(r2.randint(1, 3)) for _ in range(r2.randint(1, 3))]
        es = [e for e in es if isinstance(e, p.Expression)]
        if es:
            es.append(p.Sum((es[0], 1)))
            try:
                hash(tuple(es))
            except TypeError:
                continue
            ctx.run("C05.walkretry", (es, r2.randrange(50)))
    # optimizer: each admissible combination alone in a fresh process
    subjects = ["OptCachedRenamer", "OptCachedCounter", "OptCachedWalker", "OptArgRenamer",
                "OptPlainRenamer", "OptArgPlain"]
    singles = [(s, o) for s in subjects for o in ALL32 if admissible(s, o)]
    skipped = sum(1 for s in subjects for o in ALL32 if not admissible(s, o))
    ctx.count("optimizer_combinations_outside_precondition", skipped if ctx.shard == 0 else 0)
    quick_singles = singles if ctx.thorough else \
        [x for x in singles if x[0] in ("OptCachedRenamer", "OptArgRenamer")] + \
        [x for x in singles if x[0] == "OptCachedWalker" and x[1]["inline_cache"]
         and not (x[1]["drop_args"] ^ x[1]["drop_kwargs"])] + \
        rng.sample([x for x in singles if x[0] not in ("OptCachedRenamer", "OptArgRenamer")], 8)
    for s, o in quick_singles:
        if ctx.mine("opt-single"):
            ctx.case(("opt", s, tuple(sorted(o.items()))), True, n=0)
            ctx.run("C05.optimize", ([[s, o]],))
    # a subject whose handlers map the result of a mapped operand AGAIN (rec inside rec)
    for o in ALL32:
        if (ctx.thorough or o["inline_cache"] or not any(o.values())) and ctx.mine("opt-twice"):
            ctx.case(("opt", "OptCachedTwice", tuple(sorted(o.items()))), True, n=0)
            ctx.count("nested_rec_subject")
            ctx.run("C05.optimize", ([["OptCachedTwice", o]],))
    ctx.set_exhaustive("optimizer: 32 option combinations on the argument-free cached subject, "
                       "fresh process each")
    # histories: 2-6 applications in random order in one process
    for i in range(ctx.per_shard(ctx.pick(24, 400))):
        jobs = [list(rng.choice(singles)) for _ in range(rng.randint(2, 6))]
        ctx.case(("opt-hist", json.dumps(jobs, sort_keys=True)), True, n=0)
        if i < 1:
            ctx.sample("optimizer-history", jobs)
        ctx.count("optimizer_histories")
        ctx.run("C05.optimize", (jobs,))
    ctx.floor("history_calls", 20000)
    ctx.floor("big_distinct_nodes", 9000)
    ctx.floor("big_history_calls", 4000)
    for k in ("dependency", "cached-dependency", "evaluation", "cached-evaluation",
              "cached-substitution"):
        ctx.floor("instances:" + k, 300)
    ctx.floor("keys_counted", 2000)
    ctx.floor("optimized_classes", 100)
    ctx.floor("nested_rec_subject", 17)
    ctx.floor("walk_retries_after_a_raising_visit", 200)
    ctx.floor("optimizer_histories", 20)
    ctx.floor("handler:CachedMapper.get_cache_key", 10000)


RULE = RULE + '  Later additions: a subject whose handlers map mapped operands again (rec in rec) under all 32 option sets; memoizing walks after a raising visit; thousands of keys on one instance.'
