"""Worker for C05: apply optimize_mapper combinations in THIS process, in the given order, and
compare every optimized class with its source class.

  python -m vf.props.c05_opt '<json list of [subject, {options}]>'
prints one JSON line: list of {subject, options, problems}
"""
from __future__ import annotations

import json
import sys

import vf  # noqa: F401
import pymbolic.primitives as p
from pymbolic.mapper.optimize import optimize_mapper
from vf import usertypes as U
from vf.gen import expr as G
from vf.ref import normal

x, y, z, f, a = (p.Variable(n) for n in "xyzfa")
SHARED = p.Sum((x, y))
EXPRS = [
    p.Product((SHARED, p.Call(f, (x, 4)))), p.Sum((SHARED, p.Power(SHARED, 2), a[1])),
    p.If(p.Comparison(x, "<", y), p.Min((x, 4, 4.0)), p.CallWithKwargs(f, (x,), {"k": y})),
    # 4 / 4.0 / True as expressions in their own right and inside *different* composites
    # (Sum((x,4)) == Sum((x,4.0)) legitimately share a memo entry, so not both in one history)
    p.Sum((x, 4)), p.Product((x, 4.0)), p.Min((x, True)), (x, 4), (y, 4.0), (z, True), x, 4, 4.0, True,
    p.Subscript(a, (x, p.Slice((1, None, y)))), p.Lookup(p.CommonSubexpression(SHARED, "c"), "attr"),
    p.Quotient(p.LeftShift(x, 2), p.BitwiseOr((y, z, 1))), p.LogicalNot(p.LogicalAnd((x, y))),
    # operands that occur bare and as the base / numerator / argument of a node whose handler
    # may map them twice -- before and after it
    p.Sum((x, p.Power(x, 2), x)), p.Sum((p.Power(SHARED, y), SHARED)), p.Product((p.Quotient(z, x), z, x)),
    p.Sum((p.Call(f, (a, x)), a)),
]
ARGSETS = {"noargs": [((), {})],
           "args": [(("p_",), {}), (("q_",), {"suffix": "_t"}), (("p_",), {"suffix": "_t"})]}


def run(subject, options):
    cls = U.OPT_SUBJECTS[subject]
    problems = []
    try:
        opt = optimize_mapper(**options)(cls)
    except Exception as ex:  # noqa: BLE001
        return [f"optimize_mapper raised {type(ex).__name__}: {ex}"]
    argsets = ARGSETS["args" if "Arg" in subject else "noargs"]
    try:
        m_src, m_opt = cls(), opt()
    except Exception as ex:  # noqa: BLE001
        return [f"instantiation raised {type(ex).__name__}: {ex}"]
    n = 0
    for rnd in range(2):            # second round: memo hits
        for e in EXPRS:
            for args, kw in argsets:
                n += 1
                try:
                    want = ("v", normal.typed_key(cls()(e, *args, **kw)))
                except Exception as ex:  # noqa: BLE001
                    want = ("exc", type(ex).__name__)
                try:
                    got = ("v", normal.typed_key(m_opt(e, *args, **kw)))
                except Exception as ex:  # noqa: BLE001
                    got = ("exc", f"{type(ex).__name__}: {ex}")
                if got[0] != want[0] or (got[0] == "v" and got[1] != want[1]):
                    problems.append(f"{G.src(e)} args={args} kw={kw} round={rnd}: optimized -> "
                                    f"{str(got)[:200]}, source class -> {str(want)[:200]}")
                    if len(problems) > 3:
                        return problems
    if hasattr(m_opt, "entered"):
        ref = cls()
        for rnd in range(2):
            for e in EXPRS:
                ref(e)
        if m_opt.entered != ref.entered:
            problems.append(f"handler entries: optimized {m_opt.entered} vs source {ref.entered} "
                            f"(memoization changed)")
    return problems


def main():
    jobs = json.loads(sys.argv[1])
    out = []
    for subject, options in jobs:
        out.append({"subject": subject, "options": options, "problems": run(subject, options)})
    print("C05OPT " + json.dumps(out))


if __name__ == "__main__":
    main()
