"""C06 — printing an expression and parsing the text gives the expression back."""
from __future__ import annotations

import itertools

from immutabledict import immutabledict

import pymbolic.primitives as p
from pymbolic import parse
import pymbolic.mapper.stringifier as strmod
import pymbolic.parser as parsemod

from ..core import check, short
from ..gen import expr as G
from ..gen import scale
from ..mon.trace import HandlerTrace
from ..ref import normal, refsem

RULE = ("EXHAUSTIVE (parent node type, child position, child node type) over the printable node "
        "types (variables, calls with positional / keyword arguments, subscripts with scalar, tuple "
        "and slice indices, lookups, sums, products, the three divisions, power, shifts, bitwise and "
        "logical operators, the six comparisons, conditionals, tuples) with negative-int / float / "
        "bool / big-int constants as extra child kinds; EXHAUSTIVE three-level nestings over a "
        "reduced alphabet (quick: sampled 1 in 6); random deep trees (depth <= 7) with negative and "
        "non-integer constants, keyword calls, tuple indices and 2-/3-part slices.  Judged: "
        "parse(str(e)) equals e as a typed tree once nested sums/products are flattened, and "
        "str(parse(str(e))) == str(e).  distinct = typed key of the tree; non-trivial = >=2 operator "
        "nodes.")
ASSUMPTIONS = [
    "non-finite floats, complex numbers and one-part slices are outside the text syntax and are "
    "not generated; numpy scalar constants are judged up to their Python value (C06.numpy)",
    "typed equality modulo sum/product flattening implies equal values in every environment, so "
    "values are only evaluated to classify a failure",
]
KF_REGROUP = "C06-nary-bitwise-logical-regrouped"
KF_SUBTUPLE = "C06-subscript-short-tuple-index-printed-bare"

A, B, C, D = (p.Variable(n) for n in "abcd")
F_ = p.Variable("f")

# child kinds: name -> builder
ATOMS = {
    "var": lambda: p.Variable("x"), "int": lambda: 7, "negint": lambda: -3, "float": lambda: 1.5,
    "negfloat": lambda: -2.5, "bool": lambda: True, "bigint": lambda: 2 ** 70, "zero": lambda: 0,
    "efloat": lambda: 1e+20,
}
# node kinds: name -> (arity, builder(children))
NODES = {
    "sum": (2, lambda c: p.Sum(tuple(c))), "sum3": (3, lambda c: p.Sum(tuple(c))),
    "prod": (2, lambda c: p.Product(tuple(c))), "prod3": (3, lambda c: p.Product(tuple(c))),
    "quot": (2, lambda c: p.Quotient(*c)), "fdiv": (2, lambda c: p.FloorDiv(*c)),
    "rem": (2, lambda c: p.Remainder(*c)), "pow": (2, lambda c: p.Power(*c)),
    "lsh": (2, lambda c: p.LeftShift(*c)), "rsh": (2, lambda c: p.RightShift(*c)),
    "bnot": (1, lambda c: p.BitwiseNot(*c)), "bor": (2, lambda c: p.BitwiseOr(tuple(c))),
    "bxor": (2, lambda c: p.BitwiseXor(tuple(c))), "band": (2, lambda c: p.BitwiseAnd(tuple(c))),
    "lnot": (1, lambda c: p.LogicalNot(*c)), "lor": (2, lambda c: p.LogicalOr(tuple(c))),
    "land": (2, lambda c: p.LogicalAnd(tuple(c))),
    "lt": (2, lambda c: p.Comparison(c[0], "<", c[1])), "le": (2, lambda c: p.Comparison(c[0], "<=", c[1])),
    "eq": (2, lambda c: p.Comparison(c[0], "==", c[1])), "ne": (2, lambda c: p.Comparison(c[0], "!=", c[1])),
    "gt": (2, lambda c: p.Comparison(c[0], ">", c[1])), "ge": (2, lambda c: p.Comparison(c[0], ">=", c[1])),
    "if": (3, lambda c: p.If(c[0], c[1], c[2])),
    "call": (2, lambda c: p.Call(F_, tuple(c))), "callfn": (1, lambda c: p.Call(c[0], (A,))),
    "callkw": (2, lambda c: p.CallWithKwargs(F_, (c[0],), immutabledict({"k": c[1]}))),
    "sub": (1, lambda c: p.Subscript(A, c[0])), "subagg": (1, lambda c: p.Subscript(c[0], B)),
    "subt": (2, lambda c: p.Subscript(A, tuple(c))),
    "tup0first": (1, lambda c: p.Call(F_, (((), c[0]),))),
    "tup0only": (1, lambda c: p.Call(F_, (((),), c[0]))),
    "subt0first": (1, lambda c: p.Subscript(A, ((), c[0]))),
    "subt1": (1, lambda c: p.Subscript(A, (c[0],))),
    "subt0": (1, lambda c: p.Sum((p.Subscript(A, ()), c[0]))),
    "subtnest": (1, lambda c: p.Subscript(A, ((c[0],),))),
    "slice2": (2, lambda c: p.Subscript(A, p.Slice(tuple(c)))),
    "slice3": (3, lambda c: p.Subscript(A, p.Slice(tuple(c)))),
    "look": (1, lambda c: p.Lookup(c[0], "attr")),
    "tupcall": (2, lambda c: p.Call(F_, (tuple(c),))),
    "tup1call": (1, lambda c: p.Call(F_, ((c[0],),))),
    "tup0call": (1, lambda c: p.Call(F_, ((), c[0]))),
    "tupnest": (2, lambda c: p.Call(F_, (((c[0], c[1]),), (c[0],)))),
    "tupkw": (2, lambda c: p.CallWithKwargs(F_, (), immutabledict({"k": (c[0], c[1]), "j": (c[1],)}))),
}
REDUCED = ["sum", "prod", "quot", "fdiv", "rem", "pow", "lsh", "bor", "bxor", "band", "lt", "lnot",
           "bnot", "if", "call", "sub", "look"]
FILL = [A, B, C]


def build(kind, children):
    return NODES[kind][1](children)


def leafy(kind):
    if kind in ATOMS:
        return ATOMS[kind]()
    n = NODES[kind][0]
    return build(kind, [FILL[i] for i in range(n)])


def has_regroup_site(e):
    """n-ary bitwise / logical node with arity != 2 or a same-type child (the parser builds
    left-nested binary nodes for | ^ & and or)"""
    for x in G.walk(e):
        if isinstance(x, (p.BitwiseOr, p.BitwiseXor, p.BitwiseAnd, p.LogicalOr, p.LogicalAnd)):
            if len(x.children) != 2 or any(type(c) is type(x) for c in x.children):
                return True
    return False


def regroup_key(e):
    """flat_key that additionally flattens the n-ary bitwise / logical operators"""
    NARY = (p.BitwiseOr, p.BitwiseXor, p.BitwiseAnd, p.LogicalOr, p.LogicalAnd, p.Sum, p.Product)
    if isinstance(e, NARY):
        out, stack = [], list(reversed(e.children))
        while stack:
            c = stack.pop()
            if type(c) is type(e):
                stack.extend(reversed(c.children))
            else:
                out.append(regroup_key(c))
        return (type(e).__name__ + "~flat", tuple(out))
    if isinstance(e, p.Expression):
        return (type(e).__name__, tuple((n, regroup_key(v)) for n, v in normal.node_fields(e)))
    if isinstance(e, tuple):
        return ("tuple", tuple(regroup_key(c) for c in e))
    if isinstance(e, (dict, immutabledict)):
        return ("map", tuple(sorted((k, regroup_key(v)) for k, v in e.items())))
    return normal.typed_key(e)


def has_short_tuple_index(e, n=(0, 1)):
    return any(isinstance(x, p.Subscript) and isinstance(x.index, tuple) and len(x.index) in n
               for x in G.walk(e))


def unwrap_indices(e):
    """every subscript index that is a one-element tuple replaced by that element (repeatedly)"""
    def go(x):
        if isinstance(x, p.Subscript):
            idx = x.index
            while isinstance(idx, tuple) and len(idx) == 1:
                idx = idx[0]
            return p.Subscript(go(x.aggregate), go(idx))
        if isinstance(x, p.Expression) and normal.is_expr_dataclass(type(x)):
            import dataclasses
            return type(x)(*[go(getattr(x, f.name)) for f in dataclasses.fields(x)])
        if isinstance(x, tuple):
            return tuple(go(c) for c in x)
        if isinstance(x, immutabledict):
            return immutabledict({k: go(v) for k, v in x.items()})
        return x
    return go(e)


@check("C06.roundtrip")
def c_roundtrip(ctx, case):
    (e,) = case
    ctx.case(None)
    ctx.count("roundtrips")
    try:
        s = str(e)
    except RecursionError:
        raise
    except Exception as ex:  # noqa: BLE001
        ctx.fail("C06.roundtrip", case, f"print-raised:{type(ex).__name__}",
                 f"str({G.src(e)}) raised {type(ex).__name__}: {ex}")
        return
    try:
        e2 = parse(s)
    except RecursionError:
        raise
    except Exception as ex:  # noqa: BLE001
        finding = None
        if has_short_tuple_index(e, (0,)) and "[]" in s \
                and type(ex).__name__ in ("ParseError", "AssertionError"):
            finding = KF_SUBTUPLE       # a[()] prints as 'a[]' (rejected; by an assert inside a slice)
        ctx.fail("C06.roundtrip", case, f"parse-raised:{type(ex).__name__}:{_edge(e)}",
                 f"{G.src(e)} prints as {s!r}, which the parser rejects: {type(ex).__name__}: {ex}",
                 finding=finding)
        return
    finding = None
    if normal.flat_key(e2) != normal.flat_key(e):
        if has_regroup_site(e) and regroup_key(e2) == regroup_key(e):
            finding = KF_REGROUP
        elif has_short_tuple_index(e, (1,)) \
                and regroup_key(unwrap_indices(e2)) == regroup_key(unwrap_indices(e)):
            finding = KF_SUBTUPLE
        ctx.fail("C06.roundtrip", case, f"tree:{_edge(e, e2)}",
                 f"{G.src(e)} prints as {s!r}, which parses to {G.src(e2)}", finding=finding)
        if finding is None:
            return
    s2 = str(e2)
    if s2 != s:
        f2 = None
        if finding == KF_SUBTUPLE and str(unwrap_indices(e2)) == str(unwrap_indices(e)):
            f2 = KF_SUBTUPLE    # a[((k,),)] -> 'a[(k,)]' -> a[(k,)] -> 'a[k]'
        ctx.fail("C06.roundtrip", case, f"reprint:{type(e).__name__}",
                 f"{G.src(e)} prints as {s!r}; the reparsed expression prints as {s2!r}", finding=f2)


def _dereference(e):
    """the tree with every application-defined node replaced by the stock tree it stands for"""
    import dataclasses
    if hasattr(e, "vf_reference"):
        return _dereference(e.vf_reference())
    if isinstance(e, tuple):
        return tuple(_dereference(c) for c in e)
    if isinstance(e, immutabledict):
        return immutabledict({k: _dereference(v) for k, v in e.items()})
    if isinstance(e, p.Expression) and dataclasses.is_dataclass(e):
        return type(e)(*[_dereference(getattr(e, f.name)) for f in dataclasses.fields(e)])
    return e


@check("C06.hook")
def c_hook(ctx, case):
    """A node type the stock printer does not know brings its own printer (the documented
    make_stringifier hook); the stock printer hands it the enclosing precedence, so that the
    text of the whole tree still parses to the tree's meaning."""
    (e,) = case
    ctx.case(None)
    ctx.count("hook_roundtrips")
    try:
        s = str(e)
        e2 = parse(s)
    except RecursionError:
        raise
    except Exception as ex:  # noqa: BLE001
        ctx.fail("C06.hook", case, f"raised:{type(ex).__name__}",
                 f"printing / re-parsing {G.src(e)} raised {type(ex).__name__}: {ex}")
        return
    want = _dereference(e)
    if normal.ac_key(e2) != normal.ac_key(want) \
            and regroup_key(unwrap_indices(e2)) != regroup_key(unwrap_indices(want)):
        ctx.fail("C06.hook", case, f"tree:{type(e).__name__}",
                 f"{G.src(e)} (an application-defined node with its own printer inside) prints "
                 f"as {s!r}, which parses to {G.src(e2)}; it stands for {G.src(want)}")


@check("C06.reread")
def c_reread(ctx, case):
    """Three steps on the one parser: the printed form is read, ANOTHER text is refused (leftover
    input after a complete expression; an incomplete expression), the printed form is read
    again: the same tree as the first time -- nothing a refused parse built comes back."""
    (e, junk) = case
    ctx.case(None)
    ctx.count("read_refuse_read_again")
    try:
        s = str(e)
        t1 = parse(s)
    except RecursionError:
        raise
    except Exception:  # noqa: BLE001
        return      # (C06.roundtrip judges printing / parsing by itself)
    for g in junk:
        try:
            parse(g.replace("$", s))
        except RecursionError:
            raise
        except Exception:  # noqa: BLE001
            ctx.count("refused_between_reads")
        try:
            t2 = parse(s)
        except RecursionError:
            raise
        except Exception as ex:  # noqa: BLE001
            ctx.fail("C06.reread", case, f"raised:{type(ex).__name__}",
                     f"parse({s!r}) worked, then {g!r} was refused, then parse({s!r}) raised {ex}")
            return
        if normal.typed_key(t2) != normal.typed_key(t1):
            ctx.fail("C06.reread", case, "tree-changed-after-refusal",
                     f"parse({s!r}) = {G.src(t1)}; after the refused parse of "
                     f"{g.replace('$', s)!r} the same call returns {G.src(t2)}")
            return


def _plainnum(x):
    import numpy as np
    if isinstance(x, np.bool_):
        return bool(x)
    if isinstance(x, np.integer):
        return int(x)
    if isinstance(x, np.floating):
        return float(x)
    return x


@check("C06.numpy")
def c_numpy(ctx, case):
    """numpy scalar constants print like the numbers they are: the text parses back to the
    same tree with the equal Python numbers in their place, and reprints identically"""
    (e,) = case
    ctx.case(None)
    ctx.count("numpy_constant_roundtrips")
    want = G.deep_rebuild(e, _plainnum)
    try:
        s = str(e)
        e2 = parse(s)
    except RecursionError:
        raise
    except Exception as ex:  # noqa: BLE001
        ctx.fail("C06.numpy", case, f"numpy:raised:{type(ex).__name__}",
                 f"{G.src(e)}: print/parse raised {type(ex).__name__}: {ex}")
        return
    if normal.flat_key(e2) != normal.flat_key(want):
        ctx.fail("C06.numpy", case, f"numpy:tree:{_edge(want, e2)}",
                 f"{G.src(e)} prints as {s!r}, which parses to {G.src(e2)}")
        return
    if str(e2) != s:
        ctx.fail("C06.numpy", case, "numpy:reprint", f"{G.src(e)} prints as {s!r}, reparsed prints {str(e2)!r}")


@check("C06.reuse")
def c_reuse(ctx, case):
    """One printer object used for many expressions, most of them short-lived (built in a loop
    and dropped): each text must be what a fresh printer gives for THAT expression."""
    seed, n = case
    from collections import Counter
    rng = ctx.sub_rng("reuse", seed)
    m = strmod.StringifyMapper()
    for i in range(n):
        e = rand_tree(rng, rng.randint(1, 4), Counter())
        if not isinstance(e, p.Expression):
            continue
        ctx.case(None)
        ctx.count("reused_printer_calls")
        try:
            got = m(e)
            want = strmod.StringifyMapper()(e)
        except RecursionError:
            raise
        except Exception as ex:  # noqa: BLE001
            ctx.fail("C06.reuse", case, f"reuse:raised:{type(ex).__name__}", f"{G.src(e)}: {ex}")
            return
        if got != want:
            ctx.fail("C06.reuse", case, "reuse:text-differs",
                     f"call {i} on one StringifyMapper object: {G.src(e)} printed as {got!r}; a "
                     f"fresh printer gives {want!r}")
            return
        if i % 7 == 3:
            # the expression just printed, now as a PART of the next ones (the same object)
            for e2 in (p.Product((e, p.Variable("z"))), p.Power(e, 2), p.Sum((e, 1))):
                ctx.count("reused_printer_calls")
                got, want = m(e2), strmod.StringifyMapper()(e2)
                if got != want:
                    ctx.fail("C06.reuse", case, "reuse:text-differs:grown",
                             f"one StringifyMapper object printed {G.src(e)}, then {G.src(e2)} built "
                             f"around that object as {got!r}; a fresh printer gives {want!r}")
                    return
        del e


def _edge(e, e2=None):
    """(parent, position, child) types of the first place where the trees diverge"""
    if e2 is None or type(e) is not type(e2) or not isinstance(e, p.Expression):
        return f"{type(e).__name__}->{type(e2).__name__ if e2 is not None else '?'}"
    for (n1, v1), (n2, v2) in zip(normal.node_fields(e), normal.node_fields(e2)):
        if normal.flat_key(v1) != normal.flat_key(v2):
            if isinstance(v1, tuple) and isinstance(v2, tuple) and len(v1) == len(v2):
                for i, (c1, c2) in enumerate(zip(v1, v2)):
                    if normal.flat_key(c1) != normal.flat_key(c2):
                        return f"{type(e).__name__}.{n1}[{i}]:{_edge(c1, c2)}"
            return f"{type(e).__name__}.{n1}:{_edge(v1, v2) if isinstance(v1, p.Expression) else type(v1).__name__}"
    return type(e).__name__


def rand_tree(rng, d, hist):
    if d <= 0 or rng.random() < 0.18:
        k = rng.choice(list(ATOMS) + ["var"] * 6)
        if k == "var":
            return p.Variable(rng.choice("abcxyz"))
        return ATOMS[k]()
    kind = rng.choice(list(NODES))
    n = NODES[kind][0]
    kids = [rand_tree(rng, d - 1, hist) for _ in range(n)]
    if kind in ("slice2", "slice3") and rng.random() < 0.3:
        kids[rng.randrange(n)] = None
        if all(k is None for k in kids):
            kids[0] = A
    if kind in ("callfn", "subagg") and not isinstance(kids[0], p.Expression):
        kids[0] = A
    if kind == "look" and not isinstance(kids[0], p.Expression):
        kids[0] = A
    e = build(kind, kids)
    hist[type(e).__name__] += 1
    return e


def workload(ctx):
    rng = ctx.rng
    with HandlerTrace([strmod, parsemod]) as tr:
        # exhaustive (parent, position, child)
        kinds = list(NODES)
        children_kinds = list(NODES) + list(ATOMS)
        n = 0
        for parent in kinds:
            arity = NODES[parent][0]
            for pos in range(arity):
                for child in children_kinds:
                    if not ctx.mine("edges"):
                        continue
                    if parent in ("callfn", "subagg", "look") and child in ATOMS and child != "var":
                        continue    # a number as callee / aggregate: not expressible as a tree print
                    kids = [FILL[i] for i in range(arity)]
                    kids[pos] = leafy(child)
                    e = build(parent, kids)
                    ctx.case(normal.typed_key(e), child not in ATOMS, n=0)
                    ctx.count("exhaustive_edges")
                    if n < 2:
                        ctx.sample("edge", f"{parent}[{pos}] <- {child}: {e}")
                    n += 1
                    ctx.run("C06.roundtrip", (e,))
        ctx.set_exhaustive("(parent type, child position, child type)")
        # every pattern of omitted parts of 2- and 3-part slices, in every index position
        for nparts in (2, 3):
            for pat in itertools.product([False, True], repeat=nparts):
                sl = p.Slice(tuple(FILL[i] if keep else None for i, keep in enumerate(pat)))
                for e in (p.Subscript(A, sl), p.Subscript(A, (sl, B)), p.Subscript(A, (B, sl)),
                          p.Subscript(A, (sl, sl)), p.Sum((p.Subscript(A, sl), 1))):
                    if ctx.mine("slices"):
                        ctx.case(normal.typed_key(e), True, n=0)
                        ctx.count("slice_patterns")
                        ctx.run("C06.roundtrip", (e,))
        # three-level nestings over the reduced alphabet
        stride = ctx.pick(6, 1)
        idx = 0
        for top in REDUCED:
            at = NODES[top][0]
            for tpos in range(at):
                for mid in REDUCED:
                    am = NODES[mid][0]
                    for mpos in range(am):
                        for bot in REDUCED:
                            idx += 1
                            if idx % stride or not ctx.mine("three"):
                                continue
                            mk = [FILL[i] for i in range(am)]
                            mk[mpos] = leafy(bot)
                            tk = [FILL[i] for i in range(at)]
                            tk[tpos] = build(mid, mk)
                            e = build(top, tk)
                            ctx.case(normal.typed_key(e), True, n=0)
                            ctx.count("three_level")
                            ctx.run("C06.roundtrip", (e,))
        ctx.set_exhaustive("three-level nestings over the reduced alphabet", stride == 1)
        # scale: nodes of 9 .. 130 operands with ONE operand of every kind at the first, a
        # middle and the last position (the printer's per-operand parenthesis rules past any
        # fast path for wide nodes); long names; constants past 2**63
        wide_mk = {"sum": lambda c: p.Sum(c), "prod": lambda c: p.Product(c),
                   "bor": lambda c: p.BitwiseOr(c), "bxor": lambda c: p.BitwiseXor(c),
                   "band": lambda c: p.BitwiseAnd(c), "lor": lambda c: p.LogicalOr(c),
                   "land": lambda c: p.LogicalAnd(c), "call": lambda c: p.Call(F_, c),
                   "subt": lambda c: p.Subscript(A, c), "tupcall": lambda c: p.Call(F_, (c, A))}
        widths = [9, 17, 33, 66] if not ctx.thorough else scale.WIDTHS
        for w in widths:
            vs = scale.variables(w)
            for pk, mk in wide_mk.items():
                for child in [k for k in children_kinds if k in REDUCED or k in ATOMS]:
                    for pos in (0, w // 2, w - 1):
                        if not ctx.mine("wide"):
                            continue
                        kids = list(vs)
                        kids[pos] = leafy(child)
                        e = mk(tuple(kids))
                        ctx.case(("wide", pk, child, pos, w), True, n=0)
                        ctx.count("wide_nodes")
                        ctx.run("C06.roundtrip", (e,))
        for n_ in scale.NAME_LENGTHS:
            nm = scale.name(rng, n_)
            for e in (p.Sum((p.Variable(nm), 1)), p.Call(p.Variable(nm), (p.Variable(nm + "_2"),)),
                      p.Lookup(A, nm), p.CallWithKwargs(F_, (), immutabledict({nm: B})),
                      p.Product((scale.big(rng), p.Variable(nm))),
                      p.Power(p.Variable(nm), scale.big(rng, False))):
                if ctx.mine("names"):
                    ctx.case(normal.typed_key(e), True, n=0)
                    ctx.count("long_names_and_big_constants")
                    ctx.run("C06.roundtrip", (e,))
        # an application-defined node with its own printer in every (parent, position)
        from .. import usertypes as U
        for parent in kinds:
            arity = NODES[parent][0]
            if parent in ("callfn", "subagg", "look", "subt0"):
                continue        # (subt0: a[()] prints as a[] -- the recorded finding)
            for pos in range(arity):
                for ub in (U.UBiased(A, B), U.UBiased(p.Product((A, 2)), -1),
                           U.UBiased(U.UBiased(A, 1), B)):
                    if not ctx.mine("hook"):
                        continue
                    kids = [FILL[i] for i in range(arity)]
                    kids[pos] = ub
                    e = build(parent, kids)
                    ctx.case(("hook", parent, pos, normal.typed_key(_dereference(ub))), True, n=0)
                    ctx.run("C06.hook", (e,))
                    ctx.run("C06.hook", (p.Product((C, p.Power(e, 2))),))
        junks = [["$ )", "x y"], ["(a - b) // c )", "$ zz"], ["a +", "$ ]"], ["f(a) g(b)", "1 2"]]
        for i in range(ctx.per_shard(ctx.pick(60, 1200))):
            e = rand_tree(rng, rng.randint(1, 3), ctx.hist)
            if isinstance(e, p.Expression):
                ctx.run("C06.reread", (e, junks[i % len(junks)]))
        # random deep trees
        for i in range(ctx.per_shard(ctx.pick(4000, 80000))):
            e = rand_tree(rng, rng.randint(2, ctx.pick(5, 7)), ctx.hist)
            if not isinstance(e, p.Expression):
                continue
            ctx.case(normal.typed_key(e), normal.count_ops(e) >= 2, n=0)
            if i < 3:
                ctx.sample("random-deep", str(e))
            ctx.run("C06.roundtrip", (e,))
        import numpy as np
        npc = [np.int64(7), np.int32(-3), np.float64(1.5), np.float64(-2.5), np.float32(0.5),
               np.bool_(True), np.int64(2 ** 40), np.float64(1e+20)]
        for kind in REDUCED + ["sum3", "callkw", "subt", "slice2"]:
            arity = NODES[kind][0]
            for pos in range(arity):
                for c in npc:
                    if not ctx.mine("numpy"):
                        continue
                    if kind in ("callfn", "subagg", "look"):
                        continue
                    kids = [FILL[i] for i in range(arity)]
                    kids[pos] = c
                    e = build(kind, kids)
                    ctx.case(("np", normal.typed_key(e)), True, n=0)
                    ctx.run("C06.numpy", (e,))
        # depth: every node kind nested in itself at every operand position, 3 .. 8 levels (and
        # 20, 64 for the binary operators): a ** b ** c ** d, a - (b - (c - d)), not not not a,
        # f(f(f(a))), a[a[a[b]]], x if (y if ... else ...) else ...
        for kind in kinds:
            arity = NODES[kind][0]
            for pos in range(arity):
                for depth in (3, 4, 5, 6, 8) + ((20, 64) if kind in REDUCED else ()):
                    if not ctx.mine("towers"):
                        continue
                    e = D
                    for lvl in range(depth):
                        kids = [FILL[(i + lvl) % 3] for i in range(arity)]
                        kids[pos] = e
                        e = build(kind, kids)
                    ctx.case(("tower", kind, pos, depth), True, n=0)
                    ctx.count("towers_of_one_kind")
                    ctx.run("C06.roundtrip", (e,))
        # sharing: ONE composite object at two places of the tree whose contexts differ (a tree
        # built by a program that names a sub-expression and uses it twice; the parser and the
        # generators above only ever make equal copies)
        for child in [k for k in children_kinds if k in REDUCED]:
            s_ = leafy(child)
            if not isinstance(s_, p.Expression):
                continue
            for j, e in enumerate(scale.shared_contexts(s_, 3, C, p.Comparison(C, ">", 0))):
                if ctx.mine("shared"):
                    ctx.case(("shared", child, j), True, n=0)
                    ctx.count("shared_node_trees")
                    ctx.run("C06.roundtrip", (e,))
        for i in range(ctx.per_shard(ctx.pick(1500, 30000))):
            r2 = ctx.sub_rng("graft", i)
            e = rand_tree(r2, r2.randint(2, 5), ctx.hist)
            e = scale.graft(e, r2) if isinstance(e, p.Expression) else None
            if e is None:
                continue
            ctx.case(("graft", normal.typed_key(e)), True, n=0)
            ctx.count("shared_node_trees")
            ctx.run("C06.roundtrip", (e,))
        for i in range(ctx.per_shard(ctx.pick(16, 160))):
            ctx.case(("reuse", ctx.seed, ctx.shard, i), True, n=0)
            ctx.run("C06.reuse", ((ctx.seed, ctx.shard, i), 60))
        for k, v in tr.handlers().items():
            ctx.count("handler:" + k, v)
    ctx.floor("wide_nodes", 2000)
    ctx.floor("shared_node_trees", 600)
    ctx.floor("towers_of_one_kind", 400)
    ctx.floor("refused_between_reads", 80)
    ctx.floor("hook_roundtrips", 300)
    ctx.floor("long_names_and_big_constants", 60)
    ctx.floor("reused_printer_calls", 500)
    ctx.floor("numpy_constant_roundtrips", 200)
    ctx.floor("slice_patterns", 60)
    ctx.floor("exhaustive_edges", 1500)
    ctx.floor("three_level", 2000)
    ctx.floor("roundtrips", 8000)


RULE = RULE + '  Later additions: every node kind nested in itself at every position (3-64 levels); one object at two places whose contexts differ; read-refuse-read on the parser.'
