"""C07 — the parser reads the syntax it shares with Python the way Python does."""
from __future__ import annotations

import ast
import itertools

import pytools.lex

import pymbolic.primitives as p
from pymbolic import parse
from pymbolic.interop.ast import ASTToPymbolic
import pymbolic.parser as parsemod

from ..core import check, short
from ..gen import expr as G
from ..gen import scale
from ..mon.trace import HandlerTrace
from ..ref import normal, refsem

RULE = ("strings rendered from token skeletons: EXHAUSTIVELY every ordered pair of the 20 binary "
        "operators (+ - * / // % ** << >> & | ^ < <= == != > >= and or), every (prefix, binary) and "
        "(binary, prefix) combination of - + ~ not, prefix pairs, conditionals combined with every "
        "operator in each position, and (quick: 1 in 8; thorough: all) ordered triples; literal forms "
        "(ints, floats with exponents, True/False, names that start with a keyword), postfix chains "
        "with calls, keyword arguments, subscripts, attributes, tuples and trailing commas; random "
        "longer strings with random parenthesisation; ungrammatical strings.  Each string is "
        "evaluated through parse() on a box of environments and compared with Python's own "
        "eval() (BoolOp operands wrapped in bool(), since the IR's connectives are truth-valued); "
        "the importer's tree for ast.parse(s) must evaluate the same.  distinct = the string; "
        "non-trivial = >=2 operators.")
ASSUMPTIONS = [
    "and/or are truth-valued in the IR: Python's operands are wrapped in bool() before comparing",
    "the importer may refuse (NotImplementedError) exactly the constructs it declares unsupported: "
    "unary plus, and/or, is/in comparisons, slices, starred and display nodes",
]
KF_CHAIN = "C07-chained-comparison"
KF_IMAG = "C07-number-with-letter-tag"

BIN = ["+", "-", "*", "/", "//", "%", "**", "<<", ">>", "&", "|", "^", "<", "<=", "==", "!=", ">",
       ">=", "and", "or"]
PRE = ["-", "+", "~", "not "]
PARSE_ERRORS = (pytools.lex.ParseError, pytools.lex.InvalidTokenError)


class BoolWrap(ast.NodeTransformer):
    def visit_BoolOp(self, n):
        self.generic_visit(n)
        n.values = [ast.Call(ast.Name("bool", ast.Load()), [v], []) for v in n.values]
        return n


class GuardPow(ast.NodeTransformer):
    """a ** b -> _vf_pow(a, b), a << b -> _vf_lsh(a, b): same operands in the same order, same
    result, but a value with millions of bits is refused (TooCostly) instead of computed."""
    def visit_BinOp(self, n):
        self.generic_visit(n)
        if isinstance(n.op, ast.Pow):
            return ast.Call(ast.Name("_vf_pow", ast.Load()), [n.left, n.right], [])
        if isinstance(n.op, ast.LShift):
            return ast.Call(ast.Name("_vf_lsh", ast.Load()), [n.left, n.right], [])
        return n


class ChainSplit(ast.NodeTransformer):
    """a < b < c  ->  (a < b) and (b < c)  [same Python meaning for side-effect free operands]"""
    def visit_Compare(self, n):
        self.generic_visit(n)
        if len(n.ops) > 1:
            parts, left = [], n.left
            for op, right in zip(n.ops, n.comparators):
                parts.append(ast.Compare(left, [op], [right]))
                left = right
            return ast.BoolOp(ast.And(), parts)
        return n


_pycache = {}


def pyval(s, env):
    if s not in _pycache:
        t = GuardPow().visit(BoolWrap().visit(ast.parse(s, mode="eval")))
        ast.fix_missing_locations(t)
        _pycache[s] = compile(t, "<s>", "eval")
    try:
        return ("v", eval(_pycache[s], {"bool": bool, "_vf_pow": refsem._pow,
                                        "_vf_lsh": refsem._lshift, "__builtins__": {}}, dict(env)))
    except RecursionError:
        raise
    except Exception as e:  # noqa: BLE001
        return ("exc", type(e).__name__)


def _val(x):
    if isinstance(x, tuple):
        return sum((i + 2) * _val(e) for i, e in enumerate(x)) + 11
    if isinstance(x, slice):    # every part counts, an omitted part differs from any number
        return 7 + sum((i + 3) * (17 if v is None else _val(v))
                       for i, v in enumerate((x.start, x.stop, x.step)))
    return x


def fn_f(*a, **k):
    """numeric, order-sensitive in positional arguments, sensitive to the keywords' names AND
    to the order in which they are handed over (PEP 468: source order)"""
    return _val(a) + sum((i + 1) * len(kk) * 13 * _val(v) + 1 for i, (kk, v) in enumerate(k.items()))


class Ob:
    w = 5
    attr = 7

    def __getitem__(self, i):
        return 100 + _val(i)


def make_envs(rng, n, small):
    vals = [-2, -1, 0, 1, 2] if small else [-2, -1, 0, 1, 2, 3]
    out = []
    for _ in range(n):
        e = {k: rng.choice(vals) for k in "abcde"}
        e.update(f=fn_f, g=fn_f, o=Ob(), x=rng.choice(vals), Truex=4, iffy=2, nota=1, orb=3, andc=6,
                 e1=9, d1=8)
        out.append(e)
    return out


def has_chain(s):
    try:
        return any(isinstance(n, ast.Compare) and len(n.ops) > 1
                   for n in ast.walk(ast.parse(s, mode="eval")))
    except SyntaxError:
        return False


def repaired(s):
    t = ChainSplit().visit(ast.parse(s, mode="eval"))
    ast.fix_missing_locations(t)
    return ast.unparse(t)


def compare_values(pv, mv):
    if pv[0] != mv[0]:
        return False
    if pv[0] == "exc":
        return pv[1] == mv[1]
    a, b = pv[1], mv[1]
    num = (int, float, complex)
    if isinstance(a, num) and isinstance(b, num):
        # the same tokens and the same operators give the same KIND of number: 9 is not 9.0,
        # 3 ** 40.0 + 1 is a rounded float and not the exact integer
        kind = lambda v: int if isinstance(v, int) else type(v)  # noqa: E731  (+True is 1: the
        if kind(a) is not kind(b):                               # parser has no unary-plus node)
            return False
        if isinstance(a, int):
            return a == b
    return refsem.values_equal(a, b) or a == b


def agree(tree, s, envs):
    """first environment where the pymbolic tree and Python's eval disagree, or None"""
    for env in envs:
        pv = pyval(s, env)
        mv = refsem.outcome(lambda: refsem.ev(tree, env))
        if mv[0] == "unk":
            mv = ("exc", "NameError")
        if not compare_values(pv, mv):
            return ({k: v for k, v in env.items() if k in "abcdex"}, pv, mv)
    return None


NOTIMPL_OK = (ast.UAdd, ast.BoolOp, ast.Slice, ast.Starred, ast.List, ast.Dict, ast.Set)


def importer_may_refuse(s):
    t = ast.parse(s, mode="eval")
    for n in ast.walk(t):
        if isinstance(n, NOTIMPL_OK):
            return True
        if isinstance(n, ast.Compare) and any(isinstance(o, (ast.Is, ast.IsNot, ast.In, ast.NotIn))
                                              for o in n.ops):
            return True
        if isinstance(n, ast.BinOp) and isinstance(n.op, ast.MatMult):
            return True
    return False


@check("C07.string")
def c_string(ctx, case):
    s, seed = case
    try:
        ast.parse(s, mode="eval")
    except SyntaxError:
        ctx.count("not_python")
        return
    rng = ctx.sub_rng("envs", seed, s)
    envs = make_envs(rng, 10, s.count("**") >= 2 or ("**" in s and "<<" in s))
    ctx.case(None)
    ctx.count("strings_compared")
    try:
        tree = parse(s)
    except RecursionError:
        raise
    except Exception as ex:  # noqa: BLE001
        if not isinstance(ex, PARSE_ERRORS) and all(pyval(s, env)[0] == "exc" for env in envs):
            ctx.count("type_invalid_everywhere")     # e.g. -(a, b): Python raises at run time too
            return
        finding = KF_IMAG if _has_imag(s) else None
        ctx.fail("C07.string", case, f"parse-raised:{type(ex).__name__}",
                 f"parse({s!r}) raised {type(ex).__name__}: {ex} (valid Python expression)",
                 finding=finding)
        tree = None
    if tree is not None:
        bad = agree(tree, s, envs)
        if bad is not None:
            finding = None
            if has_chain(s):
                s2 = repaired(s)
                try:
                    if agree(parse(s2), s2, envs) is None:
                        finding = KF_CHAIN
                except Exception:  # noqa: BLE001
                    finding = None
            ctx.fail("C07.string", case, f"value:{_opsig(s)}",
                     f"{s!r}: parse() gives {tree!r}; env {bad[0]}: it evaluates to {short(bad[2])}, "
                     f"Python's eval gives {short(bad[1])}", finding=finding)
    # importer
    ctx.count("importer_calls")
    try:
        node = ast.parse(s, mode="eval")
        before = ast.dump(node)
        from .c13 import _refused_imports
        prob = _refused_imports(ctx)      # ... after imports that were refused and caught
        if prob:
            ctx.fail("C07.string", case, "importer:after-refused-import", prob)
        imp = ASTToPymbolic()(node.body)
        stray = [n_ for n_ in G.variables_of(imp) if n_.startswith("zz_") and n_ not in s]
        if stray:
            ctx.fail("C07.string", case, "importer:names-from-elsewhere",
                     f"{s!r}: the importer gives {imp!r}, which mentions {sorted(stray)} -- names of "
                     f"imports that were refused (and caught) earlier")
        # "Python's parse of the same string" is the caller's: the importer reads it, so that
        # a second import of the same ast object (same or another importer) gives the same tree
        imp2 = ASTToPymbolic()(node.body)
        ctx.count("importer_second_import_of_same_ast")
        if ast.dump(node) != before or not normal.typed_eq(imp, imp2):
            ctx.fail("C07.string", case, f"importer-modified-ast:{_opsig(s)}",
                     f"{s!r}: importing Python's ast changed it: {before} became {ast.dump(node)}; "
                     f"first import {imp!r}, second import of the same object {imp2!r}")
        # Python's ast with ONE node object wherever the string has equal sub-expressions (what
        # ast.NodeTransformer substitution produces; for compile() it is the same expression)
        shared, nshared = _interned(ast.parse(s, mode="eval"))
        if nshared:
            ctx.count("importer_ast_with_shared_nodes")
            imp3 = ASTToPymbolic()(shared.body)
            if not normal.typed_eq(imp, imp3):
                ctx.fail("C07.string", case, f"importer-shared-ast-nodes:{_opsig(s)}",
                         f"{s!r}: from Python's ast the importer gives {imp!r}; from the same ast with "
                         f"equal sub-expressions represented by one node object it gives {imp3!r}")
    except NotImplementedError:
        ctx.count("importer_refused")
        if not importer_may_refuse(s):
            ctx.fail("C07.string", case, f"importer-refused:{_opsig(s)}",
                     f"ASTToPymbolic refused {s!r} although it contains none of the constructs it "
                     f"declares unsupported")
        return
    except RecursionError:
        raise
    except Exception as ex:  # noqa: BLE001
        if all(pyval(s, env)[0] == "exc" for env in envs):
            ctx.count("type_invalid_everywhere")
            return
        ctx.fail("C07.string", case, f"importer-raised:{type(ex).__name__}",
                 f"ASTToPymbolic on {s!r} raised {type(ex).__name__}: {ex}")
        return
    bad = agree(imp, s, envs)
    if bad is not None:
        ctx.fail("C07.string", case, f"importer-value:{_opsig(s)}",
                 f"{s!r}: the importer gives {imp!r}; env {bad[0]}: {short(bad[2])} vs Python "
                 f"{short(bad[1])}")
    elif tree is not None and _struct(tree) != _struct(imp) and not has_chain(s):
        ctx.count("parser_importer_trees_differ_but_agree_in_value")


def _interned(tree):
    """the ast with structurally equal expression nodes (operands, not operators or contexts)
    replaced by the first of them; how many nodes were replaced"""
    seen = {}
    n = [0]

    class Intern(ast.NodeTransformer):
        def generic_visit(self, node):
            node = super().generic_visit(node)
            if isinstance(node, ast.expr) and not isinstance(node, (ast.Constant,)):
                k = ast.dump(node)
                if k in seen:
                    n[0] += 1
                    return seen[k]
                seen[k] = node
            return node
    return Intern().visit(tree), n[0]


def _has_imag(s):
    try:
        return any(isinstance(n, ast.Constant) and isinstance(n.value, complex)
                   for n in ast.walk(ast.parse(s, mode="eval")))
    except SyntaxError:
        return False


def _struct(e):
    return normal.ac_key(e)


def _opsig(s):
    toks = [t for t in s.replace("(", " ").replace(")", " ").split() if t in BIN or t in ("not", "if", "else", "~")]
    return ",".join(toks[:3]) or "atom"


MACROS = {"M": "a+b", "N": "M*M if c else d", "K": "f(M, k=N)", "P": "-a**2"}


def _macro_parser():
    from pymbolic.parser import Parser

    class MacroParser(Parser):
        """expands macro names by calling THIS parser object again, in the middle of a parse
        (parse_terminal is the documented hook for new terminals)"""

        def parse_terminal(self, pstate):
            if (not pstate.is_at_end() and pstate.next_tag() == "identifier"
                    and pstate.next_str() in MACROS):
                return self(MACROS[pstate.next_str_and_advance()])
            return super().parse_terminal(pstate)
    return MacroParser()


def _written_out(s):
    import re
    for _ in range(3):
        s = re.sub(r"\b(" + "|".join(MACROS) + r")\b", lambda m: "(" + MACROS[m.group(1)] + ")", s)
    return s


@check("C07.reentrant")
def c_reentrant(ctx, case):
    """The parser re-entered while it is running (a derived parser whose terminal hook parses a
    macro body with the same object): the outer parse still consumes its whole input or raises,
    and gives the tree of the written-out text."""
    (s,) = case
    ctx.case(None)
    ctx.count("reentrant_parses")
    mp = _macro_parser()
    flat = _written_out(s)

    def run(fn, text):
        try:
            return ("v", fn(text))
        except PARSE_ERRORS as ex:
            return ("refused", type(ex).__name__)
        except RecursionError:
            raise
        except Exception as ex:  # noqa: BLE001
            return ("exc", type(ex).__name__)
    want, got = run(parse, flat), run(mp, s)
    again = run(mp, s)
    for g, which in ((got, "first call"), (again, "second call on the same parser")):
        if g[0] != want[0] or (g[0] == "v" and not normal.typed_eq(g[1], want[1])):
            ctx.fail("C07.reentrant", case, f"reentrant:{want[0]}->{g[0]}",
                     f"{s!r} with macros {MACROS} expanded by re-entering the parser ({which}): "
                     f"{short(g)}; the written-out text {flat!r} gives {short(want)}")
            return


@check("C07.manyrefusals")
def c_manyrefusals(ctx, case):
    """MANY refused inputs in a row on the one module-level parser -- each left off with brackets
    open, a call or a subscript unfinished; among them one nested far too deeply -- and then
    valid strings again: the same trees as before, whatever accumulated."""
    (n_refused,) = case
    valid = ["(x + 1) * y", "(((x + 1) * y) - 2)", "f((x, 1), (y))", "m[(x + 1) * (y - (2))]", "((((((x))))))",
             "[x, (y, [z])]" if False else "(x, (y, (z,)))"]
    before = [repr(parse(s)) for s in valid]
    opened = ["((((((((x + ", "(x y)", "f((x, 1)", "((x)) + (((y", "m[(x + (y", "(((((((((((((((((x", "f(g(h((x",
              "(x +", "((1, 2), (3", "(" * 40 + "x"]
    refused = 0
    for i in range(n_refused):
        try:
            parse(opened[i % len(opened)])
        except RecursionError:
            refused += 1
        except Exception:  # noqa: BLE001
            refused += 1
    for deep in ("(" * 3000 + "x" + ")" * 3000, "(" * 5000 + "x"):
        try:
            parse(deep)
        except RecursionError:
            refused += 1
        except Exception:  # noqa: BLE001
            refused += 1
    ctx.case(None)
    ctx.count("refused_inputs_in_a_row", refused)
    for s, b in zip(valid, before):
        try:
            after = repr(parse(s))
        except RecursionError:
            raise
        except Exception as ex:  # noqa: BLE001
            ctx.fail("C07.manyrefusals", case, f"refused-after-refusals:{type(ex).__name__}",
                     f"after {refused} refused inputs (brackets left open, one nested 3000 deep) the "
                     f"valid {s!r} is refused: {type(ex).__name__}: {ex}")
            return
        if after != b:
            ctx.fail("C07.manyrefusals", case, "tree-changed-after-refusals",
                     f"after {refused} refused inputs {s!r} parses to {after}, before: {b}")
            return


@check("C07.garbage")
def c_garbage(ctx, case):
    (s,) = case
    if _pymbolic_only_syntax(s):
        ctx.count("garbage_outside_shared_syntax_skipped")
        return
    ctx.case(None)
    ctx.count("garbage_strings")
    try:
        r = parse(s)
    except PARSE_ERRORS:
        ctx.count("parse_errors_raised")
        return
    except RecursionError:
        raise
    except Exception as ex:  # noqa: BLE001
        import re
        if isinstance(ex, TypeError) and "unary" in str(ex):
            # '-(a, b))': the sign is applied to the tuple while the tree is built, before the
            # stray token is reached -- Python's own '-(a, b)' is a TypeError as well.  Refused,
            # just not with the parse error; outside the shared syntax.
            ctx.count("garbage_refused_with_type_error")
            return
        finding = KF_IMAG if isinstance(ex, ValueError) and re.search(r"[0-9][A-Za-z]", s) else None
        ctx.fail("C07.garbage", case, f"wrong-error:{type(ex).__name__}",
                 f"parse({s!r}) raised {type(ex).__name__}: {ex} instead of the parser's ParseError",
                 finding=finding)
        return
    ctx.fail("C07.garbage", case, "accepted",
             f"parse({s!r}) returned {r!r} although the string is not an expression (trailing / "
             f"missing tokens)")


class _Dialect(parsemod.Parser):
    """a user dialect: same tokens, ^ means power (right-associative, above unary minus)"""

    def parse_postfix(self, pstate, min_precedence, left_exp):
        if pstate.is_next(parsemod._bitwisexor) and parsemod._PREC_POWER > min_precedence:
            pstate.advance()
            right = self.parse_expression(pstate, parsemod._PREC_POWER)
            return p.Power(left_exp, right), True
        return super().parse_postfix(pstate, min_precedence, left_exp)


@check("C07.history")
def c_history(ctx, case):
    """The parser object carries no state from one string to the next: the trees of valid
    strings are the same before and after any number of rejected strings."""
    valid, bad = case
    before = [repr(parse(s)) for s in valid]
    # other grammars derived from the same Parser class read the same strings in between
    # (in-tree: the Maxima dialect, where ^ is a power; a user subclass with its own lex table)
    try:
        from pymbolic.interop.maxima import MaximaParser
        dialects = [MaximaParser(), _Dialect()]
    except Exception:  # noqa: BLE001
        dialects = [_Dialect()]
    # strings the module-level parser has never seen in this process (odd spacing), read by the
    # dialects FIRST and then judged against Python like any other string
    fresh = ["a   ^  b", "a  ^ b  **  c |   d", "2   ^    3", "a  ^   b ^  c", "-a   ^ 2"]
    for d in dialects:
        for s in valid + fresh:
            try:
                d(s)
                ctx.count("dialect_parses_between")
            except RecursionError:
                raise
            except Exception:  # noqa: BLE001
                pass
    for s in fresh:
        c_string(ctx, (s, 0))
    n = 0
    for g in bad:
        try:
            parse(g)
        except RecursionError:
            raise
        except Exception:  # noqa: BLE001
            n += 1
    ctx.count("rejected_between_valid", n)
    for s, b in zip(valid, before):
        ctx.case(None)
        ctx.count("valid_after_rejections")
        try:
            after = repr(parse(s))
        except RecursionError:
            raise
        except Exception as ex:  # noqa: BLE001
            ctx.fail("C07.history", case, f"valid-rejected-after-failures:{type(ex).__name__}",
                     f"parse({s!r}) succeeded on the fresh parser but raised {type(ex).__name__}: "
                     f"{ex} after {n} rejected strings on the same parser object")
            continue
        if after != b:
            ctx.fail("C07.history", case, "tree-changed-after-failures",
                     f"parse({s!r}) = {b} before and {after} after {n} rejected strings")
    # three steps on the one parser object: a string is read, ONE other string is refused (for
    # leftover input after a complete expression, or inside an expression), the first string is
    # read again -- whatever the refused parse had built must not come back
    junk = ["(a - b) // c )", "x y", "a + b)", "f(a) g(b)", "a +", "1 2", "o[a]]", "a if b"]
    for i, (s, b) in enumerate(zip(valid, before)):
        for g in (junk[i % len(junk)], junk[(i + 3) % len(junk)], s + " )", s + " zz"):
            ctx.case(None)
            ctx.count("read_refuse_read_again")
            try:
                first = repr(parse(s))
                try:
                    parse(g)
                except RecursionError:
                    raise
                except Exception:  # noqa: BLE001
                    pass
                again = repr(parse(s))
            except RecursionError:
                raise
            except Exception as ex:  # noqa: BLE001
                ctx.fail("C07.history", case, f"read-refuse-read:{type(ex).__name__}",
                         f"parse({s!r}), a refused parse({g!r}), parse({s!r}) again raised {ex}")
                continue
            if first != b or again != b:
                ctx.fail("C07.history", case, "tree-changed-after-one-refusal",
                         f"parse({s!r}) = {b}; after the refused parse({g!r}) the same call "
                         f"returns {again}")


ATOM = ["a", "b", "c", "d", "1", "2", "0", "x"]


def respell(s, how):
    """The same token sequence written differently: 'dense' puts no blank between two tokens
    unless both are words (names, numbers, keywords) -- `not-a`, `a and-b`, `a if b else-c`,
    `(a)if(b)else(c)` are all Python; 'wide' separates all tokens by two blanks / a tab."""
    import io
    import tokenize
    try:
        toks = [t for t in tokenize.generate_tokens(io.StringIO(s).readline)
                if t.type not in (tokenize.NEWLINE, tokenize.ENDMARKER, tokenize.NL)]
    except (tokenize.TokenError, SyntaxError, IndentationError):
        return None
    out = ""
    wordy = lambda t: t.type in (tokenize.NAME, tokenize.NUMBER)  # noqa: E731
    for i, t in enumerate(toks):
        if i:
            if how == "wide":
                out += "  " if i % 2 else "\t"
            elif wordy(toks[i - 1]) and wordy(t):
                out += " "
            elif toks[i - 1].type == tokenize.NUMBER and t.string == ".":
                out += " "      # `1 .real`
        out += t.string
    return out


BIG_LITERALS = ["9223372036854775807", "9223372036854775808", "18446744073709551616",
                "100000000000000000000", "1000000000000000000", "999999999999999999",
                "1234567890123456789", "12345678901234567890123456789012345678",
                str(2**100), str(10**36), str(10**36 + 1), str(3**80), str(2**127 - 1),
                "1180591620717411303424", "340282366920938463463374607431768211456",
                "123456789012345678901234567890.5", "0.12345678901234567890123456789",
                "1e308", "1.7976931348623157e308", "5e-324", "123456789012345678e3",
                "00" if False else "0", "0.0000000000000000000000001"]


def rand_string(rng, d):
    if d <= 0 or rng.random() < 0.25:
        return rng.choice(ATOM)
    u = rng.random()
    if u < 0.55:
        s = f"{rand_string(rng, d - 1)} {rng.choice(BIN)} {rand_string(rng, d - 1)}"
    elif u < 0.7:
        s = f"{rng.choice(PRE)}{rand_string(rng, d - 1)}"
    elif u < 0.8:
        s = f"{rand_string(rng, d - 1)} if {rand_string(rng, d - 1)} else {rand_string(rng, d - 1)}"
    elif u < 0.86:
        s = f"f({rand_string(rng, d - 1)}, k={rand_string(rng, d - 1)})"
    elif u < 0.92:
        s = f"o[{rand_string(rng, d - 1)}]"
    elif u < 0.96:
        s = f"f({rand_string(rng, d - 1)}, {rand_string(rng, d - 1)})"
    else:   # tuples only where Python can use them: as an argument or an index
        t = f"({rand_string(rng, d - 1)}, {rand_string(rng, d - 1)})"
        return rng.choice([f"f({t}, {rand_string(rng, 0)})", f"o[{t}]"])
    return f"({s})" if rng.random() < 0.3 else s


LITERALS = ["1", "1.", ".5", "1e3", "1.5e-3", "1E5", "0.e1", "1e-12", "True", "False", "Truex",
            "iffy", "nota", "orb", "andc", "e1", "d1", "1j", "2.5j", "True + 1", "not True",
            "1_000" if False else "1000", "0.5 * 2", "10 ** 2", "1 if True else 2"]
POSTFIX = ["f(a)(b)[c].w", "f(a, b, k=c)", "f(a, k=b, j=c)", "f()", "f(a,)", "f((a, b), c)",
           "f((a,), c)", "o.w", "o.attr + 1", "o[a]", "o[a, b]", "o[a][b]", "f(a)[b]", "f(a).w" if False else "o[f(a)]",
           "(a, b)", "(a,)", "()", "a, b", "(a, b, )", "f(a if b else c, d)", "(a if b else c, d)",
           "o[a if b else c]", "f(k=a if b else c)", "-f(a)", "f(-a)", "f(a)**2", "-o[a]**2",
           "f(a + b * c, (d, e))", "a[b]" if False else "o[a + 1]", "o[a:b]" if False else "o[(a, b)]"]
GARBAGE = ["a +", "+", "a b", "a + * b", "(a", "a)", "f(a", "f(a,,b)", "a if b", "a if b else", "a[",
           "a]", "1 2", "a..b", "a.", ".", "f(k=)", "f(a=1, b)", "a ? b",
           "a <> b", "a ! b", "(,)", "a,,b", "a = b", "f(a) g(b)", "1e", "2x + 1", "a ** ** b", "not",
           "a not b", "a if else b", "if a else b", "a ~ b", "a | | b", ")", "a + b)", "((a)", "a[b]]"]


def workload(ctx):
    rng = ctx.rng
    with HandlerTrace([parsemod]) as tr:
        strings = []
        for o1, o2 in itertools.product(BIN, BIN):
            strings.append(f"a {o1} b {o2} c")
        for u, o in itertools.product(PRE, BIN):
            strings.append(f"{u}a {o} b")
            strings.append(f"a {o} {u}b")
        for u1, u2 in itertools.product(PRE, PRE):
            strings.append(f"{u1}{u2}a")
        for o in BIN:
            strings += [f"a if b {o} c else d", f"a {o} b if c else d", f"a if c else b {o} d",
                        f"(a if c else b) {o} d", f"a {o} (b if c else d)"]
        strings += ["a if b else c if d else e", "(a if b else c) if d else e",
                    "a if (b if c else d) else e", "a if b if c else d else e"]
        # numeric literals as operands (a literal is not a name: sign folding, '2.' / '.5' lexing,
        # int/float typed results): every (prefix, binary) with a literal on either side, every
        # operator pair with a literal in each position
        for u, o in itertools.product(PRE, BIN):
            strings += [f"{u}2 {o} a", f"a {o} {u}2", f"{u}2 {o} 3", f"{u}1.5 {o} 2",
                        f"b * {u}2 {o} a", f"b {o} {u}3 ** a"]
        for o1, o2 in itertools.product(BIN, BIN):
            strings += [f"2 {o1} b {o2} c", f"a {o1} 2 {o2} c", f"a {o1} b {o2} 2"]
        # slices (only inside subscripts, where Python has them), also next to the other
        # low-precedence constructs: conditionals, tuples, comparisons, 'not'
        strings += ["o[a:b]", "o[a:]", "o[:b]", "o[:]", "o[a:b:c]", "o[::c]", "o[a::c]", "o[:b:c]", "o[a:b:]",
                    "o[a + b:c * d]", "o[a if b else c:d]", "o[a:b if c else d]", "o[a if b else c:]",
                    "o[a:b if c else d:e]", "o[a:b, c]", "o[a, b:c]", "o[a:b, c:d]", "o[a < b:c]",
                    "o[not a:b]", "o[a:not b]", "o[a or b:c and d]", "o[-a:-b:-c]", "o[a:b][c:d]",
                    "o[(a if b else c):d]", "o[a | b:c ^ d]", "o[f(a):f(b, k=c)]"]
        # tuples, incl. the EMPTY tuple next to a comma, where Python can use them
        strings += ["f((), a)", "f(a, ())", "f(())", "f((), ())", "f(((), a))", "f(((),))", "f(((), ()))",
                    "o[(), 1]", "o[1, ()]", "o[((), a)]", "f(a, k=((), b))", "f(k=())", "f((a,), b)",
                    "f(((a, b), c))", "f((a, (b, c)))", "f((a, b),)", "o[(a, b), c]", "o[a, (b,)]"]
        strings += LITERALS + POSTFIX
        # float literals (integer-valued ones too) on either side of every operator, and where
        # the kind of the result shows: exponents, int-only operators, huge powers
        for o in BIN:
            for lit in ("2.0", "1.0", "0.5", "-1.0", "1e1", "40.0"):
                strings += [f"a {o} {lit}", f"{lit} {o} a", f"3 {o} {lit}"]
        strings += ["3 ** 40.0 + 1", "(10 ** 9 + 7) ** 2.0", "a ** 2.0 & 1", "2 ** -1.0", "a ** 4.0 // 3",
                    "7 ** 2.0 % 5", "b ** 1.0", "b ** 0.0", "2.0 ** a", "(a + 1) ** 2.0 - a ** 2",
                    "f(a ** 2.0, k=b ** 1.0)", "o[2 ** 1.0]" if False else "f(2 ** 1.0)"]
        # several keywords NOT in alphabetical order (the callee sees their order)
        strings += ["f(a, zeta=b, alpha=c)", "f(k=a, j=b, b=c)", "f(a, b, width=c, height=d)",
                    "f(z=a + 1, y=b * 2, x=c)", "g(f(b=1, a=2), zz=3, aa=f(y=a, x=b))"]
        # numeric literals of 18 .. 39 digits, alone and as operands
        for lit in BIG_LITERALS:
            strings += [lit, f"-{lit}", f"a + {lit}", f"{lit} * b - 1", f"{lit} // 7 % 1000",
                        f"f({lit}, k={lit})", f"{lit} == {lit}"]
        # long flat inputs: chains of 9 .. 130 operands of one or mixed operators, wide calls,
        # wide tuples, deep parenthesis nests
        names = ["a", "b", "c", "d", "x", "2", "3", "1"]
        for w in scale.SMALL_WIDTHS + [100, 130]:
            strings.append(" + ".join(names[i % 8] for i in range(w)))
            strings.append(" * ".join(names[i % 8] for i in range(w)))
            strings.append(" - ".join(names[i % 8] for i in range(w)))
            strings.append(" ".join(names[i % 8] + " " + ["+", "-", "*", "|", "&", "^"][i % 6]
                                    for i in range(w)) + " a")
            strings.append(" or ".join(f"{names[i % 5]} < {i}" for i in range(w)))
            strings.append("f(" + ", ".join(names[i % 8] for i in range(w)) + ")")
            strings.append("o[" + ", ".join(names[i % 8] for i in range(w)) + "]")
            if w <= 66:
                strings.append("(" * w + "a + b" + ")" * w + " * c")
                strings.append("-" * w + "a")
                strings.append("a" + "".join(f" if {names[i % 5]} else {i}" for i in range(w)))
        n_base = len(strings)
        for s in strings:
            if ctx.mine("pairs"):
                ctx.case(("s", s), _nops(s) >= 2, n=0)
                ctx.count("exhaustive_skeletons")
                ctx.run("C07.string", (s, ctx.seed))
        # every skeleton again in its other spellings (same tokens, different blanks)
        for s in strings[:n_base]:
            for how in ("dense", "wide"):
                s2 = respell(s, how)
                if s2 is None or s2 == s or not ctx.mine("respelled"):
                    continue
                try:
                    ast.parse(s2, mode="eval")
                except SyntaxError:
                    continue
                ctx.case(("s", s2), _nops(s) >= 2, n=0)
                ctx.count("respelled:" + how)
                ctx.run("C07.string", (s2, ctx.seed))
        ctx.set_exhaustive("operator pairs, prefix/binary combinations, conditional placements")
        ctx.sample("skeleton", strings[37])
        ctx.sample("skeleton", strings[412])
        stride = ctx.pick(8, 1)
        i = 0
        for o1, o2, o3 in itertools.product(BIN, BIN, BIN):
            i += 1
            if i % stride or not ctx.mine("triples"):
                continue
            s = f"a {o1} b {o2} c {o3} d"
            ctx.case(("s", s), True, n=0)
            ctx.count("triples")
            ctx.run("C07.string", (s, ctx.seed))
        for u, o1, o2 in itertools.product(PRE, BIN, BIN):
            if not ctx.mine("ptriples"):
                continue
            for s in (f"{u}a {o1} b {o2} c", f"a {o1} {u}b {o2} c", f"a {o1} b {o2} {u}c"):
                ctx.case(("s", s), True, n=0)
                ctx.count("prefix_triples")
                ctx.run("C07.string", (s, ctx.seed))
        ctx.set_exhaustive("operator triples", stride == 1)
        for i in range(ctx.per_shard(ctx.pick(3000, 60000))):
            s = rand_string(rng, rng.randint(2, ctx.pick(4, 5)))
            if s.count("**") > 3 or (s.count("**") and s.count("<<") > 1):
                continue        # towers like 2**2**2**2**2 do not terminate in Python either
            ctx.case(("s", s), _nops(s) >= 2, n=0)
            if i < 3:
                ctx.sample("random-string", s)
            ctx.count("random_strings")
            ctx.run("C07.string", (s, ctx.seed))
        # equal sub-expressions at both ends of comparisons, chains, calls and conditionals
        for u in ("a + b", "a * 2", "f(a)", "m[1]", "a", "-a", "(a if b else c)", "a ** 2"):
            for shape in ("a < {u} <= b", "{u} <= b != {u}", "a < {u} <= {u}", "{u} == {u}", "a * {u} < {u}",
                          "({u} < b) + (a < {u})", "{u} * {u} - ({u} - b) // ({u} * {u} + 1)",
                          "f({u}, {u}, k={u})", "{u} if {u} < {u} else {u}", "{u} < {u} < {u} < {u}",
                          "m[{u}, {u}]", "({u}, {u})", "{u} and {u} or not {u}"):
                s = shape.replace("{u}", u)
                if ctx.mine("repeated-operands"):
                    ctx.case(("s", s), True, n=0)
                    ctx.count("repeated_operand_strings")
                    ctx.run("C07.string", (s, ctx.seed))
        # equal numbers of different kinds in ONE string, in both orders (1 and 1.0, 2 and 2.0,
        # 0 and 0.0): each literal is the kind it is written as
        for a, b in (("1", "1.0"), ("2", "2.0"), ("0", "0.0"), ("3", "3e0"), ("10", "1e1"), ("2", "2.")):
            for shape in ("x*{a} + (y << {b})", "(y << {a}) + x*{b}", "({a}, {b})", "f({a}, {b})", "({a}, x + {b}, {a}, {b})",
                          "m[{a}] + {b}", "{a} + x*{b}", "x**{a} - y**{b} + (z >> {a})", "({a} if x < {b} else {b}, {a})",
                          "(y & {a}) + x / {b}", "f(k={a}, j={b})", "{a} // x + {b} // x"):
                for u, v in ((a, b), (b, a)):
                    s = shape.replace("{a}", u).replace("{b}", v)
                    if ctx.mine("literal-kinds"):
                        ctx.case(("s", s), True, n=0)
                        ctx.count("equal_literals_of_two_kinds")
                        ctx.run("C07.string", (s, ctx.seed))
        # trailing commas wherever Python allows one (calls with and without keywords, tuples,
        # subscripts), and where it does not
        for s in ["f(k=a,)", "f(a, k=b,)", "f(a, b, k=c, j=a+b,)", "f(a,)", "f(a, b,)", "(a, b,)", "(a,)",
                  "m[a, b,]", "m[a,]", "f((a,),)", "f(k=(a,),)", "g(f(k=a,), b,)", "m[f(a, k=b,), c]",
                  "f(a, k=b,) + g(k=c,)", "f(*a,)" if False else "f(a, b, k=a,)", "m[a:b,]", "m[(a,),]"]:
            if ctx.mine("trailing-commas"):
                ctx.case(("s", s), True, n=0)
                ctx.count("trailing_comma_strings")
                ctx.run("C07.string", (s, ctx.seed))
        for s in ["f(k=a,,)", "f(,)", "f(k=a, b)", "f(a,, b)", "(,)", "m[,]", "f(k=a,) b", "f(k=,)"]:
            if ctx.mine("trailing-commas"):
                ctx.run("C07.garbage", (s,))
        # depth: every operator applied to its own kind, 3 .. 8 times, on either side; prefix
        # towers; brackets in brackets; calls / subscripts / conditionals inside each other
        for depth in (3, 4, 5, 6, 8):
            names = "abcdabcdab"
            tow = []
            for op in BIN:
                if op == "**" and depth > 4:
                    continue
                tow.append(f" {op} ".join(names[:depth + 1]))
                t = "a"
                for i in range(depth):
                    t = f"({names[i + 1]} {op} {t})" if i % 2 else f"({t} {op} {names[i + 1]})"
                tow.append(t)
            for u in ("-", "+", "~", "not ", "- ", "-+", "~-"):
                tow.append(u * depth + "a")
                tow.append("b * " + u * depth + "a" if u != "not " else "b and " + u * depth + "a")
            tow += ["(" * depth + "a + b" + ")" * depth + " * c", "f(" * depth + "a" + ")" * depth,
                    "m[" * depth + "1" + "]" * depth, "m" + "[1]" * depth, "f" + "(a)" * depth,
                    " if c else ".join(names[:depth + 1]), "a" + " if (b" * depth + " if c else d) else a" * depth,
                    " < ".join(names[:depth + 1]), "a" + ".b" * depth, " and ".join(names[:depth + 1]),
                    " or ".join(f"{x} and not {x}" for x in names[:depth])]
            for s in tow:
                if ctx.mine("towers"):
                    ctx.case(("s", s), True, n=0)
                    ctx.count("tower_strings")
                    ctx.run("C07.string", (s, ctx.seed))
        for s in ["M", "M*2", "f(M, k=M)", "m[M][N]", "N if M < 3 else -M", "K + M", "P*P", "2**P", "M**M",
                  "(M)", "f(N)", "M c", "M)", "f(M) g", "m[M] ]", "N else 3", "(M", "M 2", "M +", "f(M,, M)",
                  "K 1", "M, N", "M if N", "a b", "(a+b) c", "f(a+b) 1", "K)", "[M", "P c"]:
            if ctx.mine("reentrant"):
                ctx.case(("reentrant", s), True, n=0)
                ctx.run("C07.reentrant", (s,))
        for nref in (30, 120, 400):
            if ctx.mine("manyrefusals"):
                ctx.case(("manyrefusals", nref), True, n=0)
                ctx.run("C07.manyrefusals", (nref,))
        for s in GARBAGE:
            if ctx.mine("garbage"):
                ctx.case(("g", s), True, n=0)
                ctx.run("C07.garbage", (s,))
        for i in range(ctx.per_shard(ctx.pick(300, 6000))):
            s = rand_string(rng, 3)
            cut = rng.randrange(1, max(2, len(s)))
            g = rng.choice([s[:cut], s + " " + rng.choice([")", "b", "+", ",,", "]"]),
                            s.replace(" ", " ) ", 1) if " " in s else s + ")"])
            try:
                ast.parse(g, mode="eval")
                continue        # still valid Python: not garbage
            except SyntaxError:
                pass
            except Exception:  # noqa: BLE001
                continue
            if _pymbolic_only_syntax(g):
                continue
            ctx.case(("g", g), True, n=0)
            ctx.run("C07.garbage", (g,))
        # history on the ONE module-level parser object: valid strings, then a burst of
        # rejected ones (a batch of negative tests), then the same valid strings again.
        if ctx.shard == 0:
            valid = ["a + b*c", "a < b <= c", "f(a, k=b)[c].attr", "-a ** 2 // (b % c)", "a ^ b",
                     "a ^ b ** c | d", "2 ^ 3",
                     "((((((((a))))))))", "a if b else c if d else e", "(a, (b, (c,)))"]
            ctx.run("C07.history", (valid, GARBAGE * ctx.pick(25, 100)))
        for k, v in tr.handlers("parse").items():
            ctx.count("handler:" + k, v)
    ctx.floor("respelled:dense", 500)
    ctx.floor("reentrant_parses", 25)
    ctx.floor("refused_inputs_in_a_row", 500)
    ctx.floor("equal_literals_of_two_kinds", 100)
    ctx.floor("tower_strings", 200)
    ctx.floor("trailing_comma_strings", 15)
    ctx.floor("importer_ast_with_shared_nodes", 300)
    ctx.floor("respelled:wide", 500)
    ctx.floor("rejected_between_valid", 500)
    ctx.floor("read_refuse_read_again", 30)
    ctx.floor("strings_compared", 3000)
    ctx.floor("exhaustive_skeletons", 500)
    ctx.floor("importer_calls", 3000)
    ctx.floor("garbage_strings", 100)
    ctx.floor("parse_errors_raised", 100)


def _nops(s):
    return sum(1 for t in s.split() if t in BIN) + sum(s.count(u) for u in ("not ", "~", " if "))


def _pymbolic_only_syntax(g):
    """strings that are not Python but are deliberate pymbolic syntax (slices outside subscripts,
    wildcards '*', trailing-comma forms, 'd' exponents, 'not' as the operand of an arithmetic
    operator) -- outside the shared syntax, where the property only asks that all input is consumed"""
    import re
    if re.search(r"(^|[-+*/%(,\[<>=&|^~]|\bnot|\band|\bor|\bif|\belse)\s*\*(?!\*)", g):
        return True      # a '*' in operand position is pymbolic's wildcard
    if re.search(r"(\*\*|<<|>>|//|<=|>=|==|!=|[-+*/%&|^~<>])\s*not\b", g):
        return True      # 'a - not b': Python wants parentheses there, pymbolic's grammar does not
    return any(t in g for t in (":", "@", "$")) or g.strip().endswith(",")


RULE = RULE + '  Later additions: operator / prefix / bracket towers as strings; trailing commas; equal literals of two kinds in both orders; a parser re-entered from its terminal hook; hundreds of refusals in a row; interned Python ASTs; refused imports before every judged import.'
