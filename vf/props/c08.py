"""C08 — substitution commutes with evaluation."""
from __future__ import annotations

import dataclasses
from collections.abc import Mapping
from fractions import Fraction as F

import numpy as np
from immutabledict import immutabledict

import pymbolic.primitives as p
from pymbolic import substitute
from pymbolic.mapper.substitutor import (
    CachedSubstitutionMapper, SubstitutionMapper, make_subst_func)
import pymbolic.mapper.substitutor as submod
import pymbolic.mapper as mapmod

from ..core import check, short
from ..gen import expr as G
from ..gen import numbers, scale
from ..mon import streams
from ..mon.trace import HandlerTrace
from ..ref import normal, refsem
from .c01 import ref_eq

RULE = ("random trees over all node types (structure) and typed evaluable trees (value), each with "
        "1-4 substitution keys given as names, Variables, Subscripts or Lookups (taken from the tree "
        "or absent), replacement values that mention other keys (swaps, 3-cycles, chains, "
        "self-reference), through substitute(dict), substitute(dict, **kw), the plain and the cached "
        "mapper.  Judged: typed equality with an independent simultaneous rewrite; object identity of "
        "key-free subtrees; evaluate(substitute(e,s),env) == evaluate(e, env with each key bound to "
        "its replacement's value) on a box.  distinct = typed key of (tree, map); non-trivial = tree "
        "has >=1 operator node and >=1 key occurs in it.")
ASSUMPTIONS = [
    "the memoizing mapper may hand back an *equal* object already seen in the same tree instead of "
    "the identical one (results are compared with == for it, identity is required up to that)",
    "lists / numpy arrays are always rebuilt by the identity traversal: only equality is required",
]

KF_CSE0 = "C04-identity-mapper-collapses-zero-cse"


def is_falsy(x):
    try:
        return not bool(x)
    except Exception:  # noqa: BLE001
        return False


# {{{ independent simultaneous substitution

def lookup(e, smap):
    """smap: list of (key, value); expression keys win over name keys."""
    if isinstance(e, p.Expression):
        for k, v in smap:
            if isinstance(k, p.Expression) and type(k) is type(e) and ref_eq(k, e):
                return (v,)
        if isinstance(e, p.Variable):
            for k, v in smap:
                if isinstance(k, str) and k == e.name:
                    return (v,)
    return None


def refsub(e, smap, collapse_cse=False):
    if isinstance(e, (p.Variable, p.Subscript, p.Lookup)):
        h = lookup(e, smap)
        if h is not None:
            return h[0]
    if isinstance(e, tuple):
        return tuple(refsub(c, smap, collapse_cse) for c in e)
    if isinstance(e, list):
        return [refsub(c, smap, collapse_cse) for c in e]
    if isinstance(e, np.ndarray):
        out = np.empty(e.shape, dtype=object)
        for i in np.ndindex(e.shape):
            out[i] = refsub(e[i], smap, collapse_cse)
        return out
    if not isinstance(e, p.Expression):
        return e
    vals = []
    for f in dataclasses.fields(e):
        v = getattr(e, f.name)
        if isinstance(v, (p.Expression, tuple, list)):
            vals.append(refsub(v, smap, collapse_cse))
        elif isinstance(v, Mapping):
            vals.append(immutabledict({k: refsub(x, smap, collapse_cse) for k, x in v.items()}))
        else:
            vals.append(v)
    if collapse_cse and isinstance(e, p.CommonSubexpression) and is_falsy(vals[0]):
        return 0
    return type(e)(*vals)


def contains_match(e, smap):
    for x in G.walk(e):
        if isinstance(x, (p.Variable, p.Subscript, p.Lookup)) and lookup(x, smap) is not None:
            return True
    return False


def has_zero_cse(e, smap):
    for x in G.walk(e):
        if isinstance(x, p.CommonSubexpression) and is_falsy(refsub(x.child, smap, True)):
            return True
    return False

# }}}


def entry_points(d, kw):
    merged = dict(d)
    merged.update(kw)
    eps = [("plain", False, lambda e: SubstitutionMapper(make_subst_func(merged))(e)),
           ("cached", True, lambda e: CachedSubstitutionMapper(make_subst_func(merged))(e)),
           ("substitute", True, lambda e: substitute(e, d, **kw)),
           ("substitute-plaincls", False,
            lambda e: substitute(e, d, mapper_cls=SubstitutionMapper, **kw))]
    return merged, eps


def check_identity(ctx, case, name, cached, orig, res, smap, all_subs):
    """key-free Expression subtrees must come back as the identical object."""
    stack = [(orig, res)]
    while stack:
        o, r = stack.pop()
        if not isinstance(o, p.Expression):
            if isinstance(o, tuple) and isinstance(r, tuple) and len(o) == len(r):
                stack.extend(zip(o, r))
            continue
        if isinstance(o, (p.Variable, p.Subscript, p.Lookup)) and lookup(o, smap) is not None:
            continue
        if not contains_match(o, smap):
            ctx.count("identity_checked")
            ok = r is o or (cached and any(r is s for s in all_subs))
            if not ok:
                finding = KF_CSE0 if has_zero_cse(o, smap) else None
                ctx.fail("C08.subst", case, f"{name}:not-identical:{type(o).__name__}",
                         f"{name}: key-free subtree {G.src(o)} came back as a different object "
                         f"{G.src(r)}", finding=finding)
            continue
        if type(o) is not type(r):
            continue  # structural check reports this
        for f in dataclasses.fields(o):
            stack.append((getattr(o, f.name), getattr(r, f.name)))


@check("C08.subst")
def c_subst(ctx, case):
    e, d, kw = case
    d0 = dict(d)
    try:
        _c_subst(ctx, case)
    finally:
        if kw:
            # history: the SAME map object used again, now without the keyword assignments --
            # names only the earlier call mentioned must be left alone
            ctx.case(None)
            ctx.count("map_reused_after_kwargs_call")
            want = refsub(e, list(d0.items()))
            try:
                got = substitute(e, d, mapper_cls=SubstitutionMapper)
            except RecursionError:
                raise
            except Exception as ex:  # noqa: BLE001
                got = ex
            if isinstance(got, Exception) or not normal.typed_eq(got, want):
                want_c = refsub(e, list(d0.items()), collapse_cse=True)
                explained = not isinstance(got, Exception) and normal.typed_eq(got, want_c) \
                    and has_zero_cse(e, list(d0.items()))
                ctx.fail("C08.subst", case, "map-reused:tree-differs",
                         f"substitute(e, m, **{_m(kw)}) and then substitute(e, m) with the same "
                         f"map object m={_m(d0)}: e={G.src(e)} gave "
                         f"{G.src(got) if not isinstance(got, Exception) else repr(got)}, expected "
                         f"{G.src(want)} (m is now {_m(d)})",
                         finding=KF_CSE0 if explained else None)


def _c_subst(ctx, case):
    e, d, kw = case
    merged, eps = entry_points(d, kw)
    smap = list(merged.items())
    want = refsub(e, smap)
    want_c = None
    twins = None
    all_subs = [x for x in G.walk(e) if isinstance(x, (p.Expression, tuple))]
    for name, cached, fn in eps:
        ctx.case(None)
        ctx.count("entry:" + name)
        try:
            got = fn(e)
        except RecursionError:
            raise
        except Exception as ex:  # noqa: BLE001
            ctx.fail("C08.subst", case, f"{name}:raised:{type(ex).__name__}",
                     f"{name} raised {type(ex).__name__}: {ex} on e={G.src(e)} map={_m(merged)}")
            continue
        same = ref_eq(got, want) if cached else normal.typed_eq(got, want)
        if not same:
            if want_c is None:
                want_c = refsub(e, smap, collapse_cse=True)
            explained = (ref_eq(got, want_c) if cached else normal.typed_eq(got, want_c)) \
                and has_zero_cse(e, smap)
            ctx.fail("C08.subst", case, f"{name}:tree-differs",
                     f"{name}: e={G.src(e)} map={_m(merged)} gave {G.src(got)}, independent "
                     f"simultaneous rewrite gives {G.src(want)}",
                     finding=KF_CSE0 if explained else None)
            continue
        if cached and twins is None:
            seen = {}
            for x in G.walk(e):     # expressions, tuples and scalars (big ints, floats)
                try:
                    seen.setdefault((type(x), x), set()).add(id(x))
                except TypeError:
                    pass
            twins = any(len(v) > 1 for v in seen.values())
        if cached and twins:
            ctx.count("identity_skipped_cached_twins")
            continue   # a memo hit legitimately returns the first *equal* object seen
        check_identity(ctx, case, name, False, e, got, smap, all_subs)


@check("C08.multivector")
def c_multivector(ctx, case):
    """A multivector (and an object array) with symbolic coefficients: the substitution reaches
    EVERY coefficient -- whichever of them mention a replaced name --, and one that mentions
    none comes back as the identical object."""
    coeffs, d = case
    from pymbolic.geometric_algebra import MultiVector, Space
    sp = Space(3)
    smap = list(d.items())
    mv = MultiVector(dict(coeffs), sp)
    arr = np.empty(len(coeffs), dtype=object)
    for i, (_, c) in enumerate(coeffs):
        arr[i] = c
    touched = any(contains_match(c, smap) for _, c in coeffs)
    _, eps = entry_points(d, {})
    for name, cached, fn in eps:
        ctx.case(None)
        ctx.count("multivector_substitutions")
        try:
            got = fn(mv)
            got_arr = fn(arr) if not cached else None   # (an array is no key for a memo table)
        except RecursionError:
            raise
        except Exception as ex:  # noqa: BLE001
            ctx.fail("C08.multivector", case, f"mv:{name}:raised:{type(ex).__name__}",
                     f"{name} on a multivector with coefficients {[(b, G.src(c)) for b, c in coeffs]} "
                     f"raised {type(ex).__name__}: {ex}")
            continue
        want = {b: refsub(c, smap) for b, c in coeffs}
        gd = dict(got.data) if isinstance(got, MultiVector) else None
        if gd is None or set(gd) != set(want) or any(not ref_eq(gd[b], want[b]) for b in want):
            ctx.fail("C08.multivector", case, f"mv:{name}:coefficients",
                     f"{name}, map {_m(d)}: multivector coefficients {[(b, G.src(c)) for b, c in coeffs]} "
                     f"became {[(b, G.src(c)) for b, c in (gd or {}).items()]}; expected "
                     f"{[(b, G.src(c)) for b, c in want.items()]}")
            continue
        if not cached and (not isinstance(got_arr, np.ndarray) or got_arr.shape != arr.shape or any(
                not ref_eq(got_arr[i], want[b]) for i, (b, _) in enumerate(coeffs))):
            ctx.fail("C08.multivector", case, f"array:{name}:entries",
                     f"{name}, map {_m(d)}: object array {[G.src(c) for _, c in coeffs]} became "
                     f"{[G.src(c) for c in got_arr.flat] if isinstance(got_arr, np.ndarray) else got_arr!r}")
            continue
        if not touched and not cached and got is not mv:
            ctx.fail("C08.multivector", case, f"mv:{name}:not-identical",
                     f"{name}, map {_m(d)}: no coefficient mentions a replaced name, but the "
                     f"multivector came back as a different object")


@check("C08.reentrant")
def c_reentrant(ctx, case):
    """A rule table that expands its rules on demand: the substitution function, asked for a
    name, runs THE SAME mapper on the rule's body before handing it out (so the mapper is
    re-entered in the middle of a traversal).  Every inner run is an ordinary substitution:
    the outcome is the expression with every rule expanded all the way."""
    e, rules, cached = case

    def expand_ref(x, depth=0):
        # independent model: replace names by their fully expanded bodies
        return refsub(x, [(k, expand_ref(v, depth + 1)) for k, v in rules.items()]) if depth < 8 else x
    want = expand_ref(e)
    table = {}

    def subst_func(node):
        if isinstance(node, p.Variable) and node.name in rules:
            if node.name not in table:
                table[node.name] = mapper(rules[node.name])      # re-enters the mapper
            return table[node.name]
        return None
    mapper = (CachedSubstitutionMapper if cached else SubstitutionMapper)(subst_func)
    ctx.case(None)
    ctx.count("reentrant_substitutions")
    try:
        got = mapper(e)
        got2 = mapper(e)
    except RecursionError:
        raise
    except Exception as ex:  # noqa: BLE001
        ctx.fail("C08.reentrant", case, f"reentrant:raised:{type(ex).__name__}",
                 f"rules {_m(rules)} expanded on demand by re-entering the mapper on {G.src(e)}: "
                 f"{type(ex).__name__}: {ex}")
        return
    for g, which in ((got, "first"), (got2, "second")):
        if not ref_eq(g, want):
            ctx.fail("C08.reentrant", case, f"reentrant:{'cached' if cached else 'plain'}",
                     f"rules {_m(rules)} expanded on demand (the substitution function runs the same "
                     f"mapper on a rule body while the mapper is traversing {G.src(e)}); {which} call "
                     f"gives {G.src(g)}, every rule expanded gives {G.src(want)}; table "
                     f"{ {k: G.src(v) for k, v in table.items()} }")
            return


@check("C08.tablehistory")
def c_tablehistory(ctx, case):
    """The table of assignments is the CALLER's: using it (through make_subst_func, a mapper or
    substitute) leaves it as it was, and the caller goes on to rebind a name in it -- the next
    use substitutes the NEW replacement.  Three steps: use, rebind, use again."""
    e, d, rebind = case
    d = dict(d)
    before = {k: v for k, v in d.items()}
    ctx.case(None)
    ctx.count("table_histories")
    try:
        first = SubstitutionMapper(make_subst_func(d))(e)
        CachedSubstitutionMapper(make_subst_func(d))(e)
    except RecursionError:
        raise
    except Exception as ex:  # noqa: BLE001
        ctx.fail("C08.tablehistory", case, f"raised:{type(ex).__name__}", f"{G.src(e)} {_m(d)}: {ex}")
        return
    # ... and a use that FAILS half-way (an object no mapper accepts beneath the expression,
    # keyword assignments on top of the table) is caught by the caller: the table is as it was
    bad = p.Sum((e, p.Product((p.Variable("x"), object()))))
    for kwargs in ({"y": 100, "z": p.Sum((p.Variable("z"), 1))}, {"x": p.Variable("y")}, {}):
        try:
            substitute(bad, d, **kwargs)
        except RecursionError:
            raise
        except Exception:  # noqa: BLE001
            ctx.count("failed_substitutions_before_the_next_use")
    same_keys = list(d.keys()) == list(before.keys()) and all(d[k] is before[k] for k in before)
    if not same_keys:
        ctx.fail("C08.tablehistory", case, "table-modified",
                 f"make_subst_func / the mappers changed the caller's table: was {_m(before)}, "
                 f"now {_m(d)}")
        d = dict(before)
    d.update(rebind)
    want = refsub(e, list(d.items()))
    for name, fn in (("make_subst_func", lambda: SubstitutionMapper(make_subst_func(d))(e)),
                     ("substitute", lambda: substitute(e, d, mapper_cls=SubstitutionMapper)),
                     ("substitute-cached", lambda: substitute(e, d))):
        try:
            got = fn()
        except RecursionError:
            raise
        except Exception as ex:  # noqa: BLE001
            ctx.fail("C08.tablehistory", case, f"raised-after-rebind:{type(ex).__name__}", str(ex))
            continue
        ok = ref_eq(got, want) if name == "substitute-cached" else normal.typed_eq(got, want)
        if not ok:
            want_c = refsub(e, list(d.items()), collapse_cse=True)
            explained = has_zero_cse(e, list(d.items())) and \
                (ref_eq(got, want_c) if name == "substitute-cached" else normal.typed_eq(got, want_c))
            ctx.fail("C08.tablehistory", case, f"stale-after-rebind:{name}",
                     f"table {_m(before)} used once on {G.src(e)}, then rebound to {_m(d)}: "
                     f"{name} gives {G.src(got)}, expected {G.src(want)}",
                     finding=KF_CSE0 if explained else None)


def stream_rows(seed, n):
    import random
    r = random.Random(seed)
    ag = G.AnyGen(r, names="xyzab")
    for i in range(n):
        ag.pool = []
        if r.random() < 0.5:
            yield p.Sum((p.Product((i + 2, p.Variable("xyz"[i % 3]))),
                         p.Power(p.Variable("xyz"[(i + 1) % 3]), 1 + i % 2), i))
        else:
            e = ag.gen(r.randint(1, 3))
            yield e if isinstance(e, p.Expression) else p.Sum((p.Variable("x"), i))


@check("C08.stream")
def c_stream(ctx, case):
    """ONE mapper object over a stream of temporaries (each row is dropped before the next is
    built, so node addresses are recycled): the answer depends on the row's value only."""
    seed, n, d = case
    smap = list(d.items())
    for name, cached, cls in (("plain", False, SubstitutionMapper),
                              ("cached", True, CachedSubstitutionMapper)):
        m = cls(make_subst_func(d))

        def judge(i, e, name=name, cached=cached, m=m):
            ctx.case(None)
            ctx.count("stream:" + name)
            want = refsub(e, smap)
            try:
                got = m(e)
            except RecursionError:
                raise
            except Exception as ex:  # noqa: BLE001
                ctx.fail("C08.stream", case, f"{name}:raised:{type(ex).__name__}",
                         f"row {i}: {name} raised {type(ex).__name__}: {ex} on e={G.src(e)}")
                return
            if not (ref_eq(got, want) if cached else normal.typed_eq(got, want)):
                want_c = refsub(e, smap, collapse_cse=True)
                explained = (ref_eq(got, want_c) if cached else normal.typed_eq(got, want_c)) \
                    and has_zero_cse(e, smap)
                ctx.fail("C08.stream", case, f"{name}:tree-differs",
                         f"row {i} of a stream of temporaries through one {name} mapper with "
                         f"map={_m(d)}: e={G.src(e)} gave {G.src(got)}, independent rewrite gives "
                         f"{G.src(want)}", finding=KF_CSE0 if explained else None)
        streams.each(ctx, stream_rows(seed, n), judge)


def _m(d):
    return "{" + ", ".join(f"{(k if isinstance(k, str) else G.src(k))!s}: {G.src(v)}"
                           for k, v in d.items()) + "}"


@check("C08.value")
def c_value(ctx, case):
    e, d, kw, envs = case
    merged, eps = entry_points(d, kw)
    smap = list(merged.items())
    results = []
    for name, cached, fn in eps:
        try:
            results.append((name, fn(e)))
        except RecursionError:
            raise
        except Exception as ex:  # noqa: BLE001
            ctx.fail("C08.value", case, f"{name}:raised:{type(ex).__name__}",
                     f"{name} raised {type(ex).__name__}: {ex} on e={G.src(e)} map={_m(merged)}")
    for env in envs:
        # value of each replacement in the *original* environment
        over, env2, ok = [], dict(env), True
        for k, v in smap:
            val = refsem.outcome(lambda: refsem.ev(v, env))
            if val[0] != "v":
                ok = False
                break
            if isinstance(k, str):
                if not any(isinstance(k2, p.Variable) and k2.name == k for k2, _ in smap):
                    env2[k] = val[1]
            elif isinstance(k, p.Variable):
                env2[k.name] = val[1]
            else:
                over.append((k, val[1]))
        if not ok:
            ctx.count("replacement_undefined")
            continue
        want, faults, _ = refsem.expected(e, env2, over)
        if want[0] != "v":
            ctx.count("original_undefined")   # the law presupposes the original evaluates
            continue
        for name, tree in results:
            ctx.case(None)
            ctx.count("value_compared")
            got = refsem.outcome(lambda: refsem.ev(tree, env))
            if not refsem.consistent(got, want, faults):
                finding = None
                if has_zero_cse(e, smap):
                    # collapsing a wrapper whose child became falsy to the constant 0 (the
                    # recorded finding) keeps the VALUE 0 and not its kind: np.False_, 0.0,
                    # -0.0 become the int 0 (3 / np.False_ is inf, 3 / 0 raises).  Explained
                    # iff the independent rewrite WITH exactly that collapse gives what we got.
                    coll = refsub(e, smap, collapse_cse=True)
                    alt = refsem.outcome(lambda: refsem.ev(coll, env))
                    if alt[0] == got[0] and (alt[0] != "v" or refsem.consistent(got, alt, faults)):
                        finding = KF_CSE0
                ctx.fail("C08.value", case, f"{name}:value:{got[0]}!={want[0]}",
                         f"{name}: e={e} map={_m(merged)} env={_e(env)}: substituted tree "
                         f"{tree} evaluates to {short(got)}, original under bound replacements "
                         f"gives {short(want)}", finding=finding)


def _e(env):
    return {k: v for k, v in env.items() if k in "xyzst"}


# {{{ generators of substitution maps

def pick_keys(rng, e, names, n):
    subs = [x for x in G.walk(e) if isinstance(x, (p.Subscript, p.Lookup))]
    vars_in = sorted(G.variables_of(e))
    keys = []
    for _ in range(n):
        u = rng.random()
        if u < 0.3:
            keys.append(rng.choice(vars_in) if vars_in and rng.random() < 0.8
                        else rng.choice(names))
        elif u < 0.6:
            keys.append(p.Variable(rng.choice(vars_in) if vars_in and rng.random() < 0.8
                                   else rng.choice(names)))
        elif subs and u < 0.9:
            k = rng.choice(subs)
            keys.append(G.deep_rebuild(k) if rng.random() < 0.5 else k)
        else:
            keys.append(p.Subscript(p.Variable("a"), rng.randint(0, 2)) if rng.random() < 0.5
                        else p.Lookup(p.Variable("o"), "attr"))
    return keys


hist_kinds = {}


def make_map(rng, keys, gen_value):
    """values: fresh expressions, other keys (swap / cycle / chain), self-reference."""
    d = {}
    kvars = [p.Variable(k) if isinstance(k, str) else k for k in keys]
    for i, k in enumerate(keys):
        u = rng.random()
        if u < 0.25 and len(kvars) > 1:
            v = kvars[(i + 1) % len(kvars)]                      # cycle / swap
        elif u < 0.4:
            v = p.Sum((kvars[i], 1))                             # mentions itself
        elif u < 0.55 and len(kvars) > 1:
            v = p.Product((kvars[(i + 1) % len(kvars)], kvars[i - 1]))
        elif u < 0.65:
            v = rng.choice([0, 1, 7, F(1, 2), -2])
            if rng.random() < 0.4:      # any KIND of number is inserted as the object it is
                v = numbers.value(rng, exclude=("nan", "fraction"))
                hist_kinds[numbers.kind_of(v)] = hist_kinds.get(numbers.kind_of(v), 0) + 1
        else:
            v = gen_value()
        d[k] = v
    # a name and the Variable of the same name both as keys: legal, expression key wins
    if rng.random() < 0.12:
        # a LARGE table (17 .. 130 entries): names that do not occur, given as strings and as
        # Variables, and a few look-up / subscript keys whose attribute is also a variable name
        n = rng.choice(scale.WIDTHS)
        for i in range(n):
            u = rng.random()
            k = f"u{i}" if u < 0.45 else p.Variable(f"u{i}") if u < 0.9 \
                else p.Lookup(p.Variable("s"), rng.choice("xyzab")) if u < 0.95 \
                else p.Subscript(p.Variable("s"), i)
            d.setdefault(k, rng.choice([i, p.Variable(f"u{(i + 1) % n}"), p.Sum((p.Variable("x"), i))]))
    return d


def add_derived_key(rng, e, d):
    """Hostile shape: a composite key that equals what *another* replacement turns a
    subscript / lookup of the tree into (a[i] with i->j, plus the key a[j]).  A mapper that
    looks the rebuilt node up again substitutes an inserted replacement a second time."""
    comps = [x for x in G.walk(e) if isinstance(x, (p.Subscript, p.Lookup))
             and G.variables_of(x.index if isinstance(x, p.Subscript) else x.aggregate)]
    if not comps:
        return False
    s1 = rng.choice(comps)
    inner = s1.index if isinstance(s1, p.Subscript) else s1.aggregate
    name = rng.choice(sorted(G.variables_of(inner)))
    if name in d or p.Variable(name) in d:
        v = d.get(name, d.get(p.Variable(name)))
    else:
        v = p.Variable(rng.choice("xyzq"))
        d[name if rng.random() < 0.5 else p.Variable(name)] = v
    smap = [(name, v)]
    if isinstance(s1, p.Subscript):
        k2 = p.Subscript(s1.aggregate, refsub(s1.index, smap))
    else:
        k2 = p.Lookup(refsub(s1.aggregate, smap), s1.name)
    if ref_eq(k2, s1):
        return False
    d[k2] = rng.choice([7, p.Variable("w_derived"), p.Sum((p.Variable(name), 5))])
    return True

# }}}


def workload(ctx):
    rng = ctx.rng
    with HandlerTrace([submod, mapmod]) as tr:
        # multivectors / arrays with 1 .. 5 coefficients; the replaced name in the first, a
        # middle, the last, every, or no coefficient
        X_, Y_, Z_ = (p.Variable(n_) for n_ in "xyz")
        with_x = [p.Sum((X_, 1)), p.Product((X_, Z_)), X_, p.Power(X_, 2), p.Subscript(Z_, X_)]
        without = [Z_, p.Sum((Z_, 1)), 3, p.Product((2, Z_)), p.Call(Z_, (Z_,))]
        for n in (1, 2, 3, 4, 5):
            for where in ("first", "middle", "last", "all", "none", "first+last"):
                if not ctx.mine("mv"):
                    continue
                hit = {"first": {0}, "middle": {n // 2}, "last": {n - 1}, "all": set(range(n)),
                       "none": set(), "first+last": {0, n - 1}}[where]
                bits = [0, 1, 2, 4, 3, 5, 6, 7][:n]
                coeffs = tuple((b, (with_x if i in hit else without)[i]) for i, b in enumerate(bits))
                for d in ({"x": p.Product((2, Y_))}, {"x": Y_, "y": X_}, {X_: p.Sum((Y_, 1))}):
                    ctx.case(("mv", n, where, normal.typed_key(tuple(d.items()))), True, n=0)
                    ctx.run("C08.multivector", (coeffs, d))
        W_ = p.Variable("w")
        rule_sets = [{"x": p.Sum((Y_, 1)), "y": p.Product((2, Z_))},
                     {"x": p.Sum((Y_, Z_)), "y": p.Power(Z_, 2), "z": p.Sum((W_, 3))},
                     {"x": p.Product((Y_, Y_)), "y": p.Call(p.Variable("f"), (Z_,)), "z": 5},
                     {"x": p.Subscript(p.Variable("a"), Y_), "y": p.Sum((Z_, W_))}]
        for i, rules in enumerate(rule_sets):
            for e in (X_, p.Sum((X_, Y_)), p.Product((X_, p.Sum((X_, Z_)), Y_)), p.Power(p.Sum((Y_, X_)), 2),
                      p.If(p.Comparison(X_, "<", Y_), X_, Z_), p.Sum((Z_, Y_, X_)), p.Call(p.Variable("g"), (Y_, X_, Z_))):
                for cached in (False, True):
                    if ctx.mine("reentrant"):
                        ctx.case(("reentrant", i, normal.typed_key(e), cached), True, n=0)
                        ctx.run("C08.reentrant", (e, rules, cached))
        ag = G.AnyGen(rng, hist=ctx.hist, names="xyzab")
        for i in range(ctx.per_shard(ctx.pick(4000, 80000))):
            ag.pool = []
            e = ag.gen(rng.randint(1, ctx.pick(4, 6)))
            if not isinstance(e, p.Expression):
                continue
            keys = pick_keys(rng, e, "xyzabq", rng.randint(1, 4))
            d = make_map(rng, keys, lambda: ag.gen(rng.randint(0, 2)))
            if rng.random() < 0.25 and add_derived_key(rng, e, d):
                ctx.count("derived_key_maps")
            kw = {}
            if rng.random() < 0.3:
                kw = {rng.choice("xyzab"): ag.gen(1)}
            smap = list({**d, **kw}.items())
            if len(d) > 16:
                ctx.count("large_tables")
            nt = normal.count_ops(e) >= 1 and contains_match(e, smap)
            ctx.case((normal.typed_key(e), repr(_m(d)), repr(_m(kw))), nt, n=0)
            ctx.count("maps_with_match" if contains_match(e, smap) else "maps_without_match")
            if i < 3:
                ctx.sample("structure", f"e={G.src(e)} map={_m(d)} kwargs={_m(kw)}")
            ctx.run("C08.subst", (e, d, kw))
            if i % 5 == 0 and d and len(d) <= 16:
                # rebind: the same name (given as a string or as a Variable) gets a new value
                k0 = rng.choice(list(d))
                nm = k0 if isinstance(k0, str) else getattr(k0, "name", None)
                if nm is not None:
                    rb = {rng.choice([nm, p.Variable(nm)]) if rng.random() < 0.3 else k0:
                          p.Sum((p.Variable("rebound"), rng.randint(1, 9)))}
                    ctx.run("C08.tablehistory", (e, d, rb))
        X, Y = p.Variable("x"), p.Variable("y")
        for i in range(ctx.per_shard(ctx.pick(24, 400))):
            d = rng.choice([{"x": Y, "y": X, "z": p.Sum((X, 1))}, {"x": p.Product((2, Y))},
                            {X: p.Variable("z"), "q": 5}, {"a": p.Subscript(X, (Y,)), "y": 0}])
            ctx.case(("stream", i), True, n=0)
            ctx.run("C08.stream", (rng.getrandbits(32), rng.randint(20, 120), d))
        tg = G.TypedGen(rng, hist=ctx.hist)
        for i in range(ctx.per_shard(ctx.pick(2500, 50000))):
            tg.pool = {"int": [], "num": [], "bool": []}
            e = tg.int(rng.randint(1, 4)) if rng.random() < 0.6 else tg.num(rng.randint(1, 4))
            if not isinstance(e, p.Expression):
                continue
            keys = pick_keys(rng, e, "xyz", rng.randint(1, 3))
            d = make_map(rng, keys, lambda: tg.int(rng.randint(0, 2)))
            if rng.random() < 0.25 and add_derived_key(rng, e, d):
                ctx.count("derived_key_maps")
            kw = {rng.choice("xyz"): tg.int(1)} if rng.random() < 0.25 else {}
            box = [-2, -1, 0, 1, 2, 3, F(1, 2)]
            envs = [G.base_env(rng.choice(box), rng.choice(box), rng.choice(box),
                               s=rng.choice([0, 1, 2]), t=rng.choice([True, False]))
                    for _ in range(ctx.pick(6, 12))]
            smap = list({**d, **kw}.items())
            ctx.case((normal.typed_key(e), repr(_m(d)), repr(_m(kw))),
                     normal.count_ops(e) >= 1 and contains_match(e, smap), n=0)
            if i < 2:
                ctx.sample("value", f"e={e} map={_m(d)} kwargs={_m(kw)}")
            ctx.run("C08.subst", (e, d, kw))
            ctx.run("C08.value", (e, d, kw, envs))
        for k, v in tr.handlers().items():
            ctx.count("handler:" + k, v)
    ctx.floor("stream:rows", 500)
    ctx.floor("multivector_substitutions", 200)
    ctx.floor("failed_substitutions_before_the_next_use", 100)
    ctx.floor("reentrant_substitutions", 50)
    ctx.floor("stream:row_address_reused", 100)
    ctx.count("replacement_values_of_special_kinds", sum(hist_kinds.values()))
    ctx.floor("replacement_values_of_special_kinds", 300)
    ctx.floor("large_tables", 100)
    ctx.floor("table_histories", 300)
    ctx.floor("entry:plain", 2000)
    ctx.floor("entry:cached", 2000)
    ctx.floor("identity_checked", 5000)
    ctx.floor("value_compared", 20000)
    ctx.floor("maps_with_match", 1500)
    ctx.floor("derived_key_maps", 100)
    ctx.floor("handler:SubstitutionMapper.map_subscript", 500)
    ctx.floor("handler:SubstitutionMapper.map_lookup", 200)


RULE = RULE + "  Later additions: multivector / array coefficients; rule tables expanded by re-entering the mapper; the caller's table after failing uses; streams of temporaries."
