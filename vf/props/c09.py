"""C09 — dependency, node-count and flop analyses are exact."""
from __future__ import annotations

import itertools
from fractions import Fraction as F

import numpy as np

import pymbolic.primitives as p
from immutabledict import immutabledict
from pymbolic.mapper import UnsupportedExpressionError
from pymbolic.mapper.analysis import NodeCountMapper, get_num_nodes
from pymbolic.mapper.dependency import CachedDependencyMapper, DependencyMapper
from pymbolic.mapper.evaluator import EvaluationMapper, UnknownVariableError
from pymbolic.mapper.flop_counter import CSEAwareFlopCounter, FlopCounter
import pymbolic.mapper.dependency as depmod
import pymbolic.mapper.flop_counter as flopmod
import pymbolic.mapper.analysis as anamod
import pymbolic.mapper as mapmod

from ..core import check, short
from ..gen import expr as G
from ..gen import scale
from ..mon.trace import HandlerTrace
from ..ref import normal, refsem
from ..ref.children import children, occurrences

RULE = ("random trees over every node type the analyses accept (nested composites of different "
        "kinds: calls in subscripts in CSEs in lookups, keyword calls, slices, tuples) x ALL 72 flag "
        "settings (include_subscripts 2 x include_lookups 2 x include_calls {True, False, "
        "'descend_args'} x include_cses 2 x composite_leaves {None, True, False}) x cached/uncached, "
        "each judged against an independent set model (outermost selected composites + variables "
        "outside them); histories of calls on one mapper instance with earlier results re-checked; "
        "restricted-environment evaluation for the all-off setting; node counts and flop counts "
        "against independent counts.  distinct = typed key of the tree; non-trivial = contains >=1 "
        "composite (subscript/lookup/call/CSE) or operator node.")
ASSUMPTIONS = [
    "'descend_args' omits the function position by design (pinned by the suite's "
    "test_func_dep_consistency); the model does the same",
    "whether a bare tuple is a 'subexpression' is not fixed: the node count is accepted in the "
    "interval [distinct nodes without tuples, with tuples]",
    "remainder, comparisons, bitwise/logical operators and min/max cost 0 flops (the statement "
    "lists additions, multiplications, divisions, powers)",
]

FLAGS = list(itertools.product([True, False], [True, False], [True, False, "descend_args"],
                               [True, False], [None, True, False]))
assert len(FLAGS) == 72


def eff(flags):
    subs, looks, calls, cses, comp = flags
    if comp is False:
        subs = looks = calls = False
    if comp is True:
        subs = looks = calls = True
    return subs, looks, calls, cses


def depmodel(x, f):
    subs, looks, calls, cses = f
    if isinstance(x, p.Variable):
        return [x]
    if isinstance(x, (p.Call, p.CallWithKwargs)):
        if calls == "descend_args":
            kids = children(x)[1:]
        elif calls:
            return [x]
        else:
            kids = children(x)
    elif isinstance(x, p.Lookup):
        if looks:
            return [x]
        kids = children(x)
    elif isinstance(x, p.Subscript):
        if subs:
            return [x]
        kids = children(x)
    elif isinstance(x, p.CommonSubexpression):
        if cses:
            return [x]
        kids = children(x)
    else:
        kids = children(x)
    out = []
    for c in kids:
        out.extend(depmodel(c, f))
    return out


_mk_n = [0]


def mk(flags, cached):
    """the analysis object for a flag combination -- the flags are passed by keyword, fully
    positionally, or half and half (every third construction each)"""
    subs, looks, calls, cses, comp = flags
    cls = CachedDependencyMapper if cached else DependencyMapper
    _mk_n[0] += 1
    if _mk_n[0] % 4 == 0:
        # flags that ARE true / false without being the singletons True / False: the result of a
        # numpy comparison (np.bool_) or 1 / 0 from a configuration file
        import numpy as np
        conv = (lambda v: np.bool_(v) if isinstance(v, bool) else v) if _mk_n[0] % 8 == 0 \
            else (lambda v: int(v) if isinstance(v, bool) else v)
        # (composite_leaves is a three-state flag None / True / False told apart by identity:
        #  it is handed over as it is)
        subs, looks, calls, cses = (conv(v) for v in (subs, looks, calls, cses))
    if _mk_n[0] % 3 == 0:
        return cls(subs, looks, calls, cses, comp)
    if _mk_n[0] % 3 == 1:
        return cls(subs, looks, include_calls=calls, include_cses=cses, composite_leaves=comp)
    return cls(include_subscripts=subs, include_lookups=looks, include_calls=calls,
               include_cses=cses, composite_leaves=comp)


def setdiff(got, want):
    missing = [G.src(w) for w in want if w not in got]
    extra = [G.src(g) for g in got if g not in want]
    return missing, extra


@check("C09.deps")
def c_deps(ctx, case):
    e, flag_list = case
    for flags in flag_list:
        want = set(depmodel(e, eff(flags)))
        for cached in (False, True):
            ctx.case(None)
            ctx.count("dep_calls")
            try:
                got = mk(flags, cached)(e)
            except RecursionError:
                raise
            except Exception as ex:  # noqa: BLE001
                ctx.fail("C09.deps", case, f"raised:{type(ex).__name__}:{_fs(flags)}",
                         f"DependencyMapper{_fs(flags)} cached={cached} raised {type(ex).__name__}: "
                         f"{ex} on {G.src(e)}")
                continue
            if not isinstance(got, (set, frozenset)) or got != want:
                missing, extra = setdiff(set(got), want)
                ctx.fail("C09.deps", case,
                         f"set:{'missing' if missing else ''}{'extra' if extra else ''}:{_fs(flags)}",
                         f"flags{_fs(flags)} cached={cached} on {G.src(e)}: missing {missing} extra {extra}")


def _fs(flags):
    return "(subs=%s,looks=%s,calls=%s,cses=%s,comp=%s)" % flags


@check("C09.history")
def c_history(ctx, case):
    """A sequence of calls on ONE mapper instance; earlier results must stay valid."""
    exprs, flags, cached = case
    m = mk(flags, cached)
    f = eff(flags)
    kept = []
    for i, e in enumerate(exprs):
        ctx.case(None)
        ctx.count("history_calls")
        want = set(depmodel(e, f))
        got = m(e)
        if got != want:
            missing, extra = setdiff(set(got), want)
            ctx.fail("C09.history", case, f"history:{'cached' if cached else 'plain'}:step",
                     f"call {i} of a history on one {'cached ' if cached else ''}mapper{_fs(flags)}: "
                     f"{G.src(e)} -> missing {missing} extra {extra}; earlier calls: "
                     f"{[G.src(x) for x in exprs[:i]]}")
        if type(got) is not set:
            ctx.fail("C09.history", case, f"history:result-type:{type(got).__name__}",
                     f"call {i} on one {'cached ' if cached else ''}mapper{_fs(flags)}: {G.src(e)} "
                     f"came back as a {type(got).__name__}, earlier answers were sets (callers "
                     f"update them in place: compile() does)")
        kept.append((got, set(want)))
        for j, (g0, w0) in enumerate(kept[:-1]):
            if g0 != w0:
                ctx.fail("C09.history", case, f"history:{'cached' if cached else 'plain'}:retroactive",
                         f"result of call {j} changed after call {i} on the same mapper: now "
                         f"{[G.src(x) for x in g0]}, was {[G.src(x) for x in w0]}")
                kept[j] = (g0, set(g0))


@check("C09.scribble")
def c_scribble(ctx, case):
    """What the analysis returns is the CALLER's: the caller goes on to update it in place
    (`deps |= ...`, `deps -= listed`, as compile() does) -- later answers of the same mapper
    must not see that.  (A wrapper at the root is answered with the table entry itself, also by
    the unchanged library: those answers are left alone.)"""
    exprs, flags = case
    m = mk(flags, False)
    f = eff(flags)
    junk = p.Variable("zz_scribbled_by_the_caller")
    for i, e in enumerate(exprs):
        ctx.case(None)
        ctx.count("scribble_calls")
        want = set(depmodel(e, f))
        got = m(e)
        if set(got) != want:
            missing, extra = setdiff(set(got), want)
            ctx.fail("C09.scribble", case, "scribble:later-answer-polluted",
                     f"call {i} on one mapper{_fs(flags)} whose earlier answers the caller updated "
                     f"in place: {G.src(e)} -> missing {missing} extra {extra}; earlier calls: "
                     f"{[G.src(x) for x in exprs[:i]]}")
            return
        # (only answers that were COMBINED from two or more operands: a wrapper at the root, and a
        #  node that passes its only operand's answer on -- not x, o.attr -- hand out the table
        #  entry itself in the unchanged library too)
        combining = (isinstance(e, (p.Sum, p.Product, p.Min, p.Max, p.BitwiseOr, p.BitwiseXor,
                                    p.BitwiseAnd, p.LogicalOr, p.LogicalAnd))
                     and len(e.children) >= 2) \
            or isinstance(e, (p.Quotient, p.FloorDiv, p.Remainder, p.Power, p.LeftShift,
                              p.RightShift, p.Comparison, p.If))
        if combining and isinstance(got, set):
            got.add(junk)
            got.discard(next(iter(want), junk))


@check("C09.needs")
def c_needs(ctx, case):
    """With all composites off the result is the full variable set: evaluation restricted
    to exactly those names never raises an unknown-variable error."""
    e, env = case
    for cached in (False, True):
        cls = CachedDependencyMapper if cached else DependencyMapper
        deps = cls(composite_leaves=False)(e)
        names = set()
        for d in deps:
            if not isinstance(d, p.Variable):
                ctx.fail("C09.needs", case, "non-variable-in-all-off",
                         f"composite_leaves=False returned non-variable {G.src(d)} for {G.src(e)}")
            else:
                names.add(d.name)
        want_names = G.variables_of(e)
        if names != want_names:
            ctx.fail("C09.needs", case, "all-off-not-full-variable-set",
                     f"{G.src(e)}: reported {sorted(names)}, variables occurring {sorted(want_names)}")
        renv = {k: v for k, v in env.items() if k in names}
        ctx.case(None)
        ctx.count("restricted_evals")
        try:
            EvaluationMapper(renv)(e)
        except UnknownVariableError as ex:
            ctx.fail("C09.needs", case, "evaluation-needs-unreported-variable",
                     f"{G.src(e)} evaluated with only the reported names {sorted(names)} raised "
                     f"UnknownVariableError({ex})")
        except RecursionError:
            raise
        except Exception:  # noqa: BLE001  arithmetic errors are fine here
            pass


# {{{ counts

def model_node_counts(e):
    # distinct by (type, ==): a composite equal to one already seen (e.g. LeftShift(0.0, a)
    # and LeftShift(False, a)) is the *same* subexpression and is not entered again
    with_t, without_t = {}, {}
    stack = [e]
    while stack:
        o = stack.pop()
        try:
            key = (type(o), o)
            hash(key)
        except TypeError:
            key = (type(o), id(o))
        if key in with_t:
            continue
        with_t[key] = 1
        if not isinstance(o, (tuple, list)):
            without_t[key] = 1
        stack.extend(children(o))
    return len(without_t), len(with_t)


def model_flops(e, cse_once, seen):
    if isinstance(e, p.CommonSubexpression) and cse_once:
        if e in seen:
            return 0
        seen.add(e)
        return model_flops(e.child, cse_once, seen)
    own = 0
    if type(e) in (p.Sum, p.Product):
        own = max(len(e.children) - 1, 0)
    elif type(e) in (p.Quotient, p.FloorDiv, p.Power):
        own = 1
    return own + sum(model_flops(c, cse_once, seen) for c in children(e))


class _Unwalkable(p.Expression):
    """a node type no counter knows (and that names no handler an ancestor could take over)"""
    init_arg_names = ()
    mapper_method = "map_vf_unwalkable"

    def __getinitargs__(self):
        return ()


@check("C09.counts")
def c_counts(ctx, case):
    e = case
    lo, hi = model_node_counts(e)
    # composites that are == but differ in a constant's type (Max((0,)) vs Max((False,))) make
    # "distinct subexpressions" depend on visiting order: widen to what any order can give
    amb = {}
    for o in occurrences(e):
        if isinstance(o, (p.Expression, tuple)):
            try:
                amb.setdefault((type(o), o), set()).add(normal.typed_key(o))
            except TypeError:
                pass
    n_amb = sum(len(v) - 1 for v in amb.values() if len(v) > 1)
    if n_amb:
        ctx.count("node_count_type_ambiguous")
        slack = sum(len(occurrences(k[1])) for k, v in amb.items() if len(v) > 1)
        lo, hi = lo - slack, hi + slack
    # ... after a FAILED count that the caller caught (a tree with a leaf the counter cannot
    # visit, met after some nodes were already counted): the next count starts from nothing
    for bad in (p.Sum((p.Product((p.Variable("q1"), p.Variable("q2"))), p.Variable("q3"), "a string leaf")),
                p.Product((p.Sum((p.Variable("q1"), 2)), _Unwalkable()))):
        try:
            get_num_nodes(bad)
        except RecursionError:
            raise
        except Exception:  # noqa: BLE001
            ctx.count("failed_counts_before_a_valid_one")
    for name, fn in (("get_num_nodes", lambda: get_num_nodes(e)),
                     ("NodeCountMapper", lambda: _ncm(e))):
        ctx.case(None)
        ctx.count("node_counts")
        try:
            got = fn()
        except (UnsupportedExpressionError, NotImplementedError):
            ctx.count("node_count_refused")
            continue
        if not (lo <= got <= hi):
            ctx.fail("C09.counts", case, f"nodecount:{name}",
                     f"{name}({G.src(e)}) = {got}, independent count of distinct subexpressions "
                     f"is {lo} (tuples not counted) .. {hi} (tuples counted)")
    for name, cls, once in (("FlopCounter", FlopCounter, False),
                            ("CSEAwareFlopCounter", CSEAwareFlopCounter, True)):
        ctx.case(None)
        ctx.count("flop_counts")
        want = model_flops(e, once, set())
        try:
            got = cls()(e)
        except (UnsupportedExpressionError, NotImplementedError):
            ctx.count("flop_count_refused")
            continue
        if got != want:
            ctx.fail("C09.counts", case, f"flops:{name}",
                     f"{name}({G.src(e)}) = {got}, independent count = {want}")
    # CSE-aware counter reused: each distinct wrapper once per instance
    c = CSEAwareFlopCounter()
    seen = set()
    for k in range(2):
        ctx.case(None)
        want = model_flops(e, True, seen)
        try:
            got = c(e)
        except (UnsupportedExpressionError, NotImplementedError):
            break
        if got != want:
            ctx.fail("C09.counts", case, "flops:cse-aware-reuse",
                     f"call {k} on one CSEAwareFlopCounter for {G.src(e)} = {got}, expected {want}")
    # and a fresh instance must not inherit the seen-set
    try:
        if CSEAwareFlopCounter()(e) != model_flops(e, True, set()):
            ctx.fail("C09.counts", case, "flops:seen-set-shared",
                     f"fresh CSEAwareFlopCounter after another instance miscounts {G.src(e)}")
    except (UnsupportedExpressionError, NotImplementedError):
        pass


def _ncm(e):
    m = NodeCountMapper()
    m(e)
    return m.count

# }}}


DEP_KINDS = [k for k in G.AnyGen.KINDS if k not in ("subst", "deriv")]
FLOP_KINDS = ["sum", "prod", "quot", "fdiv", "rem", "pow", "cmp", "if", "min", "max", "call",
              "callkw", "sub", "subt", "look", "cse", "cse2", "lsh", "bor", "band", "lnot", "lor"]


def workload(ctx):
    rng = ctx.rng
    with HandlerTrace([depmod, flopmod, anamod, mapmod]) as tr:
        g = G.AnyGen(rng, kinds=DEP_KINDS, hist=ctx.hist, names="xyzab", leaf_extra=True)
        g.LEAF_EXTRA = ["wild", "dot", "star", "fsym", "nan", "nan2"]
        n = ctx.per_shard(ctx.pick(1200, 24000))
        for i in range(n):
            g.pool = []
            e = g.gen(rng.randint(1, ctx.pick(4, 6)))
            nt = normal.count_ops(e) >= 1
            ctx.case(normal.typed_key(e), nt, n=0)
            if i < 3:
                ctx.sample("deps-all-72-flag-settings", G.src(e))
            ctx.run("C09.deps", (e, FLAGS))
        ctx.set_exhaustive("72 flag settings per tree")
        # histories on one instance (shared pieces first operand of their parent, CSEs)
        for i in range(ctx.per_shard(ctx.pick(600, 12000))):
            g.pool = []
            shared = [g.gen(rng.randint(0, 2)) for _ in range(3)]
            shared.append(p.CommonSubexpression(g.gen(2)))
            exprs = []
            for _ in range(rng.randint(2, 6)):
                s = rng.choice(shared)
                o = g.gen(rng.randint(0, 2))
                cls = rng.choice([p.Sum, p.Product, p.Min, p.BitwiseOr])
                exprs.append(rng.choice([cls((s, o)), cls((o, s)), p.Quotient(s, o),
                                         p.Call(p.Variable("f"), (s, o)), s]))
            flags = rng.choice(FLAGS)
            ctx.case(("hist", normal.typed_key(tuple(exprs)), flags), True, n=0)
            if i < 1:
                ctx.sample("history-on-one-mapper", [G.src(x) for x in exprs])
            for cached in (False, True):
                ctx.run("C09.history", (exprs, flags, cached))
            ctx.run("C09.scribble", (exprs + exprs[:2], flags))
        # restricted evaluation
        tg = G.TypedGen(rng, hist=ctx.hist)
        for i in range(ctx.per_shard(ctx.pick(1500, 30000))):
            tg.pool = {"int": [], "num": [], "bool": []}
            e = tg.any_sort(rng.randint(1, 5))
            if not isinstance(e, p.Expression):
                continue
            env = G.base_env(rng.choice([-1, 0, 2, 3]), rng.choice([-2, 0, 1]), rng.choice([0, 1, 5]),
                             s=rng.choice([0, 1]), t=rng.choice([True, False]))
            ctx.case(normal.typed_key(e), normal.count_ops(e) >= 1, n=0)
            ctx.run("C09.needs", (e, env))
        # counts
        fg = G.AnyGen(rng, kinds=FLOP_KINDS, hist=ctx.hist, leaf_extra=False, share_p=0.3)
        for i in range(ctx.per_shard(ctx.pick(3000, 60000))):
            fg.pool = []
            e = fg.gen(rng.randint(1, 5))
            ctx.case(normal.typed_key(e), normal.count_ops(e) >= 1, n=0)
            if i < 2:
                ctx.sample("counts", G.src(e))
            ctx.run("C09.counts", e)
        # scale: expressions of 1200 .. 8000 (thorough 36000) distinct nodes, wide nodes
        from .c05 import big_expression
        for n in ([400, 700, 2600] if not ctx.thorough else [400, 700, 1500, 2600, 12000]):
            if ctx.mine("big"):
                e = big_expression(n, rng)
                ctx.case(("big", n), True, n=0)
                ctx.count("big_expressions")
                ctx.run("C09.counts", e)
                fl = rng.sample(FLAGS, 4)
                if n <= 2600:       # (folding 12000 result sets pairwise is quadratic: a cost,
                    ctx.run("C09.deps", (e, fl))    # 19 s of the 20 s CPU budget, no verdict)
        for w in scale.WIDTHS:
            if not ctx.mine("wide"):
                continue
            vs = scale.variables(w)
            for mk in (p.Sum, p.Product, p.Max, p.LogicalOr, lambda t: p.Call(p.Variable("f"), t),
                       lambda t: p.Subscript(p.Variable("a"), t),
                       lambda t: p.CallWithKwargs(p.Variable("f"), t[:2],
                                                  immutabledict({f"k{i}": v for i, v in enumerate(t)}))):
                kids = tuple(rng.choice([v, p.Sum((v, 1)), p.Subscript(v, 0), p.Lookup(v, "w"),
                                         p.Call(v, (p.Variable("q"),)), 3]) for v in vs)
                e = mk(kids)
                ctx.case(("wide", normal.typed_key(e)), True, n=0)
                ctx.count("wide_nodes")
                ctx.run("C09.deps", (e, rng.sample(FLAGS, 6)))
                ctx.run("C09.counts", e)
        # depth: one family nested in itself (a[i][j][k], a[a[a[i]]], f(f(f(x))), o.a.b.c,
        # wrappers in wrappers), 3 .. 33 levels, every level with its own index / argument name;
        # all 72 flag combinations on the small depths
        fams = scale.family_towers()
        for fam in ("subscript-aggregate", "subscript-index", "lookup", "call", "call-2nd-arg", "cse",
                    "cse-prefixed", "if-branch", "if-condition", "sum-in-product", "power-tower", "min"):
            for depth in (3, 4, 5, 6, 8, 12, 33):
                if not ctx.mine("deep"):
                    continue
                for core in (p.Variable("u"), p.Subscript(p.Variable("u"), p.Variable("v"))):
                    e = scale.nest(fams[fam], depth, core)
                    ctx.case(("deep", fam, depth, type(core).__name__), True, n=0)
                    ctx.count("deep_towers")
                    sub_r = ctx.sub_rng("deep-flags", fam, depth)
                    ctx.run("C09.deps", (e, FLAGS if depth <= 4 else sub_r.sample(FLAGS, 12)))
                    ctx.run("C09.counts", e)
        for k, v in tr.handlers().items():
            ctx.count("handler:" + k, v)
    ctx.floor("wide_nodes", 150)
    ctx.floor("deep_towers", 100)
    ctx.floor("failed_counts_before_a_valid_one", 1000)
    ctx.floor("big_expressions", 3)
    ctx.floor("dep_calls", 72 * 2 * 500)
    ctx.floor("history_calls", 3000)
    ctx.floor("scribble_calls", 1500)
    ctx.floor("restricted_evals", 2000)
    ctx.floor("node_counts", 2000)
    ctx.floor("flop_counts", 2000)
    for h in ("DependencyMapper.map_call", "DependencyMapper.map_call_with_kwargs",
              "DependencyMapper.map_lookup", "DependencyMapper.map_subscript",
              "DependencyMapper.map_common_subexpression_uncached", "DependencyMapper.map_slice"):
        ctx.floor("handler:" + h, 1000)


RULE = RULE + '  Later additions: 12 families nested 3-33 deep under all 72 flag sets; failed counts before every judged count; answers updated in place by the caller.'
