"""C10 — symbolic differentiation yields the true derivative."""
from __future__ import annotations

import cmath
import itertools
import math
from fractions import Fraction as F

import pymbolic.functions as pf
import pymbolic.primitives as p
from pymbolic import differentiate, var
from pymbolic.mapper.differentiator import DifferentiationMapper
import pymbolic.mapper.differentiator as diffmod

from ..core import check, short
from ..gen import expr as G
from ..gen import scale
from ..mon import streams
from ..mon.trace import HandlerTrace
from ..ref import normal, refsem
from ..ref.dual import D, DualMath, Kinks

RULE = ("random expressions over sums, products (1-4 factors, some with zero derivative), quotients "
        "(all four df/dg zero/non-zero cases), powers (constant/variable base x constant/variable "
        "exponent; variable exponents over positive bases), the eleven functions of "
        "pymbolic.functions, If, shared/nested CSEs, subscripted variables; every expression is "
        "differentiated w.r.t. x, y, an absent variable and a[0] IN SEQUENCE in one process under one "
        "of the three non-smoothness settings and compared at 6-12 points with forward-mode dual "
        "numbers (exact == over Fractions for the algebraic fragment, relative 1e-7 otherwise; points "
        "closer than 1e-3 to a kink are skipped).  Refusals are accepted only when the expression "
        "contains a construct the setting forbids.  distinct = typed key of (expression, variable, "
        "setting); non-trivial = expression has >=1 operator node.")
ASSUMPTIONS = [
    "the derivative expression is evaluated with the independent reference evaluator (pinned to "
    "pymbolic's by C02), with `math` and `log` bound",
    "general copysign(u, v) is outside pymbolic.functions: only sign(x)=copysign(1, x) is generated",
    "a constant base <= 0 under a variable exponent has no real derivative and is not generated",
]

X, Y, Z, W, A = (var(n) for n in "xyzwa")
FUN = [pf.sin, pf.cos, pf.tan, pf.log, pf.exp, pf.sinh, pf.cosh, pf.tanh, pf.expm1, pf.fabs, pf.sign]
SETTINGS = ["none", "continuous", "discontinuous"]


def gen(r, d, alg, hist):
    if d <= 0 or r.random() < 0.2:
        return r.choice([X, X, Y, Z, r.randint(-3, 3), 2, 3, p.Subscript(A, r.randint(0, 1))])
    ks = ["sum", "prod", "prod", "quot", "powc", "cse", "neg"] + \
        ([] if alg else ["fun", "fun", "fun", "powv", "powvv", "if"])
    k = r.choice(ks)
    g = lambda: gen(r, d - 1, alg, hist)  # noqa: E731
    if k == "sum":
        e = p.Sum(tuple(g() for _ in range(r.randint(1, 3))))
    elif k == "prod":
        e = p.Product(tuple(g() for _ in range(r.randint(1, 4))))
    elif k == "neg":
        e = p.Product((-1, g()))
    elif k == "quot":
        den = g()
        if not isinstance(den, p.Expression) and den == 0:
            den = 3       # x/0 is undefined everywhere: not a differentiable expression
        e = p.Quotient(g(), den)
    elif k == "powc":
        e = p.Power(g(), r.choice([0, 1, 2, 3, -1, -2]))
    elif k == "powv":      # constant positive base, variable exponent
        e = p.Power(r.choice([2, 3, F(3, 2) if alg else 1.5]), g())
    elif k == "powvv":     # positive variable base, variable exponent
        e = p.Power(p.Sum((p.Power(g(), 2), 1)), g())
    elif k == "cse":
        e = p.CommonSubexpression(g(), r.choice([None, "c"]))
    elif k == "fun":
        f = r.choice(FUN)
        if f is pf.log:
            e = f(p.Sum((p.Power(g(), 2), 1)))
        elif f in (pf.exp, pf.sinh, pf.cosh, pf.expm1, pf.tan):
            e = f(p.Quotient(g(), 8))          # keep magnitudes moderate
        else:
            e = f(g())
        hist["fun:" + f.__name__] += 1
    elif k == "if":
        e = p.If(p.Comparison(g(), r.choice(["<", ">", "<=", ">="]), g()), g(), g())
    else:
        raise ValueError(k)
    hist[type(e).__name__] += 1
    return e


def forbidden(e, setting, in_diff_pos=True):
    """Constructs of *e*, in positions the differentiator must treat, that *setting* forbids."""
    out = []
    if isinstance(e, p.If):
        if setting != "discontinuous":
            out.append("If")
        out += forbidden(e.then, setting) + forbidden(e.else_, setting)
        return out
    if isinstance(e, p.Call):
        f = e.function
        name = f.name if isinstance(f, p.Lookup) and f.aggregate == var("math") else None
        arity = {"copysign": 2}.get(name, 1)
        if name is not None and len(e.parameters) != arity:
            # math.log(x, base), math.sin(): not an entry of the derivative table
            out.append("unknown-function")
        elif name == "fabs" and setting == "none":
            out.append("fabs")
        elif name == "copysign" and setting != "discontinuous":
            out.append("copysign")
        elif name not in ("sin", "cos", "tan", "log", "exp", "sinh", "cosh", "tanh", "expm1",
                          "fabs", "copysign"):
            out.append("unknown-function")
        for c in e.parameters:
            out += forbidden(c, setting)
        return out
    if isinstance(e, p.Subscript) or not isinstance(e, p.Expression):
        return out
    from ..ref.children import children
    for c in children(e):
        out += forbidden(c, setting)
    return out


def points(rng, n, alg):
    for _ in range(n):
        pt = {"x": F(rng.randint(-7, 7), 4) + F(1, 8), "y": F(rng.randint(1, 9), 2) + F(1, 16),
              "z": F(rng.randint(-9, 9), 8) + F(1, 32),
              "a": [F(rng.randint(-5, 5), 2) + F(1, 4), F(3, 4)]}
        if not alg:
            pt = {k: ([float(u) for u in v] if isinstance(v, list) else float(v))
                  for k, v in pt.items()}
        yield pt


def dual_env(pt, wrt):
    env = {}
    for k, v in pt.items():
        if isinstance(v, list):
            env[k] = [D(u, 1 if wrt == p.Subscript(var(k), j) else 0) for j, u in enumerate(v)]
        else:
            env[k] = D(v, 1 if wrt == var(k) else 0)
    env["math"] = DualMath
    return env


WRTS = [X, Y, W, p.Subscript(A, 0), "x", "z"]


@check("C10.diff")
def c_diff(ctx, case):
    e, setting, alg, seed = case
    rng = ctx.sub_rng("pts", seed)
    forb = forbidden(e, setting)
    for wrt in WRTS:
        ctx.case((normal.typed_key(e), str(wrt), setting), normal.count_ops(e) >= 1, n=0)
        try:
            de = differentiate(e, wrt, allowed_nonsmoothness=setting)
        except (ValueError, RuntimeError) as ex:
            ctx.case(None)
            ctx.count("refused")
            if not forb:
                ctx.fail("C10.diff", case, f"refused-smooth:{type(ex).__name__}",
                         f"differentiate({e}, {wrt}, {setting!r}) raised {type(ex).__name__}: {ex} "
                         f"although nothing in it is forbidden under that setting")
            continue
        except RecursionError:
            raise
        except Exception as ex:  # noqa: BLE001
            ctx.fail("C10.diff", case, f"crashed:{type(ex).__name__}",
                     f"differentiate({e}, {wrt}, {setting!r}) raised {type(ex).__name__}: {ex}")
            continue
        if forb:
            ctx.fail("C10.diff", case, f"not-refused:{forb[0]}:{setting}",
                     f"differentiate({e}, {wrt}, {setting!r}) returned {de} although the expression "
                     f"contains {sorted(set(forb))}, which that setting does not allow")
            continue
        wv = p.make_variable(wrt) if isinstance(wrt, str) else wrt
        for pt in points(rng, 6, alg):
            Kinks.reset()
            try:
                ref = D.lift(refsem.ev(e, dual_env(pt, wv)))
            except (ZeroDivisionError, ValueError, OverflowError, TypeError):
                ctx.count("point_undefined")
                continue
            if Kinks.margin < 1e-3:
                ctx.count("point_near_kink")
                continue
            env = dict(pt)
            env["math"] = math
            env["log"] = math.log
            ctx.case(None)
            ctx.count("derivative_evals")
            ctx.count("exact" if alg else "float")
            got = refsem.outcome(lambda: refsem.ev(de, env))
            if got[0] != "v":
                if got[1] in ("ZeroDivisionError", "OverflowError", "ValueError"):
                    ctx.count("derivative_undefined_at_point")
                    continue
                ctx.fail("C10.diff", case, f"derivative-eval:{got[1]}",
                         f"d/d{wrt} of {e} is {de}; evaluating it at {pt} raised {got[1]}")
                continue
            try:
                ref_finite = cmath.isfinite(complex(ref.d))
            except (OverflowError, TypeError):
                ref_finite = False
            if not ref_finite:
                ctx.count("reference_derivative_not_finite_in_floats")
                continue
            if isinstance(got[1], (float, complex)) and not cmath.isfinite(got[1]):
                # float overflow inside the derivative (huge**997 * 0 -> inf * 0 -> nan): the
                # point is outside what binary floats can carry, not a statement about the rule
                ctx.count("derivative_not_finite_in_floats")
                continue
            try:
                if alg and not isinstance(got[1], (float, complex)) \
                        and not isinstance(ref.d, (float, complex)):
                    ok = got[1] == ref.d
                    ctx.count("compared_exactly")
                else:   # 1/3 or 3**-1 folded to a float while the derivative was built
                    a, b = complex(got[1]), complex(ref.d)
                    ok = abs(a - b) <= 1e-7 * (1 + abs(b)) or (math.isinf(b.real) and a == b)
            except (OverflowError, TypeError):
                ok = True
            if not ok and not alg and _ill_conditioned(de, env, got[1]):
                # catastrophic cancellation ((c/x)*x differentiated, times 65**9): the value of
                # the derivative expression itself moves by more than the tolerance when the
                # point moves by one part in 10**12 -- floats cannot decide this point
                ctx.count("ill_conditioned_float_point")
                continue
            if not ok:
                ctx.fail("C10.diff", case, f"value:{'exact' if alg else 'float'}:{_top(e)}",
                         f"d/d{wrt} of {e} [{setting}] = {de}; at {pt} it evaluates to {got[1]!r} but "
                         f"the dual-number derivative is {ref.d!r}")
                break


@check("C10.again")
def c_again(ctx, case):
    """Higher derivatives the way programs take them: ONE DifferentiationMapper applied to its
    own earlier output (which contains the very wrapper objects it built), and to the input once
    more.  Each result is the derivative of the expression it was GIVEN -- judged by dual numbers
    on a separately built copy of that expression, at exact points."""
    e, wname, seed = case
    rng = ctx.sub_rng("pts", seed)
    wv = p.Variable(wname)
    dm = DifferentiationMapper(wv)
    given = e
    for order in (1, 2, 3, 1):
        if order == 1:
            given = e
        copy_ = G.deep_rebuild(given)
        try:
            out = dm(given)
        except RecursionError:
            raise
        except Exception as ex:  # noqa: BLE001
            ctx.fail("C10.again", case, f"again:raised:{type(ex).__name__}",
                     f"derivative number {order} with one DifferentiationMapper({wname}) of {copy_} "
                     f"raised {type(ex).__name__}: {ex}")
            return
        if normal.count_ops(out) > 4000:
            return
        for pt in points(rng, 3, True):
            try:
                ref = D.lift(refsem.ev(copy_, dual_env(pt, wv)))
            except (ZeroDivisionError, ValueError, OverflowError, TypeError):
                ctx.count("point_undefined")
                continue
            got = refsem.outcome(lambda: refsem.ev(out, dict(pt)))
            if got[0] != "v":
                ctx.count("derivative_undefined_at_point")
                continue
            ctx.case(None)
            ctx.count("repeated_derivative_values")
            if isinstance(got[1], (float, complex)) or isinstance(ref.d, (float, complex)):
                a, b = complex(got[1]), complex(ref.d)
                ok = abs(a - b) <= 1e-7 * (1 + abs(b))
            else:
                ok = got[1] == ref.d
            if not ok:
                ctx.fail("C10.again", case, f"again:value:order{order}",
                         f"one DifferentiationMapper({wname}), call number {order} of the history "
                         f"(its own previous output as input): d/d{wname} of {copy_} = {out}; at {pt} "
                         f"that is {got[1]!r}, the dual-number derivative of the input is {ref.d!r}")
                return
        given = out


U_ = p.Variable("u")
SYMBOLIC_DEFS = {"sq": (U_, p.Sum((p.Power(U_, 2), 1))), "cube": (U_, p.Power(U_, 3)),
                 "lin": (U_, p.Sum((p.Product((3, U_)), 2))),
                 "nest2": (U_, p.Call(p.Variable("sq"), (p.Sum((U_, 1)),)))}


def _inline_defs(e):
    import dataclasses
    if isinstance(e, p.Call) and isinstance(e.function, p.Variable) and e.function.name in SYMBOLIC_DEFS:
        formal, body = SYMBOLIC_DEFS[e.function.name]
        from .c08 import refsub
        return _inline_defs(refsub(body, [(formal.name, _inline_defs(e.parameters[0]))]))
    if isinstance(e, tuple):
        return tuple(_inline_defs(c) for c in e)
    if isinstance(e, p.Expression) and dataclasses.is_dataclass(e):
        return type(e)(*[_inline_defs(getattr(e, f.name)) for f in dataclasses.fields(e)])
    return e


@check("C10.reentrant")
def c_reentrant(ctx, case):
    """Functions defined by expressions (sq(u) := u**2 + 1): the function table handed to
    differentiate() obtains their derivative by differentiating the defining body with respect
    to the formal parameter -- differentiate() is re-entered, with another variable, while the
    outer traversal is running.  The outer result is the true partial derivative."""
    e, wname, seed = case
    from pymbolic import substitute
    from pymbolic.mapper.differentiator import map_math_functions_by_name

    def func_mapper(i, func, pars, allowed_nonsmoothness="none"):
        if isinstance(func, p.Variable) and func.name in SYMBOLIC_DEFS:
            formal, body = SYMBOLIC_DEFS[func.name]
            dbody = differentiate(body, formal, func_mapper, allowed_nonsmoothness=allowed_nonsmoothness)
            return substitute(dbody, {formal.name: pars[0]})
        return map_math_functions_by_name(i, func, pars, allowed_nonsmoothness=allowed_nonsmoothness)
    rng = ctx.sub_rng("pts", seed)
    wv = p.Variable(wname)
    flat = _inline_defs(e)
    fns = {k: (lambda t, k=k: refsem.ev(SYMBOLIC_DEFS[k][1], {"u": t, **fns})) for k in SYMBOLIC_DEFS}
    try:
        de = differentiate(e, wv, func_mapper)
        de2 = differentiate(e, wv, func_mapper)
    except RecursionError:
        raise
    except Exception as ex:  # noqa: BLE001
        ctx.fail("C10.reentrant", case, f"reentrant:raised:{type(ex).__name__}",
                 f"differentiate({e}, {wname}) with a function table that re-enters differentiate() "
                 f"raised {type(ex).__name__}: {ex}")
        return
    for pt in points(rng, 4, True):
        try:
            ref = D.lift(refsem.ev(flat, dual_env(pt, wv)))
        except (ZeroDivisionError, ValueError, OverflowError, TypeError):
            ctx.count("point_undefined")
            continue
        for d_, which in ((de, "first"), (de2, "second")):
            got = refsem.outcome(lambda: refsem.ev(d_, {**pt, **fns}))
            ctx.case(None)
            ctx.count("reentrant_derivative_values")
            if got[0] != "v" or not (got[1] == ref.d):
                ctx.fail("C10.reentrant", case, "reentrant:value",
                         f"d/d{wname} of {e} = {d_} ({which} call; sq, cube, lin, nest2 are defined by "
                         f"expressions and differentiated by re-entering differentiate()); at {pt}: "
                         f"{short(got)}, the dual-number derivative of the written-out expression "
                         f"{flat} is {ref.d!r}")
                return


@check("C10.refusal")
def c_refusal(ctx, case):
    """Non-smooth functions are refused unless allowed -- through every entry point (the
    differentiate() wrapper, the mapper class used directly, the default and an explicit None),
    and whatever was differentiated EARLIER in the process under a more permissive setting."""
    e, order = case
    # ... and whatever FAILED earlier: calls with arguments no function accepts (math.log(None),
    # a string, a tuple), refused functions, an unknown function -- each caught by the caller
    pm = p.Variable("math")
    for bad in (p.Product((p.Call(p.Lookup(pm, "log"), (None,)), X)),
                p.Sum((p.Call(p.Lookup(pm, "sin"), ("abc",)), X)),
                p.Call(p.Lookup(pm, "exp"), ((X, 1),)),
                p.Call(p.Lookup(pm, "fabs"), (X,)), p.Call(p.Variable("nosuchfunction"), (X,)),
                p.Call(p.Lookup(pm, "log"), ())):
        for setting in ("none", "continuous", "discontinuous"):
            try:
                differentiate(bad, "x", allowed_nonsmoothness=setting)
            except RecursionError:
                raise
            except Exception:  # noqa: BLE001
                ctx.count("failed_differentiations_before_the_judged_one")
    entry = [
        ("differentiate", lambda s: differentiate(e, "x", allowed_nonsmoothness=s), None),
        ("mapper", lambda s: DifferentiationMapper(X, allowed_nonsmoothness=s)(e), None),
    ]
    for setting in order:
        forb = forbidden(e, setting)
        for name, fn, _ in entry:
            ctx.case(None)
            ctx.count("refusal_checks")
            try:
                fn(setting)
                refused = False
            except (ValueError, RuntimeError):
                refused = True
            except RecursionError:
                raise
            except Exception as ex:  # noqa: BLE001
                ctx.fail("C10.refusal", case, f"crashed:{type(ex).__name__}",
                         f"{name}({e}, {setting!r}) raised {type(ex).__name__}: {ex}")
                continue
            if refused != bool(forb):
                ctx.fail("C10.refusal", case,
                         f"{'refused-allowed' if refused else 'not-refused'}:{name}:{setting}",
                         f"{name} on {e} under {setting!r} after {order[:order.index(setting)]}: "
                         f"{'refused' if refused else 'returned a derivative'}, forbidden constructs "
                         f"under that setting: {sorted(set(forb))}")
    # defaults: no argument and an explicit None both mean "none"
    forb = forbidden(e, "none")
    for name, fn in (("differentiate()", lambda: differentiate(e, "x")),
                     ("DifferentiationMapper(x)", lambda: DifferentiationMapper(X)(e)),
                     ("DifferentiationMapper(x, None)",
                      lambda: DifferentiationMapper(X, allowed_nonsmoothness=None)(e))):
        ctx.case(None)
        ctx.count("refusal_checks")
        try:
            fn()
            refused = False
        except (ValueError, RuntimeError):
            refused = True
        except RecursionError:
            raise
        except Exception as ex:  # noqa: BLE001
            ctx.fail("C10.refusal", case, f"crashed:{type(ex).__name__}", f"{name}: {ex}")
            continue
        if refused != bool(forb):
            ctx.fail("C10.refusal", case, f"default:{'refused-allowed' if refused else 'not-refused'}",
                     f"{name} on {e}: {'refused' if refused else 'returned a derivative'}; with no "
                     f"non-smoothness allowed the forbidden constructs are {sorted(set(forb))}")


def _plain_numbers(e):
    """the expression with every numpy scalar replaced by the exact Python number it holds"""
    import numpy as np

    def leaf(v):
        if isinstance(v, np.bool_):
            return bool(v)
        if isinstance(v, np.integer):
            return int(v)
        if isinstance(v, np.floating):
            return F(float(v))
        return v
    return G.deep_rebuild(e, leaf=leaf)


@check("C10.kinds")
def c_kinds(ctx, case):
    """Constants of fixed-width numpy kinds (they wrap around when multiplied), floats where
    ints are usual, bools: the differentiator does symbol manipulation, not arithmetic in the
    constants' own type -- the derivative, read with every constant as the exact number it
    holds, is the derivative of the expression read the same way."""
    e, wrt, seed = case
    rng = ctx.sub_rng("pts", seed)
    wv = p.make_variable(wrt) if isinstance(wrt, str) else wrt
    ctx.case(None)
    ctx.count("kind_derivatives")
    try:
        de = differentiate(e, wrt)
    except RecursionError:
        raise
    except Exception as ex:  # noqa: BLE001
        ctx.fail("C10.kinds", case, f"raised:{type(ex).__name__}",
                 f"differentiate({G.src(e)}, {wrt}) raised {type(ex).__name__}: {ex}")
        return
    pe, pde = _plain_numbers(e), _plain_numbers(de)
    for pt in points(rng, 3, True):
        Kinks.reset()
        try:
            ref = D.lift(refsem.ev(pe, dual_env(pt, wv)))
        except (ZeroDivisionError, ValueError, OverflowError, TypeError):
            continue
        got = refsem.outcome(lambda: refsem.ev(pde, dict(pt)))
        if got[0] != "v":
            continue
        ctx.count("kind_derivative_values")
        try:
            ok = got[1] == ref.d if not isinstance(got[1], float) and not isinstance(ref.d, float) \
                else abs(complex(got[1]) - complex(ref.d)) <= 1e-9 * (1 + abs(complex(ref.d)))
        except (OverflowError, TypeError):
            ok = True
        if not ok:
            ctx.fail("C10.kinds", case, f"value:{_top(e)}",
                     f"d/d{wrt} of {G.src(e)} = {G.src(de)}; read with exact constants, at {pt} it "
                     f"is {got[1]!r}, the dual-number derivative of the expression read the same "
                     f"way is {ref.d!r}")
            return


def stream_rows(seed, n):
    import random
    from collections import Counter
    r = random.Random(seed)
    h = Counter()
    for i in range(n):
        k = r.random()
        if k < 0.4:
            yield p.Power(p.CommonSubexpression(p.Sum((p.Power(X, 2 + i % 5), i))), 2)
        elif k < 0.6:
            yield p.Product((p.CommonSubexpression(p.Sum((p.Product((i + 1, X)), Y)), "c"),
                             p.CommonSubexpression(gen(r, 1, True, h))))
        else:
            e = gen(r, 2, True, h)
            yield p.CommonSubexpression(e if isinstance(e, p.Expression) else p.Sum((X, i)))


@check("C10.stream")
def c_stream(ctx, case):
    """ONE DifferentiationMapper over a stream of temporaries wrapped in common
    subexpressions (each row dropped before the next is built): every derivative is the true
    one, compared exactly over Fractions with dual numbers."""
    seed, n, wrt = case
    wv = p.make_variable(wrt) if isinstance(wrt, str) else wrt
    dm = DifferentiationMapper(wv)
    rng = ctx.sub_rng("pts", seed)
    pts = list(points(rng, 3, True))

    def judge(i, e):
        ctx.case(None)
        ctx.count("stream:derivatives")
        try:
            de = dm(e)
        except RecursionError:
            raise
        except Exception as ex:  # noqa: BLE001
            ctx.fail("C10.stream", case, f"crashed:{type(ex).__name__}",
                     f"row {i}: one DifferentiationMapper({wrt}) on {e} raised "
                     f"{type(ex).__name__}: {ex}")
            return
        for pt in pts:
            Kinks.reset()
            try:
                ref = D.lift(refsem.ev(e, dual_env(pt, wv)))
            except (ZeroDivisionError, ValueError, OverflowError, TypeError):
                continue
            got = refsem.outcome(lambda: refsem.ev(de, dict(pt)))
            if got[0] != "v":
                if got[1] in ("ZeroDivisionError", "OverflowError", "ValueError"):
                    continue
                ctx.fail("C10.stream", case, f"derivative-eval:{got[1]}",
                         f"row {i}: d/d{wrt} of {e} is {de}; evaluating it at {pt} raised {got[1]}")
                return
            if isinstance(got[1], (float, complex)) or isinstance(ref.d, (float, complex)):
                continue
            ctx.count("stream:compared_exactly")
            if got[1] != ref.d:
                ctx.fail("C10.stream", case, f"value:{_top(e)}",
                         f"row {i} of a stream of temporaries through one "
                         f"DifferentiationMapper({wrt}): d/d{wrt} of {e} = {de}; at {pt} it is "
                         f"{got[1]!r} but the dual-number derivative is {ref.d!r}")
                return
    streams.each(ctx, stream_rows(seed, n), judge)


def _ill_conditioned(de, env, value):
    try:
        env2 = {}
        for k, v in env.items():
            if isinstance(v, float):
                env2[k] = v * (1 + 1e-12)
            elif isinstance(v, list):
                env2[k] = [u * (1 + 1e-12) if isinstance(u, float) else u for u in v]
            else:
                env2[k] = v
        v2 = refsem.outcome(lambda: refsem.ev(de, env2))
        if v2[0] != "v":
            return True
        a, b = complex(value), complex(v2[1])
        if not (abs(a - b) <= 1e-7 * (1 + abs(a))):
            return True
        # ... or the value is what is left of terms of size 1e13 cancelling (x**-2 * (3*x)**2 *
        # K differentiates to -18*K/x + 18*K/x): anything below 1e-9 of the largest
        # intermediate value is rounding noise on both sides
        scale = 0.0
        for x in G.walk(de):
            if isinstance(x, p.Expression):
                v = refsem.outcome(lambda: refsem.ev(x, env))
                if v[0] == "v" and isinstance(v[1], (int, float, complex, F)):
                    try:
                        scale = max(scale, abs(complex(v[1])))
                    except (OverflowError, TypeError):
                        pass
        return abs(a) <= 1e-9 * scale
    except (OverflowError, TypeError, ValueError):
        return True


def _top(e):
    return type(e).__name__


SPECIAL = [
    # (expression builder, note) hand-picked shapes hitting every shortcut branch
    lambda: p.Quotient(3, X), lambda: p.Quotient(X, 3), lambda: p.Quotient(Y, Z),
    lambda: p.Quotient(X, p.Sum((X, 1))), lambda: p.Power(X, X), lambda: p.Power(2, X),
    lambda: p.Power(X, Y), lambda: p.Power(p.Sum((p.Power(X, 2), 1)), p.Product((2, X))),
    lambda: p.Power(p.Product((3, p.Sum((p.Power(X, 2), 1)))), p.Product((2, X))),
    lambda: p.Power(p.Sum((p.Power(X, 2), 1)), p.Product((X, X))),
    lambda: p.Product((Y, Z, X, 4)), lambda: p.Product((X, X, X)),
    lambda: p.Sum((p.CommonSubexpression(p.Product((X, Y))), p.CommonSubexpression(p.Product((X, Y))))),
    lambda: p.CommonSubexpression(p.CommonSubexpression(p.Power(X, 3), "in"), "out"),
    lambda: p.Product((p.Subscript(A, 0), p.Subscript(A, 1), X)),
    lambda: pf.sign(X) * X, lambda: pf.fabs(p.Product((X, Y))),
    lambda: p.If(p.Comparison(X, "<", Y), p.Power(X, 2), p.Product((3, X))),
    lambda: p.Call(var("f"), (X,)), lambda: p.Call(p.Lookup(var("math"), "atan"), (X,)),
    # a power of a power with constant exponents: (x**2)**0.5 is |x|, not x (negative points!)
    lambda: p.Power(p.Power(X, 2), 0.5), lambda: p.Power(p.Power(X, 2), 1.5),
    lambda: p.Power(p.Power(p.Sum((X, Z)), 2), 0.5), lambda: p.Power(p.Power(X, 4), 0.25),
    lambda: p.Product((Y, p.Power(p.Power(p.Product((X, Y)), 2), 0.5))),
    lambda: p.Power(p.Power(X, 2), 3), lambda: p.Power(p.Power(p.Sum((p.Power(X, 2), 1)), 0.5), 3),
    # table functions of CONSTANT arguments (the chain rule meets a zero inner derivative and,
    # for log, an integer reciprocal), bare, as a factor and wrapped
    lambda: p.Product((p.Call(p.Lookup(var("math"), "log"), (2,)), X)),
    lambda: p.Call(p.Lookup(var("math"), "log"), (3,)),
    lambda: p.Sum((p.Call(p.Lookup(var("math"), "sin"), (2,)), p.Product((X, Y)))),
    lambda: p.Product((p.Call(p.Lookup(var("math"), "exp"), (p.CommonSubexpression(2),)), X)),
    lambda: p.Call(p.Lookup(var("math"), "log"), (p.Product((2, 3)),)),
    lambda: p.Power(X, p.Call(p.Lookup(var("math"), "log"), (2,))),
    lambda: p.Call(p.Lookup(var("math"), "tan"), (p.Sum((1, 1)),)),
    lambda: p.Sum((X, p.If(p.Comparison(Y, "<", 1), X, Y))),
]


def workload(ctx):
    rng = ctx.rng
    with HandlerTrace([diffmod]) as tr:
        for k, mk in enumerate(SPECIAL):
            for setting in SETTINGS:
                if ctx.mine("special"):
                    e = mk()
                    ctx.run("C10.diff", (e, setting, False, k))
                    if not any(isinstance(x, p.Call) or isinstance(x, p.If) for x in G.walk(e)) \
                            and not any(isinstance(x, p.Power) and isinstance(x.exponent, p.Expression)
                                        for x in G.walk(e)):
                        ctx.run("C10.diff", (e, setting, True, k))
        # scale: sums / products of 9 .. 130 operands (constants and other variables before,
        # between and after the dependent ones), long quotient / power chains
        for w in scale.WIDTHS:
            if not ctx.mine("wide"):
                continue
            for cls in (p.Product, p.Sum):
                ops = [rng.choice([3, Y, p.Sum((X, i % 7 + 1)), p.Sum((X, i % 7 + 1)), X, 2, Z,
                                   p.Product((2, X)), p.Power(p.Sum((X, 2)), 2), p.Subscript(A, 0)])
                       for i in range(w)]
                e = cls(tuple(ops))
                ctx.count("wide_nodes")
                ctx.run("C10.diff", (e, "none", True, rng.randrange(10**9)))
            n = min(w, 7)      # (the quotient rule mentions f and g twice: size doubles per level)
            e = scale.chain(p.Quotient, n, [p.Sum((X, 1))] + [rng.choice([3, Y, p.Sum((X, 5)), 2])
                                                               for _ in range(n)])
            ctx.run("C10.diff", (e, "none", True, rng.randrange(10**9)))
            e = p.Sum(tuple(p.Product((i + 1, p.Power(X, i % 5))) for i in range(w)))
            ctx.run("C10.diff", (e, "none", True, rng.randrange(10**9)))
        sq_, cube_, lin_, nest2_ = (p.Variable(n_) for n_ in ("sq", "cube", "lin", "nest2"))
        c_ = p.CommonSubexpression(p.Sum((p.Product((X, Y)), 1)))
        for i, e in enumerate([
                p.Sum((p.Call(sq_, (p.Product((X, Y)),)), p.Power(X, 3))),
                p.Sum((p.Power(X, 3), p.Call(sq_, (p.Product((X, Y)),)))),
                p.Product((p.Power(Y, 2), p.Call(cube_, (p.Sum((X, Y)),)))),
                p.Sum((p.Call(sq_, (p.Call(cube_, (c_,)),)), p.Power(c_, 2))),
                p.Sum((p.Power(c_, 2), p.Call(lin_, (c_,)), c_)),
                p.Product((p.Call(lin_, (X,)), p.Call(sq_, (Y,)), X)),
                p.Quotient(p.Call(nest2_, (X,)), p.Sum((p.Power(Y, 2), 1))),
                p.Sum((p.Call(nest2_, (p.Product((X, Y)),)), p.Product((X, Y, Y)))),
                p.Call(sq_, (p.Call(sq_, (p.Call(sq_, (X,)),)),))]):
            for wn in ("x", "y"):
                if ctx.mine("reentrant"):
                    ctx.case(("reentrant", i, wn), True, n=0)
                    ctx.run("C10.reentrant", (e, wn, i))
        # one mapper fed its own output (second and third derivatives), wrappers inside
        t_ = p.CommonSubexpression(p.Sum((p.Power(X, 3), p.Product((Y, X)))), "t")
        u_ = p.CommonSubexpression(p.Product((X, X, Y)))
        directed = [p.Sum((p.Product((t_, Y)), p.Power(t_, 2), X)), p.Product((t_, u_)), p.Quotient(t_, p.Sum((u_, 40))),
                    p.CommonSubexpression(p.Product((t_, t_)), "tt"), p.Power(p.Sum((t_, 1)), 3),
                    p.Sum((p.Power(X, 4), p.Product((3, X, Y)))), p.Product((u_, u_, X))]
        for i, e in enumerate(directed):
            for wn in ("x", "y"):
                if ctx.mine("again"):
                    ctx.case(("again", i, wn), True, n=0)
                    ctx.run("C10.again", (e, wn, i))
        for i in range(ctx.per_shard(ctx.pick(150, 3000))):
            r2 = ctx.sub_rng("again", i)
            from collections import Counter as _C
            e = gen(r2, r2.randint(1, 3), True, _C())
            if isinstance(e, p.Expression):
                ctx.run("C10.again", (e, r2.choice(["x", "y"]), i))
        # kinds of numbers as coefficients, exponents and addends of every rule
        import numpy as np
        coeffs = [np.int8(50), np.int8(-100), np.int16(300), np.int32(1_500_000_000), np.int32(46341),
                  np.int64(5 * 10**18), np.int64(2**62), np.float32(0.1), np.float64(2.0), np.bool_(True),
                  True, 2.0, 40.0, 2**53 + 1, np.uint8(200)]
        shapes = [lambda c: p.Power(p.Product((X, c)), 3), lambda c: p.Power(p.Product((c, X)), 2),
                  lambda c: p.Power(p.Sum((p.Product((c, X)), 1)), c if isinstance(c, (int, np.integer))
                                    and not isinstance(c, (bool, np.bool_)) and abs(int(c)) < 6 else 2),
                  lambda c: p.Product((c, X, c, p.Sum((X, c)))),
                  lambda c: p.Quotient(p.Product((c, X)), p.Sum((p.Power(X, 2), c))),
                  lambda c: p.Power(p.Product((X, c)), np.int16(300) if isinstance(c, np.int16) else 4),
                  lambda c: p.Product((p.Power(p.Product((c, X)), 2), p.Power(p.Product((c, Y)), 3))),
                  lambda c: p.CommonSubexpression(p.Power(p.Sum((p.Product((c, X)), Y)), 3))]
        for c in coeffs:
            for mk in shapes:
                if not ctx.mine("kinds"):
                    continue
                e = mk(c)
                ctx.case(("kinds", G.src(e)), True, n=0)
                for wrt in (X, "x", Y):
                    ctx.run("C10.kinds", (e, wrt, rng.randrange(10**9)))
        n = ctx.per_shard(ctx.pick(2500, 50000))
        for i in range(n):
            alg = i % 2 == 0
            e = gen(rng, rng.randint(1, ctx.pick(3, 4)), alg, ctx.hist)
            if not isinstance(e, p.Expression):
                continue
            setting = rng.choice(SETTINGS)
            if i < 4:
                ctx.sample("random-" + ("algebraic" if alg else "transcendental"),
                           f"{e}  [{setting}]")
            ctx.run("C10.diff", (e, setting, alg, rng.randrange(10**9)))
        for i in range(ctx.per_shard(ctx.pick(24, 400))):
            ctx.case(("stream", i), True, n=0)
            ctx.run("C10.stream", (rng.getrandbits(32), rng.randint(20, 100),
                                   rng.choice([X, Y, "x", p.Subscript(A, 0)])))
        # refusal histories: non-smooth constructs, bare and inside common subexpressions
        math_ = var("math")
        nons = [lambda a: p.Call(p.Lookup(math_, "fabs"), (a,)),
                lambda a: p.Call(p.Lookup(math_, "copysign"), (a, Y)),
                lambda a: p.If(p.Comparison(a, "<", 1), p.Power(a, 2), a),
                lambda a: p.Call(p.Lookup(math_, "sin"), (a,)),
                lambda a: pf.sign(a) if hasattr(pf, "sign") else p.Power(a, 3),
                # not known: other arities of table names, names outside the table
                lambda a: p.Call(p.Lookup(math_, "log"), (3, a)),
                lambda a: p.Call(p.Lookup(math_, "log"), (a, a)),
                lambda a: p.Call(p.Lookup(math_, "log"), (a, 2)),
                lambda a: p.Call(p.Lookup(math_, "sin"), (a, a)),
                lambda a: p.Call(p.Lookup(math_, "fabs"), (a, Y)),
                lambda a: p.Call(p.Lookup(math_, "copysign"), (a,)),
                lambda a: p.Call(p.Lookup(math_, "atan2"), (a, Y)),
                lambda a: p.Call(p.Lookup(math_, "sqrt"), (a,)),
                lambda a: p.Call(p.Lookup(var("np"), "sin"), (a,)),
                lambda a: p.Call(var("sin"), (a,))]
        wraps = [lambda t: t, lambda t: p.CommonSubexpression(t),
                 lambda t: p.Product((p.CommonSubexpression(t, "w"), X)),
                 lambda t: p.Sum((p.CommonSubexpression(p.Product((t, Y))), 1))]
        orders = [["discontinuous", "continuous", "none"], ["none", "continuous", "discontinuous"],
                  ["continuous", "none", "discontinuous"]]
        for i, (mkn, wr, order) in enumerate(itertools.product(nons, wraps, orders)):
            if not ctx.mine("refusal"):
                continue
            arg = rng.choice([X, p.Sum((X, Y)), p.Product((2, X))])
            e = wr(mkn(arg))
            ctx.case(("refusal", i), True, n=0)
            ctx.run("C10.refusal", (e, order))
        for k, v in tr.handlers().items():
            ctx.count("handler:" + k, v)
        for k, v in tr.counts.items():
            if k.endswith("map_math_functions_by_name"):
                ctx.count("handler:map_math_functions_by_name", v)
    ctx.floor("wide_nodes", 50)
    ctx.floor("repeated_derivative_values", 400)
    ctx.floor("failed_differentiations_before_the_judged_one", 300)
    ctx.floor("reentrant_derivative_values", 100)
    ctx.floor("kind_derivative_values", 500)
    ctx.floor("stream:rows", 300)
    ctx.floor("stream:compared_exactly", 500)
    ctx.floor("stream:row_address_reused", 100)
    ctx.floor("derivative_evals", 20000)
    ctx.floor("exact", 5000)
    ctx.floor("compared_exactly", 3000)
    ctx.floor("float", 5000)
    ctx.floor("refused", 200)
    ctx.floor("refusal_checks", 300)
    for h in ("map_sum", "map_product", "map_quotient", "map_power", "map_call", "map_if",
              "map_common_subexpression_uncached", "map_variable"):
        ctx.floor("handler:DifferentiationMapper." + h, 500)


RULE = RULE + '  Later additions: one mapper applied to its own output; a function table that re-enters differentiate(); failed differentiations before every refusal check; fixed-width numpy coefficients.'
