"""C11 — algebraic rewrites preserve value and reach their normal forms."""
from __future__ import annotations

from collections import Counter
from fractions import Fraction as F

import pymbolic.primitives as p
from pymbolic import expand, flatten, var
from pymbolic.mapper.collector import TermCollector
from pymbolic.mapper.constant_folder import (
    CommutativeConstantFoldingMapper, ConstantFoldingMapper)
from pymbolic.mapper.distributor import DistributeMapper, distribute
from pymbolic.mapper.flattener import FlattenMapper
import pymbolic.mapper.distributor as distmod
import pymbolic.mapper.collector as collmod
import pymbolic.mapper.constant_folder as foldmod

from ..core import check, short
from ..gen import expr as G
from ..gen import numbers, scale
from ..mon import streams
from ..mon.trace import HandlerTrace
from ..ref import normal, ratfun, refsem
from .c03 import Mat2

RULE = ("polynomial/rational fragment (sums and products incl. empty and one-child, integer powers "
        "incl. 0, 1 and negative, quotients by constants and by polynomials, explicit zero factors "
        "and cancelling constant sub-sums) through flatten, ConstantFoldingMapper, "
        "CommutativeConstantFoldingMapper, TermCollector and distribute/expand; value preservation "
        "decided PER INSTANCE by exact rational-function normal forms (cross-multiplication over "
        "Fraction), plus typed evaluable trees over every node type as context for flatten/fold "
        "(values on a box); normal-form predicates: no sum under "
        "sum / product under product / 0 summand / 1 factor (flatten), <=1 constant operand per "
        "folded sum/product, expand: no sum beneath product or integer power, like terms merged, "
        "equal polynomials give equal term multisets.  distinct = typed key of the input; "
        "non-trivial = >=2 operator nodes.")
ASSUMPTIONS = [
    "constant sub-trees are integer-closed (no 1/3, no 3**-1): folding evaluates them with Python's "
    "/ and would turn an exact rational into a float, which is the evaluator's meaning (C02)",
    "the like-term / multiset check reads terms as coefficient x prod variable^positive-int and is "
    "applied to inputs whose explicit powers have exponent >= 2 over non-power bases; Power(y, 1), "
    "Power(y, 0) and power-of-power inputs are checked for value preservation only",
    "a rewrite may refuse (raise) only on inputs outside its fragment; inside it a raise is a violation",
]

V = [var(n) for n in "xyz"]


# {{{ generators

ATOMS = [p.Subscript(var("a"), 0), p.Call(var("f"), (var("x"),)), p.Lookup(var("o"), "b"),
         p.Subscript(var("a"), (var("x"), 1))]


def gpoly(r, d, neg_pow=False, quot=False):
    """polynomial / rational fragment"""
    if d <= 0 or r.random() < 0.2:
        if r.random() < 0.12:   # polynomial atoms that are not variables: a[0], f(x), o.b
            return r.choice(ATOMS)
        return r.choice([*V, r.randint(-3, 3), 1, 2, 0])
    ks = ["sum", "prod", "pow", "sum", "prod", "zero", "one", "nest"] + (["quot"] if quot else [])
    k = r.choice(ks)
    g = lambda: gpoly(r, d - 1, neg_pow, quot)  # noqa: E731
    if k == "sum":
        return p.Sum(tuple(g() for _ in range(r.choice([0, 1, 2, 2, 3]))))
    if k == "prod":
        return p.Product(tuple(g() for _ in range(r.choice([0, 1, 2, 2, 3]))))
    if k == "nest":
        cls = r.choice([p.Sum, p.Product])
        return cls((g(), cls((g(), g())), g()))
    if k == "zero":
        return r.choice([p.Product((0, g())), p.Product((g(), p.Sum((2, -2)))), p.Sum((0, g()))])
    if k == "one":
        return r.choice([p.Product((1, g())), p.Product((g(), p.Sum((2, -1))))])
    if k == "quot":
        # constant denominators are powers of two: expand() rewrites n/d to (1/d)*n and folds
        # 1/d with Python's '/', which is exact only for dyadic values (see ASSUMPTIONS)
        den = r.choice([2, 4, -2, p.Sum((V[0], 2)), p.Sum((p.Product((V[1], V[1])), 1))])
        num = g()
        if not G.variables_of(num):       # keep constant sub-trees integer-closed (no 1/3)
            num = p.Product((r.choice(V), num)) if r.random() < 0.5 else r.choice(V)
        return p.Quotient(num, den)
    b = g()
    # negative exponents only over variables / sums: expand splits (c*x)**-1 into c**-1 * x**-1
    # and c**-1 is a float (constant sub-trees must stay integer-closed)
    exps = [0, 1, 2, 3] + ([-1, -2] if neg_pow and G.variables_of(b)
                           and isinstance(b, (p.Variable, p.Sum)) else [])
    return p.Power(b, r.choice(exps))


def gexpand(r, d):
    """inputs for the strict like-term check: exponents >= 2 over non-power bases"""
    if d <= 0 or r.random() < 0.2:
        return r.choice([*V, r.randint(-3, 3), 1, 2])
    k = r.choice(["sum", "prod", "pow", "sum", "prod"])
    if k == "sum":
        return p.Sum(tuple(gexpand(r, d - 1) for _ in range(r.randint(2, 3))))
    if k == "prod":
        return p.Product(tuple(gexpand(r, d - 1) for _ in range(r.randint(2, 3))))
    b = gexpand(r, d - 1)
    while isinstance(b, p.Power):
        b = b.base
    if not isinstance(b, (p.Variable, p.Sum)) or not G.variables_of(b):
        # constant-only powers (5**3) are left unfolded by expand; a product base with power
        # factors gives power-of-power terms ((z**2)**2), outside the strict fragment
        b = p.Sum((b, V[0]))
    return p.Power(b, r.randint(2, 3))

# }}}


def rf(e):
    return ratfun.from_expr(e)


def defined(e):
    try:
        rf(e)
        return True
    except ZeroDivisionError:
        return False


def has_inexact_float(e):
    return any(isinstance(x, float) for x in G.walk(e))


def value_preserved(ctx, check_name, case, name, e, out):
    try:
        want = rf(e)
    except ZeroDivisionError:
        ctx.count("input_undefined")
        return True
    try:
        got = rf(out)
    except ZeroDivisionError:
        ctx.fail(check_name, case, f"{name}:value-undefined",
                 f"{name}({e}) = {out}, which divides by the zero function")
        return False
    if not (got == want):
        if has_inexact_float(out) and got.close(want):
            # a float by-product of the transformation itself (6.25 ** -2 -> 0.0256): equal up
            # to rounding is all that float arithmetic can give
            ctx.count("value_equal_up_to_float_rounding")
            return True
        ctx.fail(check_name, case, f"{name}:value",
                 f"{name}({e}) = {out}: as rational functions {want} became {got}")
        return False
    return True


def nodes(e):
    return [x for x in G.walk(e) if isinstance(x, p.Expression)]


def is_num(x):
    return not isinstance(x, (p.Expression, tuple, list))


@check("C11.flatten")
def c_flatten(ctx, case):
    (e,) = case
    if not defined(e):
        return          # undefined everywhere (zero to a negative power): nothing to preserve
    ctx.case(None)
    ctx.count("flatten_calls")
    try:
        out = flatten(e)
    except RecursionError:
        raise
    except Exception as ex:  # noqa: BLE001
        ctx.fail("C11.flatten", case, f"flatten:raised:{type(ex).__name__}",
                 f"flatten({G.src(e)}) raised {type(ex).__name__}: {ex}")
        return
    if not value_preserved(ctx, "C11.flatten", case, "flatten", e, out):
        return
    for x in nodes(out):
        if type(x) in (p.Sum, p.Product):
            bad = None
            neutral = 0 if type(x) is p.Sum else 1
            if any(type(c) is type(x) for c in x.children):
                bad = "same-type child"
            elif any(is_num(c) and c == neutral for c in x.children):
                bad = f"neutral element {neutral}"
            elif type(x) is p.Product and any(is_num(c) and c == 0 for c in x.children):
                bad = "zero factor kept"
            elif len(x.children) < 2:
                bad = f"{len(x.children)}-operand node kept"
            if bad:
                ctx.fail("C11.flatten", case, f"flatten:shape:{type(x).__name__}:{bad.split()[0]}",
                         f"flatten({G.src(e)}) = {G.src(out)} still has a {type(x).__name__} with {bad}")
                return


@check("C11.terms")
def c_terms(ctx, case):
    """The flattening entry points that take the operands as a list (flattened_sum,
    flattened_product): the result stands for the sum / product of ALL the operands handed in
    -- also when one operand object occurs in the list (or below it) more than once."""
    which, terms = case
    ctx.case(None)
    ctx.count("operand_list_calls")
    whole = (p.Sum if which == "sum" else p.Product)(tuple(terms))
    if not defined(whole):
        return
    fn = p.flattened_sum if which == "sum" else p.flattened_product
    try:
        out = fn(list(terms))
    except RecursionError:
        raise
    except Exception as ex:  # noqa: BLE001
        ctx.fail("C11.terms", case, f"flattened_{which}:raised:{type(ex).__name__}",
                 f"flattened_{which}({[G.src(t) for t in terms]}) raised {type(ex).__name__}: {ex}")
        return
    if not value_preserved(ctx, "C11.terms", case, f"flattened_{which}", whole, out):
        return
    if isinstance(out, type(whole)) and any(type(c) is type(out) for c in out.children):
        ctx.fail("C11.terms", case, f"flattened_{which}:shape",
                 f"flattened_{which}({[G.src(t) for t in terms]}) = {G.src(out)} keeps a "
                 f"{type(out).__name__} directly under itself")


def fold_shape_ok(out, classes):
    for x in nodes(out):
        if type(x) in classes and sum(1 for c in x.children if is_num(c)) > 1:
            return x
    return None


class _Declines:
    """configuration: a folder whose evaluate() hook answers 'could not evaluate' (None, the
    documented refusal) for some constant operands -- here those that would become floats"""

    def evaluate(self, expr):
        v = super().evaluate(expr)
        return None if isinstance(v, float) else v


class ExactFolder(_Declines, ConstantFoldingMapper):
    pass


class ExactCommutativeFolder(_Declines, CommutativeConstantFoldingMapper):
    pass


@check("C11.fold")
def c_fold(ctx, case):
    (e,) = case
    if not defined(e):
        return
    for name, mk, classes in (("fold", ConstantFoldingMapper, (p.Sum,)),
                              ("commutative-fold", CommutativeConstantFoldingMapper,
                               (p.Sum, p.Product)),
                              ("declining-fold", ExactFolder, (p.Sum,)),
                              ("declining-commutative-fold", ExactCommutativeFolder,
                               (p.Sum, p.Product))):
        ctx.case(None)
        ctx.count(name + "_calls")
        try:
            out = mk()(e)
        except RecursionError:
            raise
        except Exception as ex:  # noqa: BLE001
            ctx.fail("C11.fold", case, f"{name}:raised:{type(ex).__name__}",
                     f"{name}({G.src(e)}) raised {type(ex).__name__}: {ex}")
            continue
        if not value_preserved(ctx, "C11.fold", case, name, e, out):
            continue
        bad = fold_shape_ok(out, classes)
        if bad is not None:
            ctx.fail("C11.fold", case, f"{name}:shape:{type(bad).__name__}",
                     f"{name}({G.src(e)}) = {G.src(out)}: {G.src(bad)} keeps more than one constant")


@check("C11.context")
def c_context(ctx, case):
    """flatten / fold inside arbitrary evaluable contexts: values on a box (+ matrices)."""
    e, envs = case
    if faulty_constant_subtree(e):
        ctx.count("context_with_always_faulty_subtree_skipped")
        return
    rewrites = [("flatten", lambda x: flatten(x), True), ("fold", lambda x: ConstantFoldingMapper()(x), True),
                ("commutative-fold", lambda x: CommutativeConstantFoldingMapper()(x), False)]
    for name, f, noncomm_ok in rewrites:
        try:
            out = f(e)
        except RecursionError:
            raise
        except Exception as ex:  # noqa: BLE001
            ctx.fail("C11.context", case, f"{name}:raised:{type(ex).__name__}",
                     f"{name}({G.src(e)}) raised {type(ex).__name__}: {ex}")
            continue
        for env in envs:
            if isinstance(env["x"], Mat2) and not noncomm_ok:
                continue
            want, faults, _ = refsem.expected(e, env)
            if want[0] != "v":
                continue
            ctx.case(None)
            ctx.count("context_values")
            got = refsem.outcome(lambda: refsem.ev(out, env))
            if not refsem.consistent(got, want, faults):
                ctx.fail("C11.context", case, f"{name}:context-value",
                         f"{name}({e}) = {out}; x={env['x']} y={env['y']} z={env['z']}: "
                         f"{short(got)} vs {short(want)}")
                break


@check("C11.kinds")
def c_kinds(ctx, case):
    """Exponents, coefficients and addends of every KIND of number (floats where ints are usual,
    numpy scalars, bools, exact rationals made known through the constant registry): each
    rewrite keeps the value -- (x + 1) ** Fraction(3, 2) is not (x + 1) ** 1."""
    si, c, register = case
    mk = KIND_SHAPES[si]
    import warnings
    from fractions import Fraction
    if register:
        p.register_constant_class(Fraction)
    try:
        e = mk(c)
        rewrites = [("flatten", flatten), ("fold", lambda t: ConstantFoldingMapper()(t)),
                    ("commutative-fold", lambda t: CommutativeConstantFoldingMapper()(t)),
                    ("distribute", distribute), ("expand", expand)]
        for name, f in rewrites:
            ctx.case(None)
            ctx.count("kind_rewrites")
            try:
                with warnings.catch_warnings():
                    warnings.simplefilter("ignore")
                    out = f(e)
            except RecursionError:
                raise
            except Exception as ex:  # noqa: BLE001
                ctx.count("kind_rewrite_refused:" + type(ex).__name__)
                continue
            for xv, yv in ((F(3, 2), F(2)), (F(1, 4), F(-3)), (3, 5)):
                env = {"x": xv, "y": yv, "z": 2}
                with warnings.catch_warnings():
                    warnings.simplefilter("ignore")
                    want = refsem.outcome(lambda: refsem.ev(e, env))
                    got = refsem.outcome(lambda: refsem.ev(out, env))
                if want[0] != "v":
                    continue
                ctx.count("kind_values")
                if got[0] != "v" or not refsem.values_equal(got[1], want[1]):
                    ctx.fail("C11.kinds", case, f"{name}:value:{numbers.kind_of(c)}",
                             f"{name}({e}) = {out} [constant {c!r} of kind {numbers.kind_of(c)}]; at "
                             f"x={xv} y={yv}: {short(got)} instead of {short(want)}")
                    break
    finally:
        if register:
            p.unregister_constant_class(Fraction)


KIND_SHAPES = [
    lambda c: p.Power(p.Sum((V[0], 1)), c),
    lambda c: p.Product((V[1], p.Power(p.Sum((V[0], 2)), c), 3)),
    lambda c: p.Sum((p.Power(p.Sum((V[0], V[1])), c), p.Product((c, V[0])))),
    lambda c: p.Product((c, p.Sum((V[0], c)), p.Sum((V[1], 1)))),
    lambda c: p.Power(p.Product((p.Sum((V[0], 1)), p.Sum((V[1], 4)))), c),
    lambda c: p.Sum((c, V[0], c, p.Product((c, c, V[1])))),
]


def stream_rows(seed, n, shape):
    import random
    r = random.Random(seed)
    x, y = V[0], V[1]
    tg = G.TypedGen(r, int_kinds=["cse", "cse", "sum", "prod", "if", "min", "pow", "neg"])
    for i in range(n):
        tg.pool = {"int": [], "num": [], "bool": []}
        k = r.random()
        if shape == "powers":       # one sum base to powers that go up AND down
            yield p.Power(p.Sum((x, [1, y, 2][(i // 6) % 3])), [3, 2, 4, 2, 5, 3][i % 6])
        elif shape == "product":    # (expand refuses a bare wrapper as a summand)
            yield p.Sum((y, p.Product((y, p.CommonSubexpression(p.Product((i, x, 3)))))))
        elif k < 0.4:
            yield p.Sum((y, p.CommonSubexpression(p.Sum((i, x, 1)))))
        elif k < 0.6:
            yield p.Product((2, p.CommonSubexpression(p.Product((i, x, 3)), "s"), 3))
        else:
            e = tg.int(r.randint(1, 3))
            yield p.Sum((e, 1, p.CommonSubexpression(p.Sum((1, x, i))), 2))


@check("C11.stream")
def c_stream(ctx, case):
    """ONE rewrite object over a stream of temporaries holding common subexpressions (each row
    dropped before the next is built): every rewritten row keeps its row's value."""
    seed, n, which = case
    mk, shape = {"fold": (ConstantFoldingMapper, "any"),
                 "commutative-fold": (CommutativeConstantFoldingMapper, "any"),
                 "flatten": (FlattenMapper, "any"),
                 "commutative-fold-products": (CommutativeConstantFoldingMapper, "product"),
                 "distribute": (DistributeMapper, "product"),
                 "distribute-powers": (DistributeMapper, "powers")}[which]
    m = mk()
    rng = ctx.sub_rng("env", seed)
    box = [-2, -1, 1, 2, 3, F(7, 3), F(-5, 2)]
    envs = [G.base_env(rng.choice(box), rng.choice(box), rng.choice(box), s=1, t=True)
            for _ in range(2)]

    def judge(i, e):
        if faulty_constant_subtree(e):
            return
        ctx.case(None)
        ctx.count("stream:rewrites")
        try:
            out = m(e)
        except RecursionError:
            raise
        except Exception as ex:  # noqa: BLE001
            ctx.fail("C11.stream", case, f"{which}:raised:{type(ex).__name__}",
                     f"row {i}: one {which} object on {G.src(e)} raised {type(ex).__name__}: {ex}")
            return
        for env in envs:
            want, faults, _ = refsem.expected(e, env)
            if want[0] != "v":
                continue
            ctx.count("stream:values")
            got = refsem.outcome(lambda: refsem.ev(out, env))
            if not refsem.consistent(got, want, faults):
                ctx.fail("C11.stream", case, f"{which}:value",
                         f"row {i} of a stream of temporaries through one {which} object: "
                         f"{e} became {out}; x={env['x']} y={env['y']} z={env['z']}: "
                         f"{short(got)} vs {short(want)}")
                return
    streams.each(ctx, stream_rows(seed, n, shape), judge)


@check("C11.recover")
def c_recover(ctx, case):
    """One rewrite object (a distributor, the two folders, a flattener, a term collector) is
    handed an input it FAILS on (a floor division among the terms, a division by the constant
    zero, a foreign object), the caller catches the error, and carries on with valid input:
    the same object gives what a fresh one gives."""
    which, seed = case
    from pymbolic.mapper.collector import TermCollector
    mk = {"distribute": DistributeMapper, "fold": ConstantFoldingMapper,
          "commutative-fold": CommutativeConstantFoldingMapper, "flatten": FlattenMapper,
          "collect": TermCollector}[which]
    x, y, z = V
    rng = ctx.sub_rng("recover", seed)
    valid = [p.Sum((p.Power(p.Sum((x, 1)), 2), p.Product((p.Sum((x, y)), p.Sum((x, p.Product((-1, y)))))))),
             p.Product((p.Sum((x, 2)), p.Sum((y, 3)), 2)), p.Sum((p.Product((2, x)), p.Product((3, x)), y, 4, 5)),
             gexpand(rng, 3), gexpand(rng, 2)]
    valid = [e for e in valid if isinstance(e, p.Expression)]
    bad = [p.Sum((x, p.FloorDiv(x, 2))), p.Sum((x, p.Quotient(1, 0))), p.Sum((x, p.Product((y, object())))),
           p.Product((p.Sum((x, 1)), p.Sum((y, p.Remainder(x, 0))))), p.Power(p.Sum((x, "s")), 2)]
    m = mk()
    for rnd in range(2):
        for b in bad:
            try:
                m(b)
            except RecursionError:
                raise
            except Exception:  # noqa: BLE001
                ctx.count("failed_rewrites_before_valid_ones")
            for e in valid:
                ctx.case(None)
                ctx.count("rewrites_after_a_caught_failure")
                got = outcome_of(lambda: m(e))
                want = outcome_of(lambda: mk()(e))
                if got[0] != want[0] or (got[0] == "v" and not normal.typed_eq(got[1], want[1])):
                    ctx.fail("C11.recover", case, f"recover:{which}",
                             f"one {which} object after failing on {G.src(b)} (caught): {e} becomes "
                             f"{short(got)}; a fresh object gives {short(want)}")
                    return


def outcome_of(f):
    try:
        return ("v", f())
    except RecursionError:
        raise
    except Exception as ex:  # noqa: BLE001
        return ("exc", type(ex).__name__)


@check("C11.collect")
def c_collect(ctx, case):
    e, params = case
    ctx.case(None)
    ctx.count("collector_calls")
    try:
        out = TermCollector(params)(e)
    except RecursionError:
        raise
    except Exception as ex:  # noqa: BLE001
        ctx.fail("C11.collect", case, f"collect:raised:{type(ex).__name__}",
                 f"TermCollector({params})({e}) raised {type(ex).__name__}: {ex}")
        return
    value_preserved(ctx, "C11.collect", case, "collect", e, out)


def monomial(t):
    facs = list(t.children) if isinstance(t, p.Product) else [t]
    coeff, mono = F(1), Counter()
    for f in facs:
        if isinstance(f, (int, F)) and not isinstance(f, bool):
            coeff *= f
        elif isinstance(f, p.Variable):
            mono[f.name] += 1
        elif isinstance(f, p.Power) and is_num(f.base) and isinstance(f.exponent, int) \
                and f.exponent >= 0:
            coeff *= F(f.base) ** f.exponent        # constant-only power left unfolded
        elif isinstance(f, p.Power) and isinstance(f.base, p.Variable) \
                and isinstance(f.exponent, int) and f.exponent >= 1:
            mono[f.base.name] += f.exponent
        elif isinstance(f, p.Power) and isinstance(f.base, p.Power) \
                and isinstance(f.base.base, p.Variable) and isinstance(f.exponent, int) \
                and isinstance(f.base.exponent, int) and f.exponent >= 1 and f.base.exponent >= 1:
            # (x**2)**3 arises when a sum base collapses to one term: read it as x**6
            mono[f.base.base.name] += f.exponent * f.base.exponent
        else:
            return None
    return coeff, frozenset(mono.items())


def term_multiset(out):
    terms = list(out.children) if isinstance(out, p.Sum) else [out]
    got = Counter()
    seen = set()
    dup = None
    for t in terms:
        m = (F(t), frozenset()) if is_num(t) else monomial(t)
        if m is None:
            return None, t, None
        if m[1] in seen:
            dup = t
        seen.add(m[1])
        got[m[1]] += m[0]
    return Counter({k: v for k, v in got.items() if v}), None, dup


def sum_below_product_or_power(out):
    for x in nodes(out):
        if isinstance(x, p.Product) and any(isinstance(c, p.Sum) for c in x.children):
            return x
        if isinstance(x, p.Power) and isinstance(x.base, p.Sum) and isinstance(x.exponent, int) \
                and x.exponent >= 1:
            return x
    return None


@check("C11.expand")
def c_expand(ctx, case):
    e, strict = case
    if not defined(e):
        return None
    ctx.case(None)
    ctx.count("expand_calls")
    ctx.count("expand_strict" if strict else "expand_value_only")
    try:
        out = expand(e)
    except RecursionError:
        raise
    except Exception as ex:  # noqa: BLE001
        ctx.fail("C11.expand", case, f"expand:raised:{type(ex).__name__}",
                 f"expand({e}) raised {type(ex).__name__}: {ex}")
        return None
    if not value_preserved(ctx, "C11.expand", case, "expand", e, out):
        return None
    if not strict:
        return out
    bad = sum_below_product_or_power(out)
    if bad is not None:
        ctx.fail("C11.expand", case, "expand:sum-below-product",
                 f"expand({e}) = {out}: {bad} still has a sum beneath a product / integer power")
        return out
    ms, notmono, dup = term_multiset(out)
    if ms is None:
        ctx.fail("C11.expand", case, "expand:term-shape",
                 f"expand({e}) = {out}: term {notmono} is not coefficient x product of variable powers")
    elif dup is not None:
        ctx.fail("C11.expand", case, "expand:like-terms-unmerged",
                 f"expand({e}) = {out}: the monomial of {dup} occurs in more than one term")
    return out


@check("C11.expandpair")
def c_expandpair(ctx, case):
    """two different expressions of the same polynomial expand to equal term multisets"""
    e1, e2 = case
    ctx.case(None)
    ctx.count("expand_pairs")
    try:
        o1, o2 = expand(e1), expand(e2)
    except RecursionError:
        raise
    except Exception as ex:  # noqa: BLE001
        ctx.fail("C11.expandpair", case, f"expand:raised:{type(ex).__name__}", f"{e1} / {e2}: {ex}")
        return
    m1, _, _ = term_multiset(o1)
    m2, _, _ = term_multiset(o2)
    if m1 is None or m2 is None:
        return
    if m1 != m2:
        ctx.fail("C11.expandpair", case, "expand:multisets-differ",
                 f"{e1} and {e2} are the same polynomial but expand to {o1} and {o2}")


_PROBE = [G.base_env(x, y, z, s=s, t=t) for x, y, z, s, t in
          ((1, 2, 3, 1, True), (-2, 3, -1, 0, False), (3, -1, 2, 2, True), (2, 1, -2, 1, False))]


def faulty_constant_subtree(e):
    """Some sub-tree raises an arithmetic error wherever it is evaluated: a constant one
    (1 % 0), or one that is constant in value (5 % (0*z)).  Folding computes such sub-trees
    eagerly, as evaluation would; they are outside the fragment."""
    for x in G.walk(e):
        if isinstance(x, p.Expression):
            envs = [{}] if not G.variables_of(x) else _PROBE
            if all(refsem.outcome(lambda: refsem.ev(x, env))[0] == "exc" for env in envs):
                return True
    return False


def workload(ctx):
    rng = ctx.rng
    with HandlerTrace([distmod, collmod, foldmod]) as tr:
        n = ctx.per_shard(ctx.pick(3000, 60000))
        for i in range(n):
            e = gpoly(rng, rng.randint(1, 4), neg_pow=True, quot=True)
            if not isinstance(e, p.Expression):
                continue
            ctx.case(normal.typed_key(e), normal.count_ops(e) >= 2, n=0)
            ctx.node("rational-fragment")
            if i < 3:
                ctx.sample("rational-fragment", str(e))
            ctx.run("C11.flatten", (e,))
            ctx.run("C11.fold", (e,))
            ctx.run("C11.expand", (e, False))
            if isinstance(e, p.Sum) and len(e.children) >= 1:
                fl = flatten(e) if rng.random() < 0.5 else e
                if isinstance(fl, p.Sum):
                    try:
                        pre = DistributeMapper(lambda t: t)(fl)
                    except Exception:  # noqa: BLE001
                        pre = None
                    if isinstance(pre, p.Sum) and len(pre.children) <= 250 \
                            and not any(isinstance(x, float) for x in G.walk(pre)):
                        # (the collector is quadratic in the number of terms; thousands of
                        # terms are a cost, not a correctness, matter)
                        ctx.run("C11.collect", (pre, rng.choice([frozenset(), frozenset([V[0]])])))
        # scale: monomials / sums of 9 .. 130 factors (nested products, neutral 1s and 0
        # summands included), (x + 1) ** n for n up to 66, many like terms to merge
        x, y, z = V
        for w in scale.WIDTHS:
            if not ctx.mine("wide"):
                continue
            fs = [rng.choice([x, y, z, 2, 3, 1, 1, -1, p.Power(x, 2), p.Product((y, 1, z)),
                              p.Product((2, p.Product((x, y))))]) for _ in range(w)]
            ts = [rng.choice([x, y, 0, 0, 1, -2, p.Product((2, x)), p.Sum((y, 0, z)),
                              p.Sum((p.Sum((x, 1)), -1))]) for _ in range(w)]
            for e in (p.Product(tuple(fs)), p.Sum(tuple(ts)),
                      p.Sum((p.Product(tuple(fs)), p.Product(tuple(reversed(fs))))),
                      p.Product((p.Sum(tuple(ts[:6])), p.Product(tuple(fs[:w // 2])))),
                      p.Sum(tuple(p.Product((i % 5 + 1, rng.choice([x, y]), rng.choice([x, y, z])))
                                  for i in range(w)))):
                ctx.case(("wide", normal.typed_key(e)), True, n=0)
                ctx.count("wide_nodes")
                ctx.run("C11.flatten", (e,))
                ctx.run("C11.fold", (e,))
                if w <= 40:
                    ctx.run("C11.expand", (e, False))
            if w <= 66:
                for base in (p.Sum((x, 1)), p.Sum((x, p.Product((-1, y))))):
                    e = p.Power(base, w)
                    ctx.count("high_powers")
                    ctx.run("C11.expand", (e, False))
                e = p.Product(tuple(x for _ in range(w)))
                ctx.run("C11.expand", (e, False))
                ctx.run("C11.collect", (p.Sum((e, p.Product((2, e)))), frozenset()))
        # one base to several powers in ONE expression, in every order (one mapper sees them all)
        import itertools as _it
        for base in (p.Sum((x, 1)), p.Sum((x, y)), p.Sum((p.Product((2, x)), p.Product((-1, y))))):
            for order in _it.permutations((2, 3, 4)):
                if ctx.mine("power-orders"):
                    e = p.Sum(tuple(p.Power(base, n_) for n_ in order))
                    ctx.count("power_order_shapes")
                    ctx.run("C11.expand", (e, False))
                    ctx.run("C11.expand", (p.Product((p.Power(base, order[0]), p.Sum((p.Power(base, order[1]), 1)))), False))
        for which in ("distribute", "fold", "commutative-fold", "flatten", "collect"):
            for sd in range(3):
                if ctx.mine("recover"):
                    ctx.case(("recover", which, sd), True, n=0)
                    ctx.run("C11.recover", (which, sd))
        # sharing: ONE operand object more than once in the operand list, directly and nested
        for si, s_ in enumerate((p.Sum((x, y)), p.Sum((x, 2)), p.Product((x, y)), p.Product((2, x)),
                                 p.Power(p.Sum((x, 1)), 2), p.Sum((p.Sum((x, y)), 1)),
                                 p.Product((p.Product((x, y)), 3)))):
            z_ = z
            lists = [[s_, z_, s_], [s_, s_], [z_, s_, 1, s_, s_], [p.Sum((s_, z_)), p.Sum((2, s_))],
                     [p.Product((s_, z_)), p.Product((2, s_))], [p.Sum((p.Sum((s_, z_)), p.Sum((2, s_))))],
                     [p.Product((p.Product((s_, z_)), p.Product((2, s_))))], [s_, p.Product((3, s_))],
                     [p.Sum((s_, s_)), s_], [p.Product((s_, s_)), s_]]
            for li, ts in enumerate(lists):
                if ctx.mine("terms"):
                    ctx.case(("terms", si, li), True, n=0)
                    ctx.run("C11.terms", ("sum", ts))
                    ctx.run("C11.terms", ("product", ts))
                    for e in (p.Sum(tuple(ts)), p.Product(tuple(ts))):
                        ctx.count("shared_node_trees")
                        ctx.run("C11.flatten", (e,))
                        ctx.run("C11.fold", (e,))
                        ctx.run("C11.expand", (e, False))
        for i in range(ctx.per_shard(ctx.pick(300, 6000))):
            r2 = ctx.sub_rng("graft", i)
            e = gpoly(r2, r2.randint(2, 4), neg_pow=True, quot=True)
            # (within the fragment's own rules: a node of the same class, with variables where
            #  there were variables, nothing inside an opaque atom's arguments)
            e = scale.graft(e, r2, same_type=True,
                            avoid_fields=("function", "aggregate", "parameters", "index"),
                            accept=lambda o, n_: bool(G.variables_of(n_)) or not G.variables_of(o)) \
                if isinstance(e, p.Expression) else None
            if e is None:
                continue
            ctx.case(("graft", normal.typed_key(e)), True, n=0)
            ctx.count("shared_node_trees")
            ctx.run("C11.flatten", (e,))
            ctx.run("C11.fold", (e,))
            ctx.run("C11.expand", (e, False))
            if isinstance(e, (p.Sum, p.Product)):
                ctx.run("C11.terms", ("sum" if isinstance(e, p.Sum) else "product", list(e.children)))
        # kinds of numbers in every constant position of the rewrites' fragment
        import numpy as np
        from fractions import Fraction
        kconsts = [2.0, 3.0, 0.5, 1.5, -1.0, 1.0, 0.0, True, np.int64(2), np.int32(3), np.float64(2.0),
                   np.float32(0.5), 2 + 0j, 2**53 + 1, Fraction(3, 2), Fraction(1, 2), Fraction(5, 2),
                   Fraction(2, 1), Fraction(-1, 2)]
        for ci, c in enumerate(kconsts):
            for si in range(len(KIND_SHAPES)):
                if ctx.mine("kinds"):
                    ctx.case(("kinds", repr(c), si), True, n=0)
                    ctx.run("C11.kinds", (si, c, isinstance(c, Fraction)))
        # direct term-collector inputs: sums of fully expanded multiplicative terms
        for i in range(ctx.per_shard(ctx.pick(1500, 30000))):
            def term():
                fs = []
                for _ in range(rng.randint(1, 4)):
                    u = rng.random()
                    v = rng.choice(V) if rng.random() < 0.8 else rng.choice(ATOMS)
                    fs.append(rng.randint(-3, 4) if u < 0.3 else v if u < 0.6
                              else p.Power(v, rng.randint(2, 3)) if u < 0.85
                              else p.Quotient(1, p.Sum((v, 1))) if u < 0.93
                              # a quotient factor the distributor did not prepare: numerator != 1
                              else p.Quotient(rng.choice([2, -3, rng.choice(V)]),
                                              rng.choice([v, p.Sum((v, 1))])))
                return fs[0] if len(fs) == 1 else p.Product(tuple(fs))
            e = p.Sum(tuple(term() for _ in range(rng.randint(1, 5))))
            ctx.case(normal.typed_key(e), True, n=0)
            if i < 2:
                ctx.sample("term-collector", str(e))
            ctx.run("C11.collect", (e, rng.choice([frozenset(), frozenset([V[0]]), frozenset(V[:2])])))
        # strict expand fragment + pairs
        for i in range(ctx.per_shard(ctx.pick(2000, 40000))):
            e = gexpand(rng, rng.randint(1, 3))
            if not isinstance(e, p.Expression):
                continue
            ctx.case(normal.typed_key(e), normal.count_ops(e) >= 2, n=0)
            ctx.node("polynomial-fragment")
            if i < 3:
                ctx.sample("polynomial-fragment", str(e))
            ctx.run("C11.expand", (e, True))
            # a different expression of the same polynomial
            if isinstance(e, (p.Sum, p.Product)):
                ch = list(e.children)
                rng.shuffle(ch)
                e2 = type(e)(tuple(ch))
                if rng.random() < 0.5:
                    e2 = p.Sum((e2, p.Product((V[2], V[2])), p.Product((-1, V[2], V[2]))))
                ctx.run("C11.expandpair", (e, e2))
            elif isinstance(e, p.Power):
                e2 = p.Product(tuple(e.base for _ in range(e.exponent)))
                ctx.run("C11.expandpair", (e, e2))
        for i in range(ctx.per_shard(ctx.pick(40, 600))):
            ctx.case(("stream", i), True, n=0)
            ctx.run("C11.stream", (rng.getrandbits(32), rng.randint(20, 100),
                                   ["fold", "commutative-fold", "flatten", "distribute",
                                    "commutative-fold-products", "distribute-powers"][i % 6]))
        # contexts: every evaluable node type around sums/products
        tg = G.TypedGen(rng, hist=ctx.hist)
        for i in range(ctx.per_shard(ctx.pick(1500, 30000))):
            tg.pool = {"int": [], "num": [], "bool": []}
            e = tg.int(rng.randint(2, 4)) if rng.random() < 0.7 else tg.bool(rng.randint(2, 4))
            if not isinstance(e, p.Expression) or faulty_constant_subtree(e):
                continue    # folding evaluates constant sub-trees eagerly: 1 % 0 in a dead branch
            ctx.case(normal.typed_key(e), normal.count_ops(e) >= 2, n=0)
            box = [-2, -1, 0, 1, 2, 3]
            envs = [G.base_env(rng.choice(box), rng.choice(box), rng.choice(box),
                               s=rng.choice([0, 1, 2]), t=rng.choice([True, False])) for _ in range(5)]
            ctx.run("C11.context", (e, envs))
        for k, v in tr.handlers().items():
            ctx.count("handler:" + k, v)
        ctx.count("handler:TermCollector.split_term", tr.counts.get("TermCollector.split_term", 0))
    ctx.floor("wide_nodes", 100)
    ctx.floor("operand_list_calls", 150)
    ctx.floor("rewrites_after_a_caught_failure", 300)
    ctx.floor("shared_node_trees", 150)
    ctx.floor("power_order_shapes", 15)
    ctx.floor("kind_values", 800)
    ctx.floor("high_powers", 20)
    ctx.floor("stream:rows", 500)
    ctx.floor("stream:values", 500)
    ctx.floor("stream:row_address_reused", 100)
    ctx.floor("flatten_calls", 1500)
    ctx.floor("fold_calls", 1500)
    ctx.floor("commutative-fold_calls", 1500)
    ctx.floor("expand_strict", 1000)
    ctx.floor("expand_pairs", 500)
    ctx.floor("collector_calls", 300)
    ctx.floor("context_values", 5000)
    ctx.floor("handler:DistributeMapper.map_power", 500)
    ctx.floor("handler:TermCollector.split_term", 1000)


RULE = RULE + '  Later additions: operand lists holding one object several times; rewrite objects after a caught failure (same result and form as a fresh object); power sequences on one mapper.'
