"""C12 — common-subexpression handling keeps meaning and shares work."""
from __future__ import annotations

import dataclasses
from collections import Counter
from fractions import Fraction as F

import numpy as np

import pymbolic.primitives as p
from pymbolic.cse import tag_common_subexpressions
from pymbolic.mapper.cse_tagger import CSETagMapper, CSEWalkMapper
from pymbolic.mapper.evaluator import (
    CachedEvaluationMapper, EvaluationMapper, UnknownVariableError)
import pymbolic.cse as csemod
import pymbolic.mapper as mapmod

from ..core import check, short
from ..gen import expr as G
from ..gen import scale
from ..mon.trace import HandlerTrace
from ..ref import normal, refsem

RULE = ("lists of 1-5 expressions over variables, constants, sums, products, divisions, powers and "
        "calls built from a pool of sub-terms inserted repeatedly: identical, commuted (one level), "
        "nested (a repeated term inside a repeated term), with operand multiplicities (x*x*y vs "
        "x*y*y), pre-existing wrappers with/without prefix and scope.  Judged: value of every tagged "
        "output; no wrapper directly around a wrapper; ONE plain EvaluationMapper evaluating all "
        "outputs enters each arithmetic/call handler at most once per operation (keyed by AC-normal "
        "form with wrappers stripped; instrumented subclass + call-counting function in the "
        "environment); evaluator once-per-wrapper on fresh and reused instances incl. wrappers whose "
        "child is 0; the wrap helpers over scalars, variables, subscripts, wrappers, object arrays and "
        "multivectors.  distinct = typed key of the list; non-trivial = >=1 repeated operation.")
ASSUMPTIONS = [
    "'same operation' is one-level commutation (what the statement promises); lists in which two "
    "sub-terms are equal only under nested commutation are skipped and counted",
    "the default evaluate() is not used for the sharing check (it memoizes every node)",
    "a reused evaluator may recompute a wrapper once per top-level call (scope EVALUATION); within "
    "one call it must compute it exactly once",
]

KF_HELPERS = "C12-wrap-helper-leaf-policy"
V = [p.Variable(n) for n in "xyz"]
OPS = (p.Sum, p.Product, p.Quotient, p.FloorDiv, p.Remainder, p.Power, p.Call)


def strip(e):
    if isinstance(e, p.CommonSubexpression):
        return strip(e.child)
    if isinstance(e, tuple):
        return tuple(strip(c) for c in e)
    if not isinstance(e, p.Expression):
        return e
    return type(e)(*[strip(getattr(e, f.name)) for f in dataclasses.fields(e)])


def key1(e):
    """one-level order-normalised key (what the library promises to merge)"""
    if isinstance(e, (p.Sum, p.Product)):
        return (type(e).__name__, frozenset(Counter(e.children).items()))
    return e


def keyac(e):
    """fully AC-normalised key, typed scalars"""
    if isinstance(e, (p.Sum, p.Product)):
        return (type(e).__name__, frozenset(Counter(keyac(c) for c in e.children).items()))
    if isinstance(e, tuple):
        return tuple(keyac(c) for c in e)
    if not isinstance(e, p.Expression):
        return ("c", type(e).__name__, e)
    return (type(e).__name__,) + tuple(keyac(getattr(e, f.name)) for f in dataclasses.fields(e))


def subterms(e):
    return [x for x in G.walk(e) if isinstance(x, p.Expression)]


def gen(r, d, pool, hist):
    if pool and r.random() < 0.35:
        t = r.choice(pool)
        if isinstance(t, (p.Sum, p.Product)) and r.random() < 0.45:
            ch = list(t.children)
            r.shuffle(ch)
            hist["commuted-copy"] += 1
            return type(t)(tuple(ch))
        hist["repeated"] += 1
        return t if r.random() < 0.5 else G.deep_rebuild(t)
    if d <= 0 or r.random() < 0.2:
        return r.choice([*V, 2, 3, -1, 0])
    k = r.choice(["sum", "prod", "prod", "quot", "pow", "call", "rem", "fdiv", "mult"])
    g = lambda: gen(r, d - 1, pool, hist)  # noqa: E731
    if k == "sum":
        e = p.Sum(tuple(g() for _ in range(r.randint(2, 3))))
    elif k == "prod":
        e = p.Product(tuple(g() for _ in range(r.randint(2, 3))))
    elif k == "mult":          # same operand set, different multiplicities
        a, b = g(), g()
        e = r.choice([p.Product, p.Sum])(r.choice([(a, a, b), (a, b, b), (b, a, a)]))
    elif k == "quot":
        a, b = g(), g()
        if not isinstance(a, p.Expression) and not isinstance(b, p.Expression):
            a = r.choice(V)       # int/int would fold to an inexact float
        e = p.Quotient(a, b)
    elif k == "fdiv":
        e = p.FloorDiv(g(), g())
    elif k == "rem":
        e = p.Remainder(g(), g())
    elif k == "pow":
        e = p.Power(g(), r.randint(2, 3))
    else:
        e = p.Call(p.Variable("f"), (g(),))
    hist[type(e).__name__] += 1
    pool.append(e)
    return e


class CountingEM(EvaluationMapper):
    """Public-extension-point instrumentation: count handler entries per operation."""

    def __init__(self, ctx):
        super().__init__(ctx)
        self.entered = Counter()


def _mk(nm):
    def f(self, expr, *a):
        self.entered[keyac(strip(expr))] += 1
        return getattr(EvaluationMapper, nm)(self, expr, *a)
    f.__name__ = nm
    return f


for _nm in ["map_sum", "map_product", "map_quotient", "map_remainder", "map_power", "map_call",
            "map_floor_div"]:
    setattr(CountingEM, _nm, _mk(_nm))


def ambiguous(exprs):
    byac = {}
    for e in exprs:
        for s in subterms(e):
            if isinstance(s, p.Variable):
                continue
            byac.setdefault(keyac(strip(s)), set()).add(key1(s))
    return any(len(v) > 1 for v in byac.values())


def nested_wrappers(t):
    return [s for s in subterms(t) if isinstance(s, p.CommonSubexpression)
            and isinstance(s.child, p.CommonSubexpression)]


import collections
ALIVE = collections.deque(maxlen=8)     # results of earlier tagging calls, still referenced


@check("C12.tag")
def c_tag(ctx, case):
    exprs, share = case
    try:
        tagged = tag_common_subexpressions(exprs)
        ALIVE.append(tagged)        # a caller keeps its results: later calls must not depend on it
    except RecursionError:
        raise
    except Exception as ex:  # noqa: BLE001
        ctx.fail("C12.tag", case, f"raised:{type(ex).__name__}",
                 f"tag_common_subexpressions({[G.src(e) for e in exprs]}) raised "
                 f"{type(ex).__name__}: {ex}")
        return
    if len(tagged) != len(exprs):
        ctx.fail("C12.tag", case, "length", f"{len(exprs)} inputs, {len(tagged)} outputs")
        return
    calls = Counter()

    def f(a):
        calls[a] += 1
        return a * 2 + 1
    curried = lambda v: (lambda w: v * w + 2)     # noqa: E731  (g(v) is a function: g(v)(w))
    for env in ({"x": F(3, 2), "y": F(-2), "z": F(5, 4), "f": f, "g": curried},
                {"x": F(0), "y": F(1), "z": F(-3), "f": f, "g": curried},
                {"x": F(2), "y": F(2), "z": F(2), "f": f, "g": curried}):
        for e, t in zip(exprs, tagged):
            ctx.case(None)
            ctx.count("value_compared")
            with refsem.exact():    # tagging may regroup a sum: equal over exact arithmetic
                want, faults, _ = refsem.expected(e, env)
                got = refsem.outcome(lambda: refsem.ev(t, env)) if want[0] == "v" else None
            if want[0] != "v":
                ctx.count("input_undefined")
                continue
            if not refsem.consistent(got, want, faults):
                ctx.fail("C12.tag", case, f"value:{got[0]}!={want[0]}",
                         f"tagging changed the value: {e}  ->  {t}; env x={env['x']} y={env['y']} "
                         f"z={env['z']}: {short(got)} vs {short(want)}; whole list "
                         f"{[str(x) for x in exprs]} -> {[str(x) for x in tagged]}")
                return
    for t in tagged:
        bad = nested_wrappers(t)
        if bad:
            ctx.fail("C12.tag", case, "wrapper-around-wrapper",
                     f"tagged output contains CSE(CSE(..)): {G.src(bad[0])} in {G.src(t)}")
    if not share:
        ctx.count("sharing_skipped_ambiguous")
        return
    # sharing: one plain evaluator over all outputs
    calls.clear()
    env = {"x": F(3, 2), "y": F(-2), "z": F(5, 4), "f": f, "g": curried}
    m = CountingEM(env)
    try:
        for t in tagged:
            m(t)
    except (ZeroDivisionError, TypeError, ValueError, OverflowError):
        ctx.count("sharing_skipped_fault")
        return
    ctx.case(None)
    ctx.count("sharing_checked")
    ctx.count("handler_entries_observed", sum(m.entered.values()))
    dup = {k: c for k, c in m.entered.items() if c > 1}
    ncall_ops = sum(1 for k in m.entered if k[0] == "Call")
    # every entered call handler calls f exactly once: more calls than call operations means a
    # wrapped call was recomputed behind the handler counter's back
    dupcalls = {"calls": sum(calls.values()), "call operations": ncall_ops} \
        if sum(calls.values()) > ncall_ops else {}
    if dup or dupcalls:
        k = next(iter(dup)) if dup else None
        ctx.fail("C12.tag", case, f"evaluated-twice:{k[0] if k else 'call'}",
                 f"one plain evaluator over all tagged outputs entered {len(dup)} operations more "
                 f"than once (e.g. {short(k, 200)} x{dup.get(k)}); f called twice with {dupcalls}; "
                 f"inputs {[str(x) for x in exprs]} tagged {[str(x) for x in tagged]}")


KF_PREWRAP = "C12-prefixed-or-scoped-pre-existing-wrapper-not-shared"


def _entries_of(exprs, u, inner=None):
    """(tagged list, how often one plain evaluator over all of it enters operation u, f calls)"""
    tagged = tag_common_subexpressions(exprs)
    calls = Counter()

    def f(a):
        calls[a] += 1
        return a * 2 + 1
    m = CountingEM({"x": F(3, 2), "y": F(-2), "z": F(5, 4), "f": f})
    for t in tagged:
        m(t)
    # the operation u at most once -- and, separately, the sub-term of u that is repeated
    # outside it (operations that occur ONLY inside u are recomputed with u, of course)
    ku = keyac(strip(u))
    kin = keyac(strip(inner)) if inner is not None else None
    return tagged, m.entered[ku], (m.entered[kin] if kin is not None and kin != ku else 0), \
        sum(calls.values()), sum(1 for k in m.entered if k[0] == "Call")


@check("C12.preexisting")
def c_preexisting(ctx, case):
    """An operation u that occurs once as the direct child of a hand-placed wrapper and once
    bare is a repeated operation by any reading; the two surrounding operations differ."""
    u, prefix, scope = case
    derived = prefix == "derived-class"     # a user SUBCLASS of the wrapper class, plain otherwise
    if derived:
        from ..usertypes import TaggedCSE
        prefix = None
    # third entry: a deeper sub-term of u repeated outside it (must end up shared as well)
    inner = next((s for s in subterms(u)[1:] if isinstance(s, OPS)), None)

    def mk(pre, sc):
        w = TaggedCSE(u, pre, sc, "tg") if derived else p.CommonSubexpression(u, pre, sc)
        out = [p.Product((w, 2)), p.Sum((G.deep_rebuild(u), p.Variable("z"), 7))]
        if inner is not None:
            out.append(p.Quotient(G.deep_rebuild(inner), 13))     # (13 occurs nowhere else)
        return out
    ctx.case(None)
    ctx.count("preexisting_wrapper_lists")
    try:
        tagged, n, nbelow, ncalls, ncallops = _entries_of(mk(prefix, scope), u, inner)
    except (ZeroDivisionError, TypeError, ValueError, OverflowError):
        ctx.count("sharing_skipped_fault")
        return
    if n > 1 or nbelow > 1 or ncalls > ncallops:
        finding = None
        # (a hand-placed wrapper that differs in its SCOPE only is adopted as a plain one and
        #  shared by the unchanged library: the recorded finding is about prefixes and subclasses)
        if prefix is not None or derived:
            try:
                # explanation test: the duplication is confined to u itself (everything below it
                # is still shared) and the same list with a plain wrapper is shared entirely
                was_derived, derived = derived, False
                _, n0, b0, c0, o0 = _entries_of(mk(None, p.cse_scope.EVALUATION), u, inner)
                derived = was_derived
                calls_in_u = sum(1 for s_ in subterms(u) if isinstance(s_, p.Call)
                                 and (inner is None or keyac(strip(s_)) != keyac(strip(inner))))
                if n0 == 1 and b0 <= 1 and c0 <= o0 and nbelow <= 1 \
                        and ncalls <= ncallops + calls_in_u:
                    finding = KF_PREWRAP
            except Exception:  # noqa: BLE001
                derived = was_derived
        ctx.fail("C12.preexisting", case, "evaluated-twice:pre-existing-wrapper",
                 f"[{'TaggedCSE' if derived else 'CSE'}(u, {prefix!r}, {scope})*2, u + z + 7, ..] "
                 f"with u = {u}: tagged {[str(t) for t in tagged]}; one evaluator over all entered u "
                 f"{n} times, its sub-term repeated outside {nbelow} times ({ncalls} calls of f for "
                 f"{ncallops} call operations)", finding=finding)


@check("C12.once")
def c_once(ctx, case):
    """Evaluator computes each distinct wrapper's child exactly once per top-level call."""
    exprs, xval = case
    from pymbolic.mapper.evaluator import CachedFloatEvaluationMapper, FloatEvaluationMapper
    for cls in (EvaluationMapper, CachedEvaluationMapper, FloatEvaluationMapper,
                CachedFloatEvaluationMapper):
        for reuse in (False, True):
            calls = Counter()

            def f(a):
                calls[a] += 1
                return a * 0 if xval == "zero" else a + 1
            env = {"x": 0 if xval == "zero" else 3, "y": 2, "f": f}
            m = cls(env)
            ncalls = 0
            for e in exprs:
                if not reuse:
                    m = cls(env)
                    calls.clear()
                before = Counter(calls)
                want = refsem.outcome(lambda: refsem.ev(e, {**env, "f": (lambda a: a * 0 if xval == "zero" else a + 1)}))
                got = refsem.outcome(lambda: m(e))
                ncalls += 1
                ctx.case(None)
                ctx.count("once_checked")
                if not refsem.same_outcome(got, want):
                    ctx.fail("C12.once", case, f"value:{cls.__name__}",
                             f"{cls.__name__} on {e}: {short(got)} vs {short(want)}")
                    continue
                # distinct wrapped calls f(arg) in e: each argument value at most once in this call
                for a, c in calls.items():
                    if c - before.get(a, 0) > 1:
                        ctx.fail("C12.once", case, f"wrapped-child-twice:{cls.__name__}:{xval}",
                                 f"{cls.__name__}{' (reused instance)' if reuse else ''}: while "
                                 f"evaluating {e} the wrapped call f({a}) ran "
                                 f"{c - before.get(a, 0)} times (x={env['x']})")
                ctx.count("wrapped_calls_observed", sum(calls.values()))


@check("C12.recover")
def c_recover(ctx, case):
    """An evaluation that FAILS below a wrapper leaves nothing behind in the evaluator: the same
    evaluator, asked again, fails the same way while the environment is the same, and gives the
    true value (child computed once) after the caller repaired the environment."""
    exprs, fault = case
    for cls in (EvaluationMapper, CachedEvaluationMapper):
        calls = Counter()

        def f(a):
            calls[a] += 1
            return a + 1
        env = {"y": 11, "f": f}     # (f's arguments below are then pairwise different values)
        if fault == "zero-divisor":
            env["x"] = 0
        m = cls(env)
        ref_f = lambda a: a + 1  # noqa: E731
        for phase in ("broken", "broken-again", "repaired", "repaired-again"):
            if phase == "repaired":
                env["x"] = 3            # the caller's own dict, repaired in place
                if cls is CachedEvaluationMapper:
                    m = cls(env)        # (its per-call memo table may hold earlier values)
            for e in exprs:
                before = Counter(calls)
                want = refsem.outcome(lambda: refsem.ev(e, {**env, "f": ref_f}),
                                      (UnknownVariableError,))
                got = refsem.outcome(lambda: m(e), (UnknownVariableError,))
                ctx.case(None)
                ctx.count("recover_checked")
                ctx.count("recover:" + phase + ":" + want[0])
                if not refsem.same_outcome(got, want):
                    ctx.fail("C12.recover", case, f"{phase}:{cls.__name__}:{fault}",
                             f"one {cls.__name__}, {fault}, phase {phase}: {e} gave {short(got)}, "
                             f"expected {short(want)} (env x={env.get('x', '<unbound>')})")
                    continue
                if want[0] == "v":
                    for a, c in calls.items():
                        if c - before.get(a, 0) > 1:
                            ctx.fail("C12.recover", case, f"wrapped-child-twice:{cls.__name__}",
                                     f"{cls.__name__} {phase}: while evaluating {e} the wrapped call "
                                     f"f({a}) ran {c - before.get(a, 0)} times")


def helper_cases():
    x, a = p.Variable("x"), p.Variable("a")
    s = p.Sum((x, 1))
    w = p.CommonSubexpression(s)
    wp = p.CommonSubexpression(s, "pre")
    wg = p.CommonSubexpression(s, None, p.cse_scope.GLOBAL)
    return x, a, s, w, wp, wg


@check("C12.helpers")
def c_helpers(ctx, case):
    x, a, s, w, wp, wg = helper_cases()
    CSE = p.CommonSubexpression

    def expect(name, got, ok, detail, policy=False):
        ctx.case(None)
        ctx.count("helper_checks")
        if not ok:
            ctx.fail("C12.helpers", case, f"helper:{name}", f"{name}: {detail}; got {G.src(got)}",
                     finding=KF_HELPERS if policy else None)

    for prefix in (None, "q"):
        r = p.wrap_in_cse(x, prefix)
        expect("wrap_in_cse(variable)", r, r is x, "variable must stay unwrapped")
        r = p.wrap_in_cse(a[1], prefix)
        expect("wrap_in_cse(subscript)", r, not isinstance(r, CSE), "subscript must stay unwrapped")
        # ... every subscript: whatever the aggregate (a[i][j], o.field[i], f(x)[0]) and the index
        for sub in (p.Subscript(p.Subscript(a, x), 1), p.Subscript(p.Lookup(x, "coords"), x),
                    p.Subscript(p.Call(p.Variable("f"), (x,)), 0), p.Subscript(a, (x, p.Sum((x, 1)))),
                    p.Subscript(a, p.Sum((x, 1))), p.Subscript(p.Sum((a, x)), 2)):
            r = p.wrap_in_cse(sub, prefix)
            expect("wrap_in_cse(subscript of composite aggregate)", r, r is sub,
                   f"{sub} is a subscript and must come back as it is")
        r = p.wrap_in_cse(3, prefix)
        expect("wrap_in_cse(constant)", r, not isinstance(r, CSE), "constant must stay unwrapped",
               policy=True)
        r = p.wrap_in_cse(s, prefix)
        expect("wrap_in_cse(sum)", r, isinstance(r, CSE) and r.child is s and r.prefix == prefix
               and not isinstance(r.child, CSE), "sum must be wrapped once with the prefix")
        for ww in (w, wp, wg):
            r = p.wrap_in_cse(ww, prefix)
            expect("wrap_in_cse(wrapper)", r, isinstance(r, CSE) and not isinstance(r.child, CSE)
                   and normal.typed_eq(r.child, s), "wrapper must not be wrapped again")
            if prefix is None or ww.prefix is not None:
                expect("wrap_in_cse(wrapper) identity", r, r is ww, "existing wrapper/prefix wins")
    for prefix in (None, "q"):
        for scope in (None, p.cse_scope.EVALUATION, p.cse_scope.GLOBAL):
            for const in (3, 1.5, True, np.float64(2.0)):
                r = p.make_common_subexpression(const, prefix, scope)
                expect("make_cse(constant)", r, not isinstance(r, CSE), "constant must stay unwrapped")
            r = p.make_common_subexpression(s, prefix, scope)
            expect("make_cse(sum)", r, isinstance(r, CSE) and r.child is s and r.prefix == prefix,
                   "sum must be wrapped once")
            for leaf, nm in ((x, "variable"), (a[1], "subscript")):
                r = p.make_common_subexpression(leaf, prefix, scope)
                expect(f"make_cse({nm})", r, not isinstance(r, CSE), f"{nm} must stay unwrapped",
                       policy=True)
            for ww in (w, wp, wg):
                r = p.make_common_subexpression(ww, prefix, scope)
                same_scope = scope is None or scope == p.cse_scope.EVALUATION or ww.scope == scope
                expect("make_cse(wrapper)", r, not isinstance(getattr(r, "child", None), CSE),
                       "already wrapped node must stay as it is", policy=not same_scope)
            arr = np.empty((2, 2), dtype=object)
            arr[0, 0], arr[0, 1], arr[1, 0], arr[1, 1] = s, 3, w, p.Product((x, x))
            r = p.make_common_subexpression(arr, prefix, scope)
            ok = (isinstance(r, np.ndarray) and r.shape == (2, 2) and isinstance(r[0, 0], CSE)
                  and r[0, 0].child is s and r[0, 1] == 3 and not isinstance(r[0, 1], CSE)
                  and isinstance(r[1, 1], CSE) and isinstance(r[1, 0], CSE))
            expect("make_cse(object array)", r, ok, "componentwise wrapping of an object array")
            # the argument is the caller's: wrapped components go into a NEW array
            untouched = arr[0, 0] is s and arr[0, 1] == 3 and arr[1, 0] is w \
                and isinstance(arr[1, 1], p.Product) and r is not arr \
                and not np.shares_memory(r, arr)
            expect("make_cse(object array) leaves its argument alone", arr, untouched,
                   "the caller's array must not be written into or returned")
            mvdata = {0: s, 1: p.Product((x, x)), 2: 5}
            if ok:
                wider = not (scope is None or scope == p.cse_scope.EVALUATION)
                expect("make_cse(object array) wrapper element", r,
                       not isinstance(r[1, 0].child, CSE),
                       "already wrapped element must stay as it is", policy=wider)
            if prefix is not None and ok:
                names = {r[i].prefix for i in np.ndindex(2, 2) if isinstance(r[i], CSE)}
                expect("make_cse(object array) prefixes", r, len(names) >= 2,
                       "component prefixes must differ")
            from pymbolic.geometric_algebra import MultiVector, Space
            mv = MultiVector({0: s, 1: p.Product((x, x)), 2: 5}, Space(2))
            r = p.make_common_subexpression(mv, prefix, scope)
            ok = isinstance(r, MultiVector) and isinstance(r.data[0], CSE) and r.data[0].child is s \
                and isinstance(r.data[1], CSE) and r.data[2] == 5 and not isinstance(r.data[2], CSE)
            expect("make_cse(multivector)", r, ok, "coefficientwise wrapping of a multivector")
            expect("make_cse(multivector) leaves its argument alone", mv,
                   r is not mv and mv.data[0] is s and mv.data[2] == 5
                   and not isinstance(mv.data[1], CSE),
                   "the caller's multivector must not be written into or returned")


@check("C12.tagger")
def c_tagger(ctx, case):
    """cse_tagger: weaker contract -- value preservation only."""
    e = case
    wm = CSEWalkMapper()
    wm(e)
    t = CSETagMapper(wm)(e)
    for env in ({"x": F(3, 2), "y": F(-2), "z": F(5, 4), "f": lambda a: a * 2 + 1},
                {"x": F(0), "y": F(1), "z": F(-3), "f": lambda a: a - 1}):
        ctx.case(None)
        ctx.count("tagger_value_compared")
        with refsem.exact():
            want, faults, _ = refsem.expected(e, env)
            got = refsem.outcome(lambda: refsem.ev(t, env)) if want[0] == "v" else None
        if want[0] != "v":
            continue    # "returns expressions of equal value" presupposes the input has one
        if not refsem.consistent(got, want, faults):
            ctx.fail("C12.tagger", case, "tagger-value",
                     f"CSETagMapper changed the value of {e}: {t}; {short(got)} vs {short(want)}")


def workload(ctx):
    rng = ctx.rng
    with HandlerTrace([csemod, mapmod]) as tr:
        pool = []
        for i in range(ctx.per_shard(ctx.pick(3000, 60000))):
            if i % 3 != 1:
                pool = []       # (every third list re-uses sub-terms of the one before it, whose
                #                 tagged result is still alive)
            exprs = [gen(rng, rng.randint(1, 3), pool, ctx.hist) for _ in range(rng.randint(1, 5))]
            exprs = [e for e in exprs if isinstance(e, p.Expression)]
            if not exprs:
                continue
            if rng.random() < 0.25:       # pre-existing wrappers (value / no nesting only)
                j = rng.randrange(len(exprs))
                exprs[j] = p.Sum((p.CommonSubexpression(exprs[j], rng.choice([None, "pre"]),
                                                        rng.choice([p.cse_scope.EVALUATION,
                                                                    p.cse_scope.GLOBAL])),
                                  p.CommonSubexpression(p.CommonSubexpression(V[0], "in"), None), 1))
                ctx.node("pre-existing-wrapper")
            share = not ambiguous(exprs)
            rep = Counter(keyac(strip(s)) for e in exprs for s in subterms(e) if isinstance(s, OPS))
            ctx.case(normal.typed_key(tuple(exprs)), any(c > 1 for c in rep.values()), n=0)
            if i < 4:
                ctx.sample("tag-list", [str(e) for e in exprs])
            ctx.run("C12.tag", (exprs, share))
            if rng.random() < 0.3:
                ctx.run("C12.tagger", exprs[0])
        # depth: commuted copies whose operands are DEEP and differ only at the bottom
        # (((a + b)*c + d)*e ... vs ((a + z)*c + d)*e ...): still one operation, performed once
        from ..gen import scale as _scale
        fams = _scale.family_towers(V[0], V[1])
        for fam in ("sum-in-product", "product-in-sum", "square", "call", "quotient-num", "neg"):
            for depth in (1, 2, 3, 4, 5, 6, 8, 12):
                if not ctx.mine("deep-commuted"):
                    continue
                A_ = _scale.nest(fams[fam], depth, p.Sum((V[0], V[1])))
                B_ = _scale.nest(fams[fam], depth, p.Sum((V[0], V[2])))
                A2, B2 = G.deep_rebuild(A_), G.deep_rebuild(B_)
                for j, exprs in enumerate([
                        [p.Product((p.Sum((A_, B_)), 3)), p.Sum((p.Sum((B2, A2)), 1))],
                        [p.Product((A_, B_)), p.Sum((p.Product((B2, A2)), 1))],
                        [p.Sum((A_, B_, V[1])), p.Power(p.Sum((V[1], B2, A2)), 2)],
                        [p.Call(p.Variable("f"), (p.Sum((A_, B_)),)), p.Call(p.Variable("f"), (p.Sum((B2, A2)),))]]):
                    ctx.case(("deep-commuted", fam, depth, j), True, n=0)
                    ctx.count("deep_commuted_copies")
                    ctx.run("C12.tag", (exprs, not ambiguous(exprs)))
        # calls whose FUNCTION is computed (g(a + b)(x)): what is repeated beneath the function
        # is shared like what is repeated beneath an argument
        f_, g_ = p.Variable("f"), p.Variable("g")
        x_, y_, z_ = V[0], V[1], V[2]
        for i, rep in enumerate([p.Call(f_, (y_,)), p.Sum((x_, y_)), p.Product((x_, y_, 3)), p.Power(y_, 2),
                                 p.Quotient(x_, p.Sum((y_, 7))), p.Call(f_, (p.Sum((x_, 1)),))]):
            rep2 = type(rep)(tuple(reversed(rep.children))) if isinstance(rep, (p.Sum, p.Product)) else \
                G.deep_rebuild(rep)
            for j, exprs in enumerate([
                    [p.Call(p.Call(g_, (rep,)), (x_,)), p.Product((rep2, 2))],
                    [p.Product((rep2, 2)), p.Call(p.Call(g_, (rep,)), (x_,))],
                    [p.Call(p.Call(g_, (rep,)), (z_,)), p.Call(f_, (p.Sum((rep2, 5)),))],
                    [p.Sum((p.Call(p.Call(g_, (rep,)), (z_,)), p.Call(p.Call(g_, (p.Sum((rep2, 1)),)), (z_,))))],
                    [p.Call(p.Call(g_, (rep,)), (rep2,))],
                    [p.Call(p.Call(g_, (p.Sum((rep, 4)),)), (x_,)), p.Call(p.Call(g_, (p.Sum((rep2, 4)),)), (y_,))]]):
                if ctx.mine("computed-function"):
                    ctx.case(("computed-function", i, j), True, n=0)
                    ctx.count("computed_function_calls")
                    ctx.run("C12.tag", (exprs, not ambiguous(exprs)))
        for i in range(ctx.per_shard(ctx.pick(400, 8000))):
            u = gen(rng, rng.randint(1, 3), [], ctx.hist)
            if not isinstance(u, OPS) or ambiguous([u]):
                continue
            pre = rng.choice([None, None, "pre", "derived-class"])
            sc = rng.choice([p.cse_scope.EVALUATION, p.cse_scope.EVALUATION, p.cse_scope.GLOBAL])
            ctx.case(("prewrap", normal.typed_key(u), pre, sc), True, n=0)
            ctx.run("C12.preexisting", (u, pre, sc))
        # scale: wide sums / products whose operand SETS agree and multiplicities differ,
        # next to a genuinely commuted copy
        for w in scale.SMALL_WIDTHS + [100]:
            for cls in (p.Sum, p.Product):
                if not ctx.mine("wide"):
                    continue
                zs = [p.Call(p.Variable("f"), (i + 2,)) if i % 3 == 0 else p.Power(V[2], i + 2)
                      for i in range(w - 3)]
                a, b = V[0], V[1]
                e1, e2 = cls((a, a, b, *zs)), cls((a, b, b, *zs))
                e3 = cls((*reversed(zs), b, a, a))
                exprs = [p.Product((e1, 2)) if cls is p.Sum else p.Sum((e1, 2)),
                         p.Sum((e2, 1)) if cls is p.Sum else p.Product((e2, 3)),
                         p.Power(e3, 2), p.Quotient(e2, 7)]
                ctx.case(("wide", cls.__name__, w), True, n=0)
                ctx.count("wide_lists")
                ctx.run("C12.tag", (exprs, not ambiguous(exprs)))
        # evaluator once-only
        x, y, f = p.Variable("x"), p.Variable("y"), p.Variable("f")
        for i in range(ctx.per_shard(ctx.pick(400, 8000))):
            inner = p.Call(f, (rng.choice([x, y, p.Sum((x, y)), p.Product((x, rng.randint(1, 4)))]),))
            w1 = p.CommonSubexpression(inner, rng.choice([None, "u"]))
            w2 = p.CommonSubexpression(p.Sum((w1, p.Call(f, (p.Sum((x, 7)),)))), "outer")
            pieces = [w1, w2, G.deep_rebuild(w1), p.Product((w1, w1)), p.Sum((w2, w1, w2))]
            exprs = [rng.choice([p.Sum, p.Product])(tuple(rng.choice(pieces)
                                                          for _ in range(rng.randint(2, 4))))
                     for _ in range(rng.randint(1, 4))]
            for xval in ("zero", "nonzero"):
                ctx.case(("once", normal.typed_key(tuple(exprs)), xval), True, n=0)
                if i < 1:
                    ctx.sample("once-per-wrapper", [str(e) for e in exprs])
                ctx.run("C12.once", (exprs, xval))
        for i in range(ctx.per_shard(ctx.pick(200, 4000))):
            bad = rng.choice([p.Quotient(y, x), p.Remainder(p.Sum((y, 5)), x),
                              p.Call(f, (p.FloorDiv(7, x),))])
            w1 = p.CommonSubexpression(p.Sum((bad, p.Call(f, (y,)))), rng.choice([None, "u"]))
            w0 = p.CommonSubexpression(p.Call(f, (p.Product((y, rng.randint(2, 5))),)))
            w2 = p.CommonSubexpression(p.Sum((w0, w1)), "outer")
            pieces = [w1, w2, w0, G.deep_rebuild(w1), p.Product((w0, w1)), p.Sum((w2, w1, w2))]
            exprs = [rng.choice([p.Sum, p.Product])(tuple(rng.choice(pieces)
                                                          for _ in range(rng.randint(2, 4))))
                     for _ in range(rng.randint(1, 3))]
            for fault in ("unbound", "zero-divisor"):
                ctx.case(("recover", normal.typed_key(tuple(exprs)), fault), True, n=0)
                ctx.run("C12.recover", (exprs, fault))
        if ctx.shard == 0:
            ctx.case(("helpers",), True, n=0)
            ctx.run("C12.helpers", None)
        for k, v in tr.handlers().items():
            ctx.count("handler:" + k, v)
    ctx.floor("computed_function_calls", 30)
    ctx.floor("deep_commuted_copies", 100)
    ctx.floor("value_compared", 10000)
    ctx.floor("sharing_checked", 1000)
    ctx.floor("handler_entries_observed", 5000)
    ctx.floor("once_checked", 2000)
    ctx.floor("wide_lists", 10)
    ctx.floor("recover:broken:exc", 100)
    ctx.floor("recover:broken:unk", 100)
    ctx.floor("recover:repaired:v", 400)
    ctx.floor("wrapped_calls_observed", 1000)
    ctx.floor("helper_checks", 50)
    ctx.floor("handler:CSEMapper.map_sum", 1000)
    ctx.floor("handler:CSEMapper.map_common_subexpression", 100)


RULE = RULE + '  Later additions: commuted copies that differ only 1-12 levels down; calls whose function is computed; scope-only hand-placed wrappers.'
