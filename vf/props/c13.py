"""C13 — generated Python code computes what the evaluator computes."""
from __future__ import annotations

import ast
import math
import pickle
import itertools
from fractions import Fraction as F

from immutabledict import immutabledict

import pymbolic
import pymbolic.primitives as p
from pymbolic.interop.ast import (
    ASTToPymbolic, to_evaluatable_python_function, to_python_ast)
import pymbolic.compiler as compmod
import pymbolic.interop.ast as astmod

from .. import usertypes as U
from ..core import check, short
from ..gen import expr as G
from ..gen import scale
from ..mon.trace import HandlerTrace
from ..ref import normal, refsem

RULE = ("typed expressions of the Python-expressible fragment: n-ary sums/products (>= 2 operands), "
        "the three divisions, powers, shifts, bitwise and logical operators, comparisons, "
        "conditionals, subscripts (scalar and tuple index), lookups (math.*, attributes), calls with "
        "positional and keyword arguments, tuples, min/max (>= 2 operands), negative and float "
        "constants, 0-40 free variables; every split of them into listed (random order, as names and "
        "as Variables, including listed variables that do NOT occur) and unlisted.  The generated "
        "programs are executed: compile() (also after a pickle round trip), to_python_ast (un-parsed "
        "and compiled), to_evaluatable_python_function, and the AST imported back; results and "
        "exception classes are compared with the independent reference evaluator on integer / dyadic "
        "points.  distinct = typed key of the expression; non-trivial = >= 2 operator nodes.")
ASSUMPTIONS = [
    "integer variables i j k (bitwise, shifts, indices), rational variables x y z with dyadic "
    "values: every float that arises is exact, so == is meaningful",
    "common-subexpression wrappers are outside the fragment of all four paths (compile prints "
    "'CSE(..)' verbatim, the AST path refuses them); one-operand min/max/and/or are degenerate in "
    "Python source (max(x)) and stay in C02",
    "the AST path refuses comparisons, min and max by raising NotImplementedError: accepted as a "
    "refusal, never as a wrong value",
]

IV = [p.Variable(n) for n in "ijk"]
XV = [p.Variable(n) for n in "xyz"]
MATH = p.Variable("math")


def g_int(r, d, extra):
    if d <= 0 or r.random() < 0.22:
        return r.choice([*IV, *extra, r.randint(-3, 5), 0, 1, 2, -1, True, 12345678901234567890,
                         -(2 ** 70)])
    k = r.choice(["sum", "prod", "fdiv", "rem", "pow", "lsh", "rsh", "bnot", "bor", "bxor", "band",
                  "if", "min", "max", "call", "sub", "subt", "neg", "look"])
    g = lambda: g_int(r, d - 1, extra)  # noqa: E731
    if k == "sum":
        return p.Sum(tuple(g() for _ in range(r.randint(2, 4))))
    if k == "prod":
        return (U.SubProduct if r.random() < 0.15 else p.Product)(tuple(g() for _ in range(r.randint(2, 3))))
    if k == "neg":
        return p.Product((-1, g()))
    if k == "fdiv":
        return (U.SubFloorDiv if r.random() < 0.2 else p.FloorDiv)(g(), g())
    if k == "rem":
        return (U.SubRemainder if r.random() < 0.2 else p.Remainder)(g(), g())
    if k == "pow":
        return p.Power(g(), r.choice([0, 1, 2, 3, p.Remainder(g(), 3)]))
    if k in ("lsh", "rsh"):
        return (p.LeftShift if k == "lsh" else p.RightShift)(g(), r.choice([0, 1, 2, p.Remainder(g(), 4)]))
    if k == "bnot":
        return p.BitwiseNot(g())
    if k in ("bor", "bxor", "band"):
        cls = {"bor": p.BitwiseOr, "bxor": p.BitwiseXor, "band": p.BitwiseAnd}[k]
        return cls(tuple(g() for _ in range(r.randint(2, 3))))
    if k == "if":
        return p.If(g_bool(r, d - 1, extra), g(), g())
    if k in ("min", "max"):
        return (p.Min if k == "min" else p.Max)(tuple(g() for _ in range(r.randint(2, 3))))
    if k == "call":
        if r.random() < 0.5:
            return p.Call(p.Variable("f"), (g(), g()))
        return p.CallWithKwargs(p.Variable("g"), (g(),), immutabledict({"kw": g(), "j2": g()}))
    if k == "sub":
        return p.Subscript(p.Variable("a"), p.Remainder(g(), 3))
    if k == "subt":
        return p.Subscript(p.Variable("m"), (p.Remainder(g(), 2), r.choice([0, 1])))
    return p.Lookup(p.Variable("o"), "attr")


def g_num(r, d, extra):
    if d <= 0 or r.random() < 0.22:
        return r.choice([*XV, *extra, r.randint(-3, 5), 1.5, -0.5, 2, -2.25, 0.0009765625,
                         1048576.5, -3.0517578125e-05])
    k = r.choice(["sum", "prod", "quot", "pow", "if", "min", "max", "int", "neg", "math", "tup"])
    g = lambda: g_num(r, d - 1, extra)  # noqa: E731
    if k == "sum":
        return p.Sum(tuple(g() for _ in range(r.randint(2, 4))))
    if k == "prod":
        return p.Product(tuple(g() for _ in range(r.randint(2, 3))))
    if k == "neg":
        return p.Product((-1, g()))
    if k == "quot":
        return p.Quotient(g(), r.choice([2, 4, -2, 0.5, p.Sum((p.Product((XV[0], XV[0])), 1))]))
    if k == "pow":
        return p.Power(g(), r.choice([0, 1, 2, 3]))
    if k == "if":
        return p.If(g_bool(r, d - 1, extra), g(), g())
    if k in ("min", "max"):
        return (p.Min if k == "min" else p.Max)(tuple(g() for _ in range(r.randint(2, 3))))
    if k == "math":
        return p.Call(p.Lookup(MATH, r.choice(["floor", "ceil", "trunc"])), (g(),))
    if k == "tup":
        return p.Subscript((g(), g(), g()), r.choice([0, 1, 2, -1]))
    return g_int(r, d - 1, [])


def g_bool(r, d, extra):
    if d <= 0 or r.random() < 0.2:
        return r.choice([True, False, p.Variable("t")])
    k = r.choice(["cmp", "cmp", "not", "or", "and"])
    if k == "cmp":
        op = r.choice(G.CMP_OPS)
        if r.random() < 0.4:
            return p.Comparison(g_num(r, d - 1, extra), op, g_num(r, d - 1, extra))
        return p.Comparison(g_int(r, d - 1, extra), op, g_int(r, d - 1, extra))
    if k == "not":
        return p.LogicalNot(g_bool(r, d - 1, extra))
    cls = p.LogicalOr if k == "or" else p.LogicalAnd
    return cls(tuple(g_bool(r, d - 1, extra) for _ in range(r.randint(2, 3))))


FIXED = {"f": G.fn_f, "g": lambda a, kw=0, j2=1: a + 3 * kw - j2, "a": [7, -8, 9],
         "o": G.Obj(6), "math": math}


def fixed_env():
    import numpy as np
    m = np.empty((2, 2), dtype=object)
    m[0, 0], m[0, 1], m[1, 0], m[1, 1] = 4, -1, 7, 2
    return dict(FIXED, m=m)


def point(rng, names):
    env = {}
    for n in names:
        if n in "ijk" or n.startswith("n"):
            env[n] = rng.randint(-3, 4)
        elif n == "t":
            env[n] = rng.choice([True, False])
        else:
            env[n] = rng.choice([F(rng.randint(-9, 9), rng.choice([1, 2, 4])), rng.randint(-3, 3)])
    return env


def free_vars(e):
    return sorted(G.variables_of(e) - set(FIXED) - {"m"})


@check("C13.compile")
def c_compile(ctx, case):
    e, listed, as_vars, seed = case
    rng = ctx.sub_rng("pts", seed)
    allv = sorted(G.variables_of(e) - {"math", "numpy"})
    order = list(listed) + sorted(n for n in allv if n not in listed)
    ctx.case(None)
    ctx.count("compiled")
    ctx.count(f"unlisted:{min(len(order) - len(listed), 3)}{'+' if len(order) - len(listed) >= 3 else ''}")
    try:
        spec = [p.Variable(n) if as_vars else n for n in listed]
        spec0 = list(spec)
        fn = pymbolic.compile(e, spec)
        ctxd = fn.context() if hasattr(fn, "context") else {}
        # the list of variables is the CALLER's: it comes back unchanged, and the caller goes
        # on using it (here: re-ordered and extended in place for its next compile) -- what was
        # compiled before, and its later pickles and copies, must not change with it
        same_spec = len(spec) == len(spec0) and all(a is b for a, b in zip(spec, spec0))
        spec.reverse()
        spec.append("later_name")
        if not same_spec:
            ctx.fail("C13.compile", case, "compile-modified-variables-argument",
                     f"compile({e}, {spec0}) changed the list it was given to {spec[:-1][::-1]}")
    except RecursionError:
        raise
    except Exception as ex:  # noqa: BLE001
        ctx.fail("C13.compile", case, f"compile-raised:{type(ex).__name__}",
                 f"compile({e}, {listed}) raised {type(ex).__name__}: {ex}")
        return
    try:
        fn2 = pickle.loads(pickle.dumps(fn))
    except Exception as ex:  # noqa: BLE001
        ctx.fail("C13.compile", case, f"pickle-raised:{type(ex).__name__}", f"{e}: {ex}")
        fn2 = None
    # the round trip applied to its own output (a second generation), and plain copies
    fn3 = fn4 = None
    if fn2 is not None:
        try:
            import copy
            fn3 = pickle.loads(pickle.dumps(pickle.loads(pickle.dumps(fn2))))
            fn4 = copy.copy(copy.deepcopy(fn2))
        except Exception as ex:  # noqa: BLE001
            ctx.fail("C13.compile", case, f"repickle-raised:{type(ex).__name__}", f"{e}: {ex}")
    for _ in range(4):
        env = point(rng, [n for n in order if n not in FIXED and n != "m"])
        full = dict(fixed_env(), **env)
        env = {n: full[n] for n in order}
        want, faults, _ = refsem.expected(e, full)
        for name, f in (("compiled", fn), ("unpickled", fn2), ("unpickled-again", fn3),
                        ("copied", fn4)):
            if f is None:
                continue
            ctx.case(None)
            ctx.count("compiled_calls")
            got = _call_with_ctx(f, [env[n] for n in order], full)
            if not _agree(got, want, faults) and _float_cancellation(e, full, got, want):
                # a + (b + c) is emitted as a + b + c: in floats, next to 2**71 - 2**71, the
                # two orders round differently by more than the tolerance -- the difference
                # is far below the rounding unit of the largest intermediate value
                ctx.count("float_cancellation_point")
                continue
            if not _agree(got, want, faults):
                ctx.fail("C13.compile", case, f"{name}:value:{got[0]}!={want[0]}",
                         f"compile({e}, {listed}) -> argument order {order}; called with "
                         f"{[env[n] for n in order]}: {short(got)}; evaluator: {short(want)}")
                return


class CompiledWithHelpers(compmod.CompiledExpression):
    """the documented way to give generated code more names than `math`: override context()"""

    def context(self):
        return {**super().context(), "f": G.fn_f, "kk": 7}


@check("C13.subclass")
def c_subclass(ctx, case):
    """A CompiledExpression SUBCLASS that supplies extra names through context(): the names are
    globals of the generated code (not arguments), and a pickle round trip, copy() and
    deepcopy() give back an object of the same class that behaves identically."""
    e, listed, seed = case
    import copy
    rng = ctx.sub_rng("pts", seed)
    allv = sorted(G.variables_of(e) - {"math", "numpy", "f", "kk"})
    order = list(listed) + sorted(n for n in allv if n not in listed)
    ctx.case(None)
    ctx.count("subclass_compiled")
    try:
        fn = CompiledWithHelpers(e, list(listed))
        clones = [("unpickled", pickle.loads(pickle.dumps(fn))), ("copied", copy.copy(fn)),
                  ("deep-copied", copy.deepcopy(fn)),
                  ("unpickled-twice", pickle.loads(pickle.dumps(pickle.loads(pickle.dumps(fn)))))]
    except RecursionError:
        raise
    except Exception as ex:  # noqa: BLE001
        ctx.fail("C13.subclass", case, f"raised:{type(ex).__name__}",
                 f"CompiledExpression subclass over {e} listed {listed}: {type(ex).__name__}: {ex}")
        return
    for name, c in clones:
        if type(c) is not CompiledWithHelpers:
            ctx.fail("C13.subclass", case, f"{name}:class-lost",
                     f"{name} clone of a CompiledExpression subclass is a {type(c).__name__}")
    for _ in range(3):
        env = point(rng, [n for n in order if n not in FIXED and n != "m"])
        full = dict(fixed_env(), **env)
        full["kk"] = 7
        want, faults, _ = refsem.expected(e, full)
        args = [full[n] for n in order]
        for name, f in [("compiled", fn), *clones]:
            ctx.case(None)
            ctx.count("subclass_calls")
            got = refsem.outcome(lambda: f(*args))
            if not _agree(got, want, faults):
                ctx.fail("C13.subclass", case, f"{name}:value:{got[0]}!={want[0]}",
                         f"CompiledExpression subclass with context() names f, kk over {e}, "
                         f"listed {listed} -> arguments {order} = {args}: {name} gives "
                         f"{short(got)}; evaluator: {short(want)}")
                return


def _float_cancellation(e, full, got, want):
    """both are values, a float is involved, and they differ by less than 1e-9 of the largest
    intermediate value of the computation (exact rational evaluation of every subexpression)"""
    if got[0] != "v" or want[0] != "v":
        return False
    if not (isinstance(got[1], float) or isinstance(want[1], float)
            or any(isinstance(x, float) for x in G.walk(e))):
        return False        # (math.trunc of a float product is an int that carries its rounding)
    if isinstance(got[1], bool) or isinstance(want[1], bool) \
            or not isinstance(got[1], (int, float, F)) or not isinstance(want[1], (int, float, F)):
        return False
    scale = 0
    with refsem.exact():
        for x in G.walk(e):
            if isinstance(x, p.Expression):
                v = refsem.outcome(lambda: refsem.ev(x, full))
                if v[0] == "v" and isinstance(v[1], (int, float, F)) and not isinstance(v[1], bool):
                    try:
                        scale = max(scale, abs(v[1]))
                    except (OverflowError, ValueError):
                        pass
    try:
        return abs(got[1] - want[1]) <= 1e-9 * float(scale)
    except (OverflowError, TypeError, ValueError):
        return False


def _cancels(ctx, e, full, got, want):
    """regrouped float arithmetic (a*b*c emitted as a*(b*c)) next to a cancellation or below
    math.trunc: see _float_cancellation"""
    if _float_cancellation(e, full, got, want):
        ctx.count("float_cancellation_point")
        return True
    return False


def _call_with_ctx(f, args, full):
    """the compiled lambda only knows `math`; bind the other non-argument names by closing the
    call over them is not possible, so they are passed as (unlisted, sorted) arguments too"""
    return refsem.outcome(lambda: f(*args))


def _agree(got, want, faults):
    if got[0] == "exc" and want[0] in ("exc", "unk"):
        return True if len(faults) > 1 else (got[1] == want[1] or want[0] == "unk"
                                             and got[1] in ("NameError", "KeyError"))
    return refsem.consistent(got, want, faults)


def ast_supported(e):
    """constructs the AST path declares unsupported (it must refuse, not mis-translate)"""
    return not any(isinstance(x, (p.Comparison, p.Min, p.Max, p.CommonSubexpression))
                   for x in G.walk(e))


def fill_ctx(node):
    for n in ast.walk(node):
        if isinstance(n, (ast.Name, ast.Attribute, ast.Subscript, ast.Tuple, ast.List)) \
                and not hasattr(n, "ctx"):
            n.ctx = ast.Load()
    return ast.fix_missing_locations(node)


def _refused_imports(ctx):
    """Python ASTs the importer refuses (identity / membership tests, at the first and at a later
    link of a chain; a lambda; a starred argument) -- the caller catches the refusal"""
    import ast as _ast
    for src in ("zz_a < zz_b is zz_c", "zz_a <= zz_b in zz_c", "zz_a < zz_b < zz_c is not zz_d", "zz_x in zz_y",
                "zz_a < (lambda: 1)", "zz_a < zz_b < zz_f(*zz_c)", "zz_a == zz_b != zz_c is zz_d"):
        try:
            ASTToPymbolic()(_ast.parse(src, mode="eval").body)
        except RecursionError:
            raise
        except Exception:  # noqa: BLE001
            ctx.count("refused_imports_before_the_judged_one")
    # ... and then plain and chained comparisons written in Python: what the importer gives now
    for src, want in (("vf_p < vf_q", p.Comparison(p.Variable("vf_p"), "<", p.Variable("vf_q"))),
                      ("vf_p <= vf_q < 3", p.LogicalAnd((p.Comparison(p.Variable("vf_p"), "<=", p.Variable("vf_q")),
                                                         p.Comparison(p.Variable("vf_q"), "<", 3))))):
        try:
            got = ASTToPymbolic()(_ast.parse(src, mode="eval").body)
        except RecursionError:
            raise
        except Exception as ex:  # noqa: BLE001
            return f"importing {src!r} after refused imports raised {type(ex).__name__}: {ex}"
        if not normal.typed_eq(got, want):
            return f"importing {src!r} after refused (and caught) imports gives {got!r}, expected {want!r}"
    return None


@check("C13.ast")
def c_ast(ctx, case):
    e, seed = case
    rng = ctx.sub_rng("pts", seed)
    free = free_vars(e)
    supported = ast_supported(e)
    ctx.case(None)
    ctx.count("ast_translations")
    try:
        tree = to_python_ast(e)
    except NotImplementedError:
        ctx.count("ast_refused")
        if supported:
            ctx.fail("C13.ast", case, "ast-refused-supported",
                     f"to_python_ast({e}) raised NotImplementedError although the expression uses "
                     f"only constructs the AST path supports")
        return
    except RecursionError:
        raise
    except Exception as ex:  # noqa: BLE001
        ctx.fail("C13.ast", case, f"to-ast-raised:{type(ex).__name__}",
                 f"to_python_ast({e}) raised {type(ex).__name__}: {ex}")
        return
    if not supported:
        ctx.count("ast_translated_unsupported_construct")
    progs = {}
    try:
        src = ast.unparse(tree)
        progs["unparsed"] = compile(src, "<unparsed>", "eval")
    except Exception as ex:  # noqa: BLE001
        ctx.fail("C13.ast", case, f"unparse-raised:{type(ex).__name__}", f"{e}: {ex}")
        src = None
    try:
        import copy
        progs["compiled-ast"] = compile(ast.Expression(fill_ctx(copy.deepcopy(tree))), "<ast>", "eval")
    except Exception as ex:  # noqa: BLE001
        ctx.fail("C13.ast", case, f"ast-compile-raised:{type(ex).__name__}", f"{e}: {ex}")
    fsrc = None
    try:
        fsrc = to_evaluatable_python_function(e, "generated_fn")
        ns = {}
        exec(fsrc, {"math": math}, ns)
        gen_fn = ns["generated_fn"]
    except NotImplementedError:
        gen_fn = None
    except RecursionError:
        raise
    except Exception as ex:  # noqa: BLE001
        ctx.fail("C13.ast", case, f"function-source-raised:{type(ex).__name__}",
                 f"to_evaluatable_python_function({e}) raised {type(ex).__name__}: {ex}; source {fsrc!r}")
        gen_fn = None
    try:
        prob = _refused_imports(ctx)      # ... after imports that were refused and caught
        if prob:
            ctx.fail("C13.ast", case, "from-ast:after-refused-import", prob)
        back = ASTToPymbolic()(tree)
        stray = G.variables_of(back) - G.variables_of(e)
        if stray:
            ctx.fail("C13.ast", case, "from-ast:names-from-elsewhere",
                     f"ASTToPymbolic()(to_python_ast({e})) = {back!r} mentions {sorted(stray)}, which "
                     f"do not occur in the expression (they occur in imports refused EARLIER)")
            back = None
    except NotImplementedError:
        back = None
        ctx.count("importer_refused")
    except RecursionError:
        raise
    except Exception as ex:  # noqa: BLE001
        ctx.fail("C13.ast", case, f"from-ast-raised:{type(ex).__name__}",
                 f"ASTToPymbolic()(to_python_ast({e})) raised {type(ex).__name__}: {ex}")
        back = None
    for _ in range(4):
        env = point(rng, free)
        full = dict(fixed_env(), **env)
        want, faults, _ = refsem.expected(e, full)
        for name, prog in progs.items():
            ctx.case(None)
            ctx.count("ast_evals")
            got = refsem.outcome(lambda: eval(prog, {"__builtins__": {}}, dict(full)))
            if not _agree(got, want, faults) and not _cancels(ctx, e, full, got, want):
                ctx.fail("C13.ast", case, f"{name}:value:{got[0]}!={want[0]}",
                         f"to_python_ast({e}) un-parses to {src!r}; at {env}: {short(got)}; "
                         f"evaluator: {short(want)}")
                return
        if gen_fn is not None:
            ctx.case(None)
            ctx.count("function_calls")
            names = sorted(G.variables_of(e))
            got = refsem.outcome(lambda: gen_fn(**{n: full[n] for n in names}))
            if not _agree(got, want, faults) and not _cancels(ctx, e, full, got, want):
                ctx.fail("C13.ast", case, f"function:value:{got[0]}!={want[0]}",
                         f"to_evaluatable_python_function({e}) = {fsrc!r}; at {env}: {short(got)}; "
                         f"evaluator: {short(want)}")
                return
        if back is not None:
            ctx.case(None)
            ctx.count("roundtrip_evals")
            got = refsem.outcome(lambda: refsem.ev(back, full))
            if got[0] == "unk":
                got = ("exc", "NameError")
            if not _agree(got, want, faults) and not _cancels(ctx, e, full, got, want):
                ctx.fail("C13.ast", case, f"from-ast:value:{got[0]}!={want[0]}",
                         f"ASTToPymbolic()(to_python_ast({e})) = {back!r}; at {env}: {short(got)}; "
                         f"evaluator: {short(want)}")
                return


def closed(e):
    """replace the fixed names (f, g, a, m, o) by nothing: compile() only binds `math`, so for the
    compile path those names count as free variables and are passed as arguments"""
    return e


def workload(ctx):
    rng = ctx.rng
    with HandlerTrace([compmod, astmod]) as tr:
        n = ctx.per_shard(ctx.pick(2500, 50000))
        for i in range(n):
            nextra = rng.choice([0, 0, 0, 2, 5, 12, 40]) if i % 5 == 0 else 0
            extra = [p.Variable(f"n{j:02d}") for j in range(nextra)]
            d = rng.randint(1, ctx.pick(4, 5))
            u = rng.random()
            e = g_int(rng, d, extra) if u < 0.5 else g_num(rng, d, extra) if u < 0.85 \
                else g_bool(rng, d, extra)
            if extra:
                e = p.Sum((e, *extra))
            if not isinstance(e, p.Expression):
                continue
            ctx.case(normal.typed_key(e), normal.count_ops(e) >= 2, n=0)
            for x in G.walk(e):
                if isinstance(x, p.Expression) and not isinstance(x, p.Variable):
                    ctx.node(type(x).__name__)
            if i < 3:
                ctx.sample("expression", str(e))
            # compile: names the lambda does not know (f, g, a, m, o) are passed as arguments
            free = sorted(G.variables_of(e) - {"math"})
            k = rng.randint(0, len(free))
            listed = rng.sample(free, k)
            if rng.random() < 0.3:
                listed.insert(rng.randint(0, len(listed)), "zz_absent")    # listed, not occurring
            ctx.run("C13.compile", (e, listed, rng.random() < 0.5, rng.randrange(10**9)))
            if k:
                ctx.run("C13.compile", (e, [], False, rng.randrange(10**9)))   # nothing listed
            ctx.run("C13.ast", (e, rng.randrange(10**9)))
            if i % 6 == 0:
                e2 = p.Sum((p.Call(p.Variable("f"), (e, p.Variable("kk"))),
                            p.Product((p.Variable("kk"), p.Variable("x")))))
                free2 = sorted(G.variables_of(e2) - {"math", "f", "kk"})
                ctx.run("C13.subclass", (e2, rng.sample(free2, rng.randint(0, len(free2))),
                                         rng.randrange(10**9)))
        # the SAME constant (negative, float, bool) in several positions of one expression:
        # sum term / product factor / call argument first, then power base, exponent, operand
        # of a division or of a unary operator -- and the other way round
        X_, Y_ = p.Variable("x"), p.Variable("y")
        low = [lambda c, t: p.Sum((c, t)), lambda c, t: p.Sum((t, c)), lambda c, t: p.Product((c, t)),
               lambda c, t: p.Sum((p.Product((c, Y_)), t)), lambda c, t: p.If(p.Comparison(X_, "<", c), c, t),
               lambda c, t: p.Min((c, t))]
        tight = [lambda c: p.Power(c, X_), lambda c: p.Power(X_, c), lambda c: p.Quotient(Y_, c),
                 lambda c: p.FloorDiv(c, p.Sum((p.Power(X_, 2), 1))), lambda c: p.Remainder(c, 7),
                 lambda c: p.Product((-1, p.Power(c, 2))), lambda c: p.Power(p.Power(c, 2), X_)]
        # (negative zero, constants whose text starts with a minus sign without being < 0,
        #  floats printed with an exponent sign: -0.0, -2j, 1e-05, -1e+20)
        consts = [-3, -1, -2.5, 2, True, -0.0, complex(1, -2), complex(-1, 2), 1e-05, -1e+20]
        for i, (lo, ti, c) in enumerate(itertools.product(low, tight, consts)):
            if not ctx.mine("repeated-constant"):
                continue
            for e in (lo(c, ti(c)), lo(ti(c), c) if lo is not low[4] else lo(c, ti(c))):
                if not isinstance(e, p.Expression):
                    continue
                ctx.case(normal.typed_key(e), True, n=0)
                ctx.count("repeated_constant_shapes")
                ctx.run("C13.compile", (e, [], False, i))
                ctx.run("C13.ast", (e, i))
        # purely imaginary constants print as '-2j': in source that is -(2j), whose real part is
        # -0.0 where the constant's is 0.0 -- equal numbers, on different sides of the branch cut
        # of a fractional power; judged at INTEGER exponents (variable k), where it cannot matter
        K_ = p.Variable("k")
        for i, c in enumerate([complex(0, -2), complex(0, -0.5), -0.0, complex(-0.0, 3)]):
            for e in (p.Power(c, K_), p.Product((3, p.Power(c, K_))), p.Sum((p.Power(c, 2), c, K_)),
                      p.Quotient(K_, p.Power(c, 2)), p.Product((-1, p.Power(c, K_)))):
                if ctx.mine("imaginary"):
                    ctx.case(normal.typed_key(e), True, n=0)
                    ctx.count("signed_zero_and_imaginary_shapes")
                    ctx.run("C13.compile", (e, [], False, i))
                    ctx.run("C13.ast", (e, i))
        # lazy constructs whose unselected part FAULTS: the decided operand comes first, the
        # faulty one later (or in the branch not taken); every shape at points that decide it
        Zc = p.Comparison(X_, "==", 0)
        bad = [p.Comparison(p.Quotient(12, X_), ">", 3), p.Comparison(p.Remainder(Y_, X_), "<", 1),
               p.Comparison(p.LeftShift(1, p.Product((-1, p.Power(X_, 0)))), ">", 0),
               p.Comparison(p.FloorDiv(Y_, p.Product((X_, 2))), "!=", 7)]
        lazy = []
        for b in bad:
            lazy += [p.LogicalOr((Zc, b)), p.LogicalAnd((p.LogicalNot(Zc), b)),
                     p.LogicalOr((Zc, b, p.Comparison(Y_, "<", 0))),
                     p.If(Zc, Y_, p.If(b, 1, 2)), p.If(p.LogicalNot(Zc), p.If(b, 1, 2), Y_),
                     p.LogicalAnd((p.LogicalOr((Zc, b)), p.Comparison(Y_, ">=", Y_)))]
        # ... and a FAULTING condition over branches that are the same expression (the same
        # object, or equal ones): the condition is still evaluated, its error still raised
        for b in bad:
            s1 = p.Sum((Y_, 1))
            lazy += [p.If(b, Y_, Y_), p.If(b, 1, 1), p.If(b, s1, s1), p.If(b, s1, p.Sum((Y_, 1))),
                     p.If(p.FloorDiv(6, X_), Y_, Y_), p.Sum((p.If(b, 2, 2), X_))]
        for i, e in enumerate(lazy):
            if not ctx.mine("lazy"):
                continue
            ctx.case(normal.typed_key(e), True, n=0)
            ctx.count("lazy_fault_shapes")
            for seed in range(3):
                ctx.run("C13.compile", (e, ["x"], False, 1000 * i + seed))
            ctx.run("C13.ast", (e, i))
        # sharing: ONE composite object at two places whose contexts differ (loose first, tight
        # later, and the reverse) -- what a program that names a sub-expression builds
        comps = [p.Sum((X_, Y_)), p.Sum((X_, -2)), p.Product((-1, X_)), p.Product((X_, Y_)),
                 p.FloorDiv(X_, 3), p.Remainder(Y_, 5), p.If(p.Comparison(X_, "<", Y_), X_, Y_),
                 p.Power(X_, 2), p.Min((X_, Y_)), p.Comparison(X_, "<", Y_), p.BitwiseOr((X_, 4)),
                 p.LeftShift(X_, 2), p.Quotient(X_, 4),
                 p.LogicalOr((p.Comparison(X_, "<", 0), p.Comparison(Y_, ">", 1)))]
        for i, s_ in enumerate(comps):
            for j, e in enumerate(scale.shared_contexts(s_, 3, p.Variable("z"))):
                if ctx.mine("shared"):
                    ctx.case(("shared", i, j), True, n=0)
                    ctx.count("shared_node_shapes")
                    ctx.run("C13.compile", (e, ["x"] if j % 2 else [], False, 100 * i + j))
                    ctx.run("C13.ast", (e, 100 * i + j))
        for i in range(ctx.per_shard(ctx.pick(400, 8000))):
            r2 = ctx.sub_rng("graft", i)
            e = g_int(r2, r2.randint(2, 4), []) if i % 2 else g_num(r2, r2.randint(2, 4), [])
            e = scale.graft(e, r2) if isinstance(e, p.Expression) else None
            if e is None:
                continue
            ctx.case(("graft", normal.typed_key(e)), True, n=0)
            ctx.count("shared_node_shapes")
            ctx.run("C13.compile", (e, [], False, i))
            ctx.run("C13.ast", (e, i))
        for k, v in tr.handlers().items():
            ctx.count("handler:" + k, v)
    ctx.floor("subclass_calls", 1000)
    ctx.floor("shared_node_shapes", 300)
    ctx.floor("refused_imports_before_the_judged_one", 3000)
    ctx.floor("lazy_fault_shapes", 20)
    ctx.floor("signed_zero_and_imaginary_shapes", 15)
    ctx.floor("repeated_constant_shapes", 100)
    ctx.floor("compiled", 2000)
    ctx.floor("compiled_calls", 10000)
    ctx.floor("ast_evals", 5000)
    ctx.floor("function_calls", 2000)
    ctx.floor("roundtrip_evals", 2000)
    ctx.floor("unlisted:3+", 300)


RULE = RULE + '  Later additions: one object in a loose and a tight context; refused imports before every judged import (probe comparisons, no stray names).'
