"""C14 — generated C code computes what the evaluator computes."""
from __future__ import annotations

import itertools
import math
import os
import re
import shutil
import subprocess
import tempfile

import pymbolic.primitives as p
from pymbolic.mapper.c_code import CCodeMapper
import pymbolic.mapper.c_code as cmod
import pymbolic.mapper.stringifier as strmod

from ..core import check, short
from ..gen import expr as G
from ..mon import streams
from ..mon.trace import HandlerTrace
from ..ref import normal, refsem

RULE = ("each translation unit holds ~150 generated functions `static T f_i(T x, T y, T z)` with the "
        "hoisted common-subexpression assignments followed by the emitted expression, and a main() "
        "printing every result over a grid; built with gcc -O0 and with clang-14 "
        "-fsanitize=address,undefined -fno-sanitize-recover=all and run.  Integer fragment (T = long "
        "long): + - *, floor division and remainder on non-negative operands, shifts, bitwise, "
        "comparisons, logical operators, conditionals, powers 0/1/2, 2-ary min/max; all intermediate "
        "values below 2**40 so any UBSan overflow report is a generation error.  Floating fragment (T "
        "= double): + - * /, pow, math calls, float constants (relative 1e-12).  Histories: 1-6 "
        "expressions through ONE mapper and its copy() / copy_with_mapped_cses(), shared and fresh "
        "wrappers, repeated prefixes; the offline checker replays cse_name_list (unique names, "
        "defined before use, one assignment per distinct wrapped child).  distinct = typed key of "
        "the expression (history); non-trivial = >= 2 operator nodes.")
ASSUMPTIONS = [
    "True/False constants and math.-qualified calls are not C and are outside the fragment",
    "gcc 12 and clang 14 define the C semantics; both must agree with the evaluator",
    "a missing compiler makes the run inconclusive, not silent",
]
SHARDS = {"quick": 4, "thorough": 12}
TIMEOUT = {"quick": 900, "thorough": 7200}

V = [p.Variable(n) for n in "xyz"]
CSE = p.CommonSubexpression
CMPS = ["<", "<=", "==", "!=", ">", ">="]
LIMIT = 2 ** 40


def gi(r, d, pool):
    if d <= 0 or r.random() < 0.2:
        return r.choice([*V, r.randint(0, 4), 1, 2, -1, -2])
    k = r.choice(["sum", "prod", "fdiv", "rem", "pow2", "lsh", "rsh", "bnot", "bor", "bxor", "band",
                  "if", "cse", "neg", "sum", "prod", "min", "max", "cmp", "shared"])
    g = lambda: gi(r, d - 1, pool)  # noqa: E731
    if k == "sum":
        kids = [g() for _ in range(r.randint(2, 3))]
        if r.random() < 0.3:    # a negated SUM as a term: a + -1*(b + c) is emitted with a minus sign
            kids[r.randrange(1, len(kids))] = p.Product((-1, p.Sum((g(), r.choice(V)))))
        return p.Sum(tuple(kids))
    if k == "prod":
        if r.random() < 0.3:    # a remainder / floor division as a factor (a * (b % c))
            rem = r.choice([p.Remainder, p.FloorDiv])(gnn(r, d - 1), p.Sum((gnn(r, d - 1), 2)))
            u_ = r.random()
            if u_ < 0.35:           # ... seen through a power that is emitted as its base
                rem = p.Power(rem, r.choice([1, 1, 2]))
            elif u_ < 0.55:         # ... or through a one-element product / sum around it
                rem = r.choice([p.Product, p.Sum])((rem,))
            fs = [gnn(r, d - 1), rem]
            r.shuffle(fs)
            return p.Product(tuple(fs))
        return p.Product(tuple(g() for _ in range(r.randint(2, 3))))
    if k == "fdiv":
        return p.FloorDiv(gnn(r, d - 1), p.Sum((gnn(r, d - 1), 1)))
    if k == "rem":
        return p.Remainder(gnn(r, d - 1), p.Sum((gnn(r, d - 1), 1)))
    if k == "pow2":
        return p.Power(g(), r.choice([0, 1, 2]))
    if k == "lsh":
        return p.LeftShift(gnn(r, d - 1), r.choice([0, 1, 2]))
    if k == "rsh":
        return p.RightShift(gnn(r, d - 1), r.choice([0, 1, 2]))
    if k == "bnot":
        return p.BitwiseNot(g())
    if k in ("bor", "bxor", "band"):
        cls = {"bor": p.BitwiseOr, "bxor": p.BitwiseXor, "band": p.BitwiseAnd}[k]
        return cls(tuple(g() for _ in range(r.randint(2, 3))))
    if k == "if":
        return p.If(gb(r, d - 1, pool), g(), g())
    if k == "cmp":
        return gb(r, d - 1, pool)
    if k in ("min", "max"):
        return (p.Min if k == "min" else p.Max)((g(), g()))
    if k == "cse":
        e = CSE(g(), r.choice([None, "u", "v", "u"]))
        pool.append(e)
        return e
    if k == "shared" and pool:
        e = r.choice(pool)
        return e if r.random() < 0.6 else G.deep_rebuild(e)
    return p.Product((-1, g()))


def gnn(r, d):
    """non-negative valued on the grid"""
    if d <= 0 or r.random() < 0.3:
        return r.choice([*V, r.randint(0, 4)])
    k = r.choice(["sum", "prod", "fdiv", "rem", "band", "bor", "sq"])
    g = lambda: gnn(r, d - 1)  # noqa: E731
    if k == "sum":
        return p.Sum((g(), g()))
    if k == "prod":
        return p.Product((g(), g()))
    if k == "fdiv":
        return p.FloorDiv(g(), p.Sum((g(), 1)))
    if k == "rem":
        return p.Remainder(g(), p.Sum((g(), 1)))
    if k == "sq":
        return p.Power(g(), 2)
    return (p.BitwiseAnd if k == "band" else p.BitwiseOr)((g(), g()))


def gb(r, d, pool):
    if d <= 0 or r.random() < 0.2:
        return p.Comparison(r.choice(V), r.choice(CMPS), r.randint(0, 3))
    k = r.choice(["cmp", "cmp", "not", "or", "and", "cmpbit", "cmpcmp", "ifcond"])
    if k == "ifcond":   # a conditional that is itself used as a truth value (condition, operand)
        return p.If(gb(r, d - 1, pool), gb(r, d - 1, pool), gb(r, d - 1, pool))
    if k == "cmp":
        return p.Comparison(gi(r, d - 1, pool), r.choice(CMPS), gi(r, d - 1, pool))
    if k == "cmpbit":
        return p.Comparison(p.BitwiseAnd((gi(r, d - 1, pool), gi(r, d - 1, pool))), r.choice(CMPS),
                            p.BitwiseOr((gi(r, d - 1, pool), 1)))
    if k == "cmpcmp":
        return p.Comparison(p.Comparison(gi(r, d - 1, pool), "<", gi(r, d - 1, pool)), r.choice(["==", "!=", "<"]),
                            gb(r, d - 1, pool))
    if k == "not":
        return p.LogicalNot(gb(r, d - 1, pool))
    cls = p.LogicalOr if k == "or" else p.LogicalAnd
    return cls((gb(r, d - 1, pool), gb(r, d - 1, pool)))


FN1 = ["sin", "cos", "exp", "sqrt", "fabs", "tanh"]


def gf(r, d, pool):
    if d <= 0 or r.random() < 0.2:
        # float literals only: in C, 3 / 8 between integer literals is integer division
        return r.choice([*V, 1.5, 2.0, 0.25, -0.5, 3.0, 1.0])
    k = r.choice(["sum", "prod", "quot", "pow", "pow2", "call", "cse", "neg", "sum", "prod", "if",
                  "shared", "quotsq", "remlike"])
    g = lambda: gf(r, d - 1, pool)  # noqa: E731
    if k == "sum":
        kids = [g() for _ in range(r.randint(2, 3))]
        if r.random() < 0.3:
            kids[r.randrange(1, len(kids))] = p.Product((-1, p.Sum((g(), r.choice(V)))))
        return p.Sum(tuple(kids))
    if k == "prod":
        return p.Product(tuple(g() for _ in range(r.randint(2, 3))))
    if k == "quot":
        return p.Quotient(g(), p.Sum((p.Product((g(), g())), 1.5)) if r.random() < 0.5
                          else p.Sum((p.Power(g(), 2), 1.0)))
    if k == "quotsq":
        if r.random() < 0.4:    # a product-valued denominator behind exponent 1
            return p.Quotient(g(), p.Power(p.Product((p.Sum((p.Power(r.choice(V), 2), 1.0)), 2.0)), 1))
        return p.Quotient(g(), p.Power(p.Sum((r.choice(V), 2.0)), 2))
    if k == "remlike":
        return p.Product((g(), p.Quotient(g(), p.Sum((p.Power(g(), 2), 1.0)))))
    if k == "pow":
        return p.Power(p.Sum((p.Power(g(), 2), 1.0)), r.choice([0.5, 1.5, g()]) if d <= 2 else 0.5)
    if k == "pow2":
        return p.Power(g(), r.choice([0, 1, 2]))
    if k == "call":
        f = r.choice(FN1)
        arg = p.Sum((p.Power(g(), 2), 1.0)) if f == "sqrt" else p.Quotient(g(), 8.0)
        return p.Call(p.Variable(f), (arg,))
    if k == "if":
        return p.If(p.Comparison(g(), "<", g()), g(), g())
    if k == "cse":
        e = CSE(g(), r.choice([None, "u", "w"]))
        pool.append(e)
        return e
    if k == "shared" and pool:
        return r.choice(pool)
    return p.Product((-1, g()))


PRELUDE = r"""
#include <stdio.h>
#include <math.h>
typedef %(T)s T;
static inline T min(T a, T b) { return a < b ? a : b; }
static inline T max(T a, T b) { return a > b ? a : b; }
"""
GRID_I = list(itertools.product([0, 1, 3], [0, 2], [1, 5]))
GRID_F = [(0.5, 1.25, -2.0), (3.0, 0.125, 1.0), (-1.5, 2.0, 0.75), (0.0, -0.25, 4.0)]
FENV = {"sin": math.sin, "cos": math.cos, "exp": math.exp, "sqrt": math.sqrt, "fabs": math.fabs,
        "tanh": math.tanh}
IDENT = re.compile(r"\b_cse\w*\b")


def _s(e):
    try:
        return str(e)
    except Exception:  # noqa: BLE001   (histories hold expressions the printer refuses)
        return G.src(e)


def in_range(e, grid):
    """every sub-expression value stays below LIMIT on the whole grid (integer fragment)"""
    for pt in grid:
        env = dict(zip("xyz", pt))
        for x in G.walk(e):
            if isinstance(x, p.Expression):
                v = refsem.outcome(lambda: refsem.ev(x, env))
                if v[0] != "v" or (isinstance(v[1], int) and abs(v[1]) >= LIMIT):
                    return False
    return True


def audit_name_list(nl, history_children, ident=None):
    """offline replay of cse_name_list; returns list of problems"""
    ident = ident or IDENT
    problems = []
    names = [n for n, _ in nl]
    dup = sorted({n for n in names if names.count(n) > 1})
    if dup:
        problems.append(f"names assigned more than once: {dup}")
    defined = set()
    for n, code in nl:
        if isinstance(code, str):
            for used in ident.findall(code):
                if used not in defined:
                    problems.append(f"{n} = {code}: uses {used} before its assignment")
        defined.add(n)
    # (a wrapper under x**0 or in an untaken rewrite need not be hoisted at all: "<=")
    if history_children is not None and len(nl) > history_children:
        problems.append(f"{len(nl)} assignments for {history_children} distinct wrapped children")
    return problems


def distinct_children(exprs, mapped=()):
    seen = []
    for e in exprs:
        for x in G.walk(e):
            if isinstance(x, CSE) and not any(x.child == s for s in seen):
                seen.append(x.child)
    for c in mapped:
        if not any(c == s for s in seen):
            seen.append(c)
    return len(seen)


def build_and_run(ctx, units, T, fmt, tag):
    """units: list of (uid, list of (name, code), list of result texts).  Returns
    {compiler: {(uid, k, pt): value}} or None when inconclusive."""
    d = tempfile.mkdtemp(prefix="vf-c14-", dir=os.environ.get("VF_TMP"))
    try:
        grid = GRID_I if T == "long long" else GRID_F
        src = [PRELUDE % {"T": T}]
        for uid, assigns, texts in units:
            body = "".join(f"  T {n} = {c};\n" for n, c in assigns)
            outs = "".join(f"  out[{k}] = {t};\n" for k, t in enumerate(texts))
            src.append(f"static void f{uid}(T x, T y, T z, T *out){{\n{body}{outs}}}")
        src.append("int main(void){\n  T out[64];")
        for uid, assigns, texts in units:
            for gi_, pt in enumerate(grid):
                args = ", ".join(repr(v) if T == "double" else str(v) for v in pt)
                src.append(f"  f{uid}({args}, out);")
                for k in range(len(texts)):
                    src.append(f'  printf("{uid} {k} {gi_} {fmt}\\n", out[{k}]);')
        src.append("  return 0;\n}")
        path = os.path.join(d, f"gen_{tag}.c")
        open(path, "w").write("\n".join(src))
        results = {}
        for comp, cmd in (("gcc", ["gcc", "-O0", "-w", "-o", "gen_gcc", path, "-lm"]),
                          ("clang-san", ["clang-14", "-O0", "-w", "-fsanitize=address,undefined",
                                         "-fno-sanitize-recover=all", "-o", "gen_clang", path, "-lm"])):
            if shutil.which(cmd[0]) is None:
                ctx.inconclusive.append(f"{cmd[0]} not found")
                continue
            cp = subprocess.run(cmd, cwd=d, capture_output=True, text=True, timeout=600)
            ctx.count(f"translation_units:{comp}")
            if cp.returncode != 0:
                results[comp] = ("compile-error", cp.stderr[:1500], path and open(path).read())
                continue
            env = dict(os.environ, ASAN_OPTIONS="detect_leaks=0:abort_on_error=0",
                       UBSAN_OPTIONS="print_stacktrace=0:halt_on_error=1")
            rp = subprocess.run([os.path.join(d, cmd[cmd.index("-o") + 1])], cwd=d,
                                capture_output=True, text=True, timeout=600, env=env)
            vals = {}
            for line in rp.stdout.splitlines():
                u, k, g_, v = line.split()
                vals[(int(u), int(k), int(g_))] = v
            results[comp] = ("ran", vals, rp.returncode, rp.stderr[:1500])
        return results
    finally:
        shutil.rmtree(d, ignore_errors=True)


@check("C14.unit")
def c_unit(ctx, case):
    kind, histories = case
    T, fmt = ("long long", "%lld") if kind == "int" else ("double", "%.17g")
    grid = GRID_I if kind == "int" else GRID_F
    units, meta = [], {}
    uid = 0
    for hist in histories:
        exprs, plan = hist[:2]
        opts = hist[2] if len(hist) > 2 else {}      # constructor options of the first mapper
        ident = re.compile(r"\b%s\w*\b" % re.escape(opts["cse_prefix"])) if "cse_prefix" in opts else IDENT
        mappers = [CCodeMapper(**opts)]
        texts = [[]]            # per mapper: (expr index, text)
        known = [[]]            # per mapper: expressions whose wrappers it may already have hoisted
        mapped = [[]]           # per mapper: children handed over by copy_with_mapped_cses
        pre_assign = {}
        gen_error = None
        try:
            for step in plan:
                if step[0] == "map":
                    _, i, k = step
                    texts[k].append((i, mappers[k](exprs[i])))
                    known[k].append(exprs[i])
                elif step[0] == "fail":
                    # an expression the mapper must refuse (a foreign object below a wrapper):
                    # the caller catches the error and carries on with the same mapper
                    _, i, k = step
                    try:
                        mappers[k](exprs[i])
                    except RecursionError:
                        raise
                    except Exception:  # noqa: BLE001
                        ctx.count("failed_renders_in_history")
                    known[k].append(exprs[i])
                elif step[0] == "copy":
                    k = step[1]
                    mappers.append(mappers[k].copy())
                    texts.append([])
                    known.append(list(known[k]))
                    mapped.append(list(mapped[k]))
                elif step[0] == "copy_mapped":
                    _, k, i = step
                    child = exprs[i]
                    name = f"given{len(pre_assign)}"
                    pre_assign[name] = CCodeMapper()(child)
                    mappers.append(mappers[k].copy_with_mapped_cses([(name, child)]))
                    texts.append([])
                    known.append(list(known[k]))
                    mapped.append([*mapped[k], child])
        except RecursionError:
            raise
        except Exception as ex:  # noqa: BLE001
            gen_error = f"{type(ex).__name__}: {ex}"
        ctx.case(None)
        ctx.count("histories")
        ctx.count("mappers_in_history:%d" % min(len(mappers), 4))
        if gen_error:
            ctx.fail("C14.unit", (kind, [hist]), f"generation-raised:{gen_error.split(':')[0]}",
                     f"CCodeMapper history {plan} over {[_s(e) for e in exprs]} raised {gen_error}")
            continue
        for k, m in enumerate(mappers):
            if not texts[k]:
                continue
            nl = [(n, c) for n, c in m.cse_name_list]
            assigns = []
            for n, c in nl:
                if isinstance(c, str):
                    assigns.append((n, c))
                else:       # a mapped CSE: defined by the caller
                    assigns.append((n, pre_assign.get(n) or CCodeMapper()(c)))
            probs = audit_name_list(nl, distinct_children(known[k], mapped[k]), ident)
            names_known = {n for n, _ in nl}
            for _, t in texts[k]:
                for used in ident.findall(t):
                    if used not in names_known:
                        probs.append(f"result text uses {used}, which is never assigned")
            ctx.count("cse_assignments", len(nl))
            if probs:
                ctx.fail("C14.unit", (kind, [hist]), f"cse-list:{probs[0].split(':')[0][:40]}",
                         f"history {plan} over {[_s(e) for e in exprs]}: mapper #{k}: {probs}; its "
                         f"cse_name_list = {nl}; emitted {[t for _, t in texts[k]]}")
                continue
            units.append((uid, assigns, [t for _, t in texts[k]]))
            meta[uid] = ([exprs[i] for i, _ in texts[k]], [t for _, t in texts[k]], nl, hist)
            uid += 1
    compile_and_compare(ctx, "C14.unit", case, kind, units, meta)


def compile_and_compare(ctx, check_name, case, kind, units, meta):
    """units: (uid, assignments, result texts); meta[uid] = (expressions, texts, name list,
    the history to replay).  Builds one translation unit per compiler and compares every
    printed value with the reference evaluator's."""
    T, fmt = ("long long", "%lld") if kind == "int" else ("double", "%.17g")
    grid = GRID_I if kind == "int" else GRID_F
    if not units:
        return
    try:
        results = build_and_run(ctx, units, T, fmt, kind)
    except subprocess.TimeoutExpired:
        ctx.inconclusive.append("C compile/run watchdog")
        return
    for comp, res in results.items():
        if res[0] == "compile-error":
            # find the culprit(s): rebuild each unit alone (small TU) -- only on failure
            culprit = None
            for u in units:
                one = build_and_run(ctx, [u], T, fmt, kind + "_one").get(comp)
                if one and one[0] == "compile-error":
                    culprit = (u, one[1])
                    break
            if culprit:
                u, err = culprit
                ctx.fail(check_name, (kind, [meta[u[0]][3]]), f"{comp}:does-not-compile",
                         f"{comp} rejects the C generated for {[str(e) for e in meta[u[0]][0]]}: "
                         f"assignments {u[1]} results {u[2]}: {err[:400]}")
            else:
                ctx.fail(check_name, case, f"{comp}:does-not-compile", res[1][:600])
            continue
        _, vals, rc, stderr = res
        if rc != 0 or "runtime error" in stderr or "AddressSanitizer" in stderr:
            ctx.fail(check_name, case, f"{comp}:sanitizer-or-crash",
                     f"{comp} binary exited {rc}: {stderr[:600]}")
        for uid, (exprs, texts, nl, hist) in meta.items():
            bad = None
            for k, e in enumerate(exprs):
                for gi_, pt in enumerate(grid):
                    want = refsem.outcome(lambda: refsem.ev(e, dict(zip("xyz", pt), **FENV)))
                    if want[0] != "v":
                        continue
                    got = vals.get((uid, k, gi_))
                    ctx.case(None)
                    ctx.count("c_values_compared")
                    ctx.count("compiler:" + comp)
                    if got is None:
                        bad = (e, texts[k], pt, "no output", want[1])
                        break
                    if kind == "int":
                        w = int(want[1])
                        ok = int(got) == w
                    else:
                        gv, w = float(got), float(want[1])
                        ok = (math.isnan(gv) and math.isnan(w)) or \
                            abs(gv - w) <= 1e-12 * normal.count_ops(e) * max(1.0, abs(w)) + 1e-300 \
                            or gv == w
                    if not ok:
                        bad = (e, texts[k], pt, got, want[1])
                        break
                if bad:
                    break
            if bad:
                e, txt, pt, got, w = bad
                ctx.fail(check_name, (kind, [hist]), f"{comp}:value:{kind}:{_csig(e)}",
                         f"{e} was emitted as `{txt}` with assignments {nl}; at x,y,z={pt} the "
                         f"{comp} binary prints {got}, the evaluator gives {w}")


def stream_rows(seed, n, kind):
    """kernels built on the fly, each wrapping a DIFFERENT subexpression"""
    import random
    r = random.Random(seed)
    gen = gi if kind == "int" else gf
    grid = GRID_I if kind == "int" else GRID_F
    one = 1 if kind == "int" else 1.0
    x, y = V[0], V[1]
    for i in range(n):
        k = r.random()
        if k < 0.5:
            yield p.Product((CSE(p.Sum((p.Product((x, i + 2)), y)), "t"), i + one))
        elif k < 0.7:
            yield p.Sum((CSE(p.Sum((y, i + one))), CSE(p.Product((i + 2, x)), "t")))
        else:
            e = gen(r, 2, [])
            if not isinstance(e, p.Expression) or (kind == "int" and not in_range(e, grid)):
                e = x
            yield p.Sum((CSE(p.Sum((e, i + one)), r.choice(["t", None])), y))


@check("C14.stream")
def c_stream(ctx, case):
    """ONE CCodeMapper over a stream of kernels built on the fly, each dropped once its text
    exists (node addresses are recycled while the mapper lives on): what is emitted depends on
    the kernel's value, never on the object carrying it."""
    kind, streams_ = case
    units, meta = [], {}
    for uid, (seed, n) in enumerate(streams_):
        m = CCodeMapper()
        kept, texts = [], []
        err = []

        def judge(i, e, m=m, kept=kept, texts=texts, err=err):
            if err:
                return
            kept.append(G.deep_rebuild(e))      # the oracle's own copy; the row itself goes
            try:
                texts.append(m(e))
            except RecursionError:
                raise
            except Exception as ex:  # noqa: BLE001
                err.append(f"row {i} ({e}): {type(ex).__name__}: {ex}")
        streams.each(ctx, stream_rows(seed, n, kind), judge)
        ctx.case(None)
        ctx.count("stream:histories")
        if err:
            ctx.fail("C14.stream", (kind, [(seed, n)]), "generation-raised",
                     f"one CCodeMapper over a stream of temporaries raised at {err[0]}")
            continue
        nl = [(n_, c) for n_, c in m.cse_name_list]
        probs = audit_name_list(nl, distinct_children(kept))
        names_known = {n_ for n_, _ in nl}
        for t in texts:
            for used in IDENT.findall(t):
                if used not in names_known:
                    probs.append(f"result text uses {used}, which is never assigned")
        if probs:
            ctx.fail("C14.stream", (kind, [(seed, n)]), f"cse-list:{probs[0].split(':')[0][:40]}",
                     f"stream of {n} temporaries {[str(e) for e in kept][:6]}...: {probs[:3]}; "
                     f"cse_name_list = {nl[:8]}...; emitted {texts[:6]}...")
            continue
        units.append((uid, [(a, b) for a, b in nl], texts))
        meta[uid] = (kept, texts, nl, (seed, n))
    compile_and_compare(ctx, "C14.stream", case, kind, units, meta)


def _csig(e):
    names = sorted({type(x).__name__ for x in G.walk(e) if isinstance(x, p.Expression)
                    and not isinstance(x, p.Variable)})
    return "+".join(n for n in names if n in ("Remainder", "FloorDiv", "Quotient", "Power",
                                               "Comparison", "CommonSubexpression", "If"))[:60]


def make_history(rng, kind):
    """(exprs, plan): plan steps are ("map", expr index, mapper index), ("copy", mapper index) and
    ("copy_mapped", mapper index, expr index of the child); mapper 0 is a fresh CCodeMapper and
    every copy gets the next index -- originals keep being used after they were copied."""
    pool = []
    gen = gi if kind == "int" else gf
    grid = GRID_I if kind == "int" else GRID_F
    n = rng.choice([1, 1, 1, 2, 3, 6])
    exprs = []
    tries = 0
    while len(exprs) < n and tries < 40:
        tries += 1
        e = gen(rng, rng.randint(1, 4), pool)
        if not isinstance(e, p.Expression):
            continue
        if kind == "int" and not in_range(e, grid):
            continue
        exprs.append(e)
    if not exprs:
        return None
    if rng.random() < 0.25:
        # repeated prefixes: several DIFFERENT wrapped children that all ask for the name "u"
        kids = []
        for j in range(rng.randint(3, 5)):
            c = p.Sum((rng.choice(V), j + 1)) if kind == "int" else p.Sum((rng.choice(V), j + 1.5))
            kids.append(CSE(c, "u"))
        rng.shuffle(kids)
        exprs.append(p.Sum(tuple(kids)))
        exprs.append(p.Product((kids[0], kids[-1])))
    if rng.random() < 0.25:
        # DIFFERENT wrapped children whose C text is identical (the sorted sum prints x + y and
        # y + x alike; x**2 and x*x both print x * x): two names, two assignments, same code
        a_, b_ = rng.sample(V, 2)
        two = 2 if kind == "int" else 2.0
        t1, t2 = rng.choice([(p.Sum((a_, b_)), p.Sum((b_, a_))),
                             (p.Power(a_, 2), p.Product((a_, a_))),
                             (p.Product((two, a_)), p.Product((a_, two)))])
        pre = rng.choice(["s", "s", None])
        k1, k2 = CSE(t1, pre), CSE(t2, pre)
        exprs.append(p.Sum((k1, p.Product((k2, 3 if kind == "int" else 3.0)))))
        exprs.append(p.Sum((k1, 1 if kind == "int" else 1.0)))     # the first one recurs later
        exprs.append(p.Product((k2, k1)))
    if len(exprs) > 1 and rng.random() < 0.5:
        exprs.append(exprs[0])                      # the same expression again, later
    plan = []
    nm = 1
    idx = list(range(len(exprs)))
    rng.shuffle(idx)
    for j, i in enumerate(idx):
        if j and rng.random() < 0.35:
            plan.append(("copy", rng.randrange(nm)))
            nm += 1
        if j and rng.random() < 0.15:
            child = gen(rng, 2, [])
            already = [x.child for e2 in exprs for x in G.walk(e2) if isinstance(x, CSE)]
            if isinstance(child, p.Expression) and not isinstance(child, CSE) \
                    and not any(child == c for c in already) \
                    and not any(isinstance(x, CSE) for x in G.walk(child)) \
                    and (kind != "int" or in_range(child, grid)):
                exprs.append(child)
                plan.append(("copy_mapped", rng.randrange(nm), len(exprs) - 1))
                nm += 1
                exprs.append(p.Sum((CSE(child, "m"), 1)))
                plan.append(("map", len(exprs) - 1, nm - 1))
        plan.append(("map", i, rng.randrange(nm)))
    if rng.random() < 0.25:
        # a render that fails half-way (after an inner wrapper was hoisted), then valid
        # expressions on the same mapper that use that inner wrapper
        c = p.Sum((rng.choice(V), 41 if kind == "int" else 41.5))
        inner = CSE(c, rng.choice(["s", None]))
        bad = rng.choice([None, "oops"])
        failing = p.Sum((CSE(p.Product((inner, p.Sum((inner, bad)))), "f"), 1))
        k = rng.randrange(nm)
        exprs.append(failing)
        plan.append(("fail", len(exprs) - 1, k))
        exprs.append(p.Sum((inner, 2 if kind == "int" else 2.0)))
        plan.append(("map", len(exprs) - 1, k))
        exprs.append(p.Product((CSE(G.deep_rebuild(c), inner.prefix), 3 if kind == "int" else 3.0)))
        plan.append(("map", len(exprs) - 1, k))
    return exprs, plan


def directed_histories():
    """integer shapes that earlier seeded defects needed, as one-expression histories -- kept
    deterministic because a catch that depends on the random stream is not a catch"""
    x, y, z = V[0], V[1], V[2]
    out = []
    for R in (p.Remainder, p.FloorDiv):
        rem = R(p.Sum((x, 5)), p.Sum((y, 2)))
        for wrapped in (p.Product((rem,)), p.Sum((rem,)), p.Power(rem, 1), rem,
                        p.Product((p.Product((rem,)),))):
            out.append(p.Product((z, wrapped)))
            out.append(p.Product((wrapped, p.Sum((z, 3)))))
            out.append(p.Remainder(p.Product((p.Sum((z, 7)), wrapped)), 5))
    out.append(p.FloorDiv(p.Sum((z, 40)), p.Power(p.Product((p.Sum((x, 1)), p.Sum((y, 1)))), 1)))
    out.append(p.Sum((x, p.Product((-1, p.Sum((y, z)))))))
    out.append(p.Sum((x, p.Product((-1, p.Sum((y, p.Product((-1, z)))))), 4)))
    out.append(p.Product((p.Sum((x, p.Product((-1, y)))), p.Sum((z,)))))
    out.append(p.If(p.Comparison(p.Sum((x, 1)), "<", p.Product((y, 2))), p.Sum((z, 1)), p.Product((z, 2))))
    # an application-defined node that prints itself through the documented hook
    from .. import usertypes as U
    for ub in (U.UBiased(x, 1), U.UBiased(p.Product((x, 2)), y)):
        out += [p.Product((3, ub)), p.Sum((y, 40, p.Product((-1, ub)))),
                p.Remainder(p.Product((p.Sum((y, 1)), 100)), p.Sum((ub, 4))),
                p.Product((ub, ub)), p.FloorDiv(p.Product((z, 50)), p.Sum((ub, 1))),
                p.Sum((CSE(p.Product((2, ub)), "h"), CSE(p.Product((2, ub)), "h")))]
    # subtracted products of three and more factors with a grouped factor at every position
    for R in (p.Remainder, p.FloorDiv):
        rem = R(p.Sum((y, 9)), p.Sum((z, 2)))
        for fs in ((x, rem), (rem, x), (x, y, rem), (x, rem, y), (rem, x, y), (p.Sum((x, 1)), rem, rem),
                   (x, p.Sum((y, z)), rem), (x, p.Product((y, rem)))):
            out.append(p.Sum((z, p.Product((-1, *fs)))))
            out.append(p.Sum((p.Product((-1, *fs)), 50, p.Product((-1, z, y)))))
            out.append(p.Product((2, p.Sum((z, p.Product((-1, *fs)))))))
    # sharing: ONE composite object at two places whose contexts differ
    from ..gen import scale
    for s_ in (p.Sum((x, y)), p.Sum((x, -2)), p.Product((-1, x)), p.Remainder(p.Sum((x, 7)), 5),
               p.FloorDiv(p.Sum((y, 9)), 4), p.If(p.Comparison(x, "<", y), x, y), p.Product((x, y)),
               p.Sum((x, p.Product((-1, y)))), p.Power(x, 2), p.LeftShift(x, 1), p.BitwiseOr((x, 4))):
        out += scale.shared_contexts(s_, 3, z)
        out += [p.Sum((CSE(s_, "sh"), p.Product((s_, z)))), p.Sum((p.Product((s_, z)), CSE(s_, "sh"))),
                p.Sum((p.Power(s_, 3), p.Product((s_, z)))), p.Sum((p.Product((s_, z)), p.Power(s_, 3)))]
    # depth: a construct applied to its own result, 3 .. 6 times
    fams = scale.family_towers(x, y)
    for fam in ("square", "neg", "floordiv", "remainder", "sum-in-product", "product-in-sum", "if-branch",
                "if-condition", "cse", "cse-prefixed", "min", "bitwise-not"):
        for depth in (3, 4, 5, 6):
            for core in (x, p.Sum((x, 1))):
                out.append(scale.nest(fams[fam], depth, core))
                out.append(p.Sum((y, p.Product((-1, scale.nest(fams[fam], depth, core))))))
    hists = [([e], [("map", 0, 0)]) for e in out]
    # constructor options combined with the history steps (a prefix of the caller's choice,
    # ascending order) -- copies inherit them
    for opts in ({"cse_prefix": "tq"}, {"cse_prefix": "tq", "reverse": False}, {"reverse": False},
                 {"cse_prefix": "_c"}, {"cse_prefix": "_cse_"}):
        k1, k2, k3 = CSE(p.Sum((x, 11)), "u"), CSE(p.Sum((y, 12)), "u"), CSE(p.Product((z, 3)))
        es = [p.Sum((k1, p.Product((k2, 3)))), p.Product((k2, k1)), p.Sum((k3, k1, k2)),
              p.Sum((CSE(p.Sum((x, 11)), "u"), 1)), p.Product((k3, k3))]
        for plan in ([("map", 0, 0), ("copy", 0), ("map", 1, 1), ("map", 2, 1), ("map", 3, 0), ("map", 4, 1)],
                     [("map", 0, 0), ("map", 4, 0), ("copy", 0), ("copy", 1), ("map", 3, 2), ("map", 1, 2), ("map", 2, 1)],
                     [("map", 2, 0), ("copy_mapped", 0, 5), ("map", 0, 1), ("map", 1, 1), ("map", 3, 1)]):
            es2 = [*es, p.Sum((x, y, 40))] if any(st[0] == "copy_mapped" for st in plan) else es
            hists.append((es2, plan, opts))
    # ... and at two places of two expressions that go through the one mapper
    for s_ in (p.Sum((x, y)), p.Remainder(p.Sum((x, 7)), 5), p.Product((-1, x)), p.Sum((x, p.Product((-1, y))))):
        es = [p.If(p.Comparison(z, ">", 0), s_, 0), p.Product((s_, z)), p.Sum((s_, 1)), p.Power(s_, 2)]
        hists.append((es, [("map", 0, 0), ("map", 1, 0), ("map", 2, 0), ("map", 3, 0)]))
        hists.append((es, [("map", 3, 0), ("map", 2, 0), ("map", 1, 0), ("map", 0, 0)]))
    # ONE subexpression wrapped under different scopes (and prefixes): still one assignment
    for sc in ([p.cse_scope.EVALUATION, p.cse_scope.EXPRESSION, p.cse_scope.GLOBAL],
               [p.cse_scope.GLOBAL, p.cse_scope.EVALUATION], [p.cse_scope.EXPRESSION] * 2):
        c = p.Sum((p.Product((x, 3)), y, 17))
        ks = [CSE(G.deep_rebuild(c) if j else c, "sc", s_) for j, s_ in enumerate(sc)]
        es = [p.Sum(tuple(ks)), p.Product((ks[-1], ks[0])), p.Sum((CSE(c, None, sc[0]), 1))]
        hists.append((es, [("map", 0, 0), ("copy", 0), ("map", 1, 1), ("map", 2, 0), ("map", 2, 1)]))
    # hoisted names at every length: prefixes of 1 .. 130 characters, two DIFFERENT wrapped
    # children asking for the same long prefix, and the first one again afterwards
    import random
    r = random.Random(14)
    from ..gen import scale
    for n in scale.NAME_LENGTHS:
        pre = scale.name(r, n, head="t")
        k1, k2, k3 = CSE(p.Sum((x, 11)), pre), CSE(p.Sum((y, 12)), pre), CSE(p.Product((z, 3)), pre + "_2")
        es = [p.Sum((k1, p.Product((k2, 3)))), p.Product((k2, k1)), p.Sum((k3, k1, k2)),
              p.Sum((CSE(p.Sum((x, 11)), pre), 1))]
        hists.append((es, [("map", 0, 0), ("map", 1, 0), ("copy", 0), ("map", 2, 1), ("map", 3, 0)]))
    return hists


def directed_float_histories():
    """floating-point constants of every kind that is exactly representable (numpy float64 /
    float32 scalars, integer-valued floats): 2.0 must stay a FLOATING constant in C -- next to
    an integer literal `1 / 2` is integer division"""
    import numpy as np
    x, y, z = V[0], V[1], V[2]
    out = []
    for c in (np.float64(2.0), np.float32(4.0), np.float64(3.0), 2.0, np.float64(0.5), np.float32(0.25),
              np.float64(-2.0), np.float64(1e20), np.float32(8.0)):
        out += [p.Quotient(1, c), p.Quotient(7, c), p.Product((p.Quotient(3, c), x)),
                p.Quotient(p.Power(x, 0), c), p.Sum((p.Quotient(1, c), p.Quotient(y, c))),
                p.Quotient(p.Product((3, 5)), p.Product((c, 1))), p.Quotient(c, 4),
                p.Product((c, p.Quotient(1, c)))]
        if not isinstance(c, np.float32):   # (float32 ** rounds to float32 in the evaluator)
            out.append(p.Power(p.Sum((x, 3.0)), c))
    hists = [([e], [("map", 0, 0)]) for e in out]
    # look-alike prefixes: a prefix that reads like a name the mapper would derive itself
    # ("u_3" hoisted first, then "u" three times; "t_2" next to "t")
    for first, base in (("u_3", "u"), ("t_2", "t"), ("v_2_2", "v_2"), ("w_2", "w")):
        ks = [CSE(p.Sum((x, 1.5)), first), CSE(p.Sum((y, 2.5)), base), CSE(p.Product((z, 3.0)), base),
              CSE(p.Sum((x, y)), base), CSE(p.Sum((z, 0.5)), first)]
        es = [p.Sum((ks[0], 1.0)), p.Product((ks[1], ks[2])), p.Sum((ks[3], ks[4], ks[0])),
              p.Sum((ks[2], ks[1], ks[3]))]
        hists.append((es, [("map", 0, 0), ("map", 1, 0), ("copy", 0), ("map", 2, 0), ("map", 3, 1),
                           ("map", 2, 1)]))
    return hists


def workload(ctx):
    rng = ctx.rng
    with HandlerTrace([cmod, strmod]) as tr:
        n_units = ctx.pick(1, 5)
        per_unit = ctx.pick(110, 140)
        for kind in ("int", "float"):
            for u in range(n_units):
                hists = []
                while len(hists) < per_unit:
                    h = make_history(rng, kind)
                    if h is not None:
                        hists.append(h)
                if kind == "float" and u == 0 and ctx.shard == 0:
                    dh = directed_float_histories()
                    ctx.count("directed_float_histories", len(dh))
                    hists += dh
                if kind == "int" and u == 0 and ctx.shard == 0:
                    dh = [h for h in directed_histories() if in_range(h[0][0], GRID_I)]
                    ctx.count("directed_histories", len(dh))
                    hists += dh
                for h in hists:
                    ctx.case((kind, normal.typed_key(tuple(h[0])), tuple(h[1]), str(h[2:])),
                             any(normal.count_ops(e) >= 2 for e in h[0]), n=0)
                    for e in h[0]:
                        for x in G.walk(e):
                            if isinstance(x, p.Expression) and not isinstance(x, p.Variable):
                                ctx.node(type(x).__name__)
                if u == 0:
                    ctx.sample(f"{kind}-history", {"exprs": [_s(e) for e in hists[0][0]],
                                                   "plan": [list(st) for st in hists[0][1]]})
                ctx.run("C14.unit", (kind, hists))
        for kind in ("int", "float"):
            if ctx.mine("stream"):
                sts = [(rng.getrandbits(32), rng.randint(20, 60)) for _ in range(ctx.pick(12, 60))]
                ctx.case(("stream", kind, tuple(sts)), True, n=0)
                ctx.run("C14.stream", (kind, sts))
        for k, v in tr.handlers().items():
            ctx.count("handler:" + k, v)
    ctx.floor("stream:rows", 400)
    ctx.floor("stream:row_address_reused", 100)
    ctx.floor("translation_units:gcc", 2)
    ctx.floor("translation_units:clang-san", 2)
    ctx.floor("c_values_compared", 5000)
    ctx.floor("compiler:clang-san", 2000)
    ctx.floor("cse_assignments", 100)
    ctx.floor("histories", 300)
    ctx.floor("directed_histories", 350)
    ctx.floor("directed_float_histories", 60)
    ctx.floor("failed_renders_in_history", 30)


RULE = RULE + '  Later additions: towers of 12 families as directed histories; constructor options (prefix, order) combined with copies; one object at two places across the expressions of one mapper.'
