"""C15 — linear-form extraction and affine solving are exact."""
from __future__ import annotations

import itertools
from fractions import Fraction as F

import numpy as np

import pymbolic.primitives as p
from pymbolic import var
from pymbolic.algorithm import gaussian_elimination, solve_affine_equations_for
from pymbolic.mapper.coefficient import CoefficientCollector

from ..core import check, short
from ..gen import expr as G
from ..gen import scale
from ..ref import normal, ratfun

RULE = ("coefficient collector: expressions of the affine grammar A ::= const-expr | target | A+A | "
        "c*A | A*c | A/c | -A (const-expr over non-target variables: sums, nested products, integer "
        "powers; variable-bearing factor in every position; subscripted variables) and syntactically "
        "non-affine counterparts (target*target, target in a denominator / exponent / under a power), "
        "each with target sets None, {x,y}, {x}, {y,u}; judged by exact rational-function normal "
        "forms.  Solver: unimodular integer systems (products of elementary row operations) with "
        "integer / parametric right-hand sides, rows and columns permuted, terms split across both "
        "sides, missing / duplicated / contradictory / under-determined / non-integral variants; "
        "every returned assignment is substituted back into every equation and must normalise to 0.  "
        "distinct = typed key of the expression (system); non-trivial = >=1 operator node.")
ASSUMPTIONS = [
    "'affine' is syntactic (the grammar above): x**1 or (x*x)/x are outside it and only judged if "
    "the collector returns",
    "any exception counts as 'raises'; its type is recorded",
]
KF_LEAFNAME = "C15-coefficient-collector-named-targets-nonvariable-leaf"

T = [var("x"), var("y")]
N = [var("u"), var("v")]


def const(r, d):
    if d <= 0 or r.random() < 0.3:
        return r.choice([*N, r.randint(-3, 3), 2, 5])
    k = r.choice(["sum", "prod", "pow", "prod3"])
    if k == "sum":
        return p.Sum((const(r, d - 1), const(r, d - 1)))
    if k == "prod":
        return p.Product((const(r, d - 1), const(r, d - 1)))
    if k == "prod3":
        return p.Product((const(r, d - 1), p.Product((const(r, d - 1), const(r, 0)))))
    return p.Power(const(r, d - 1), r.randint(0, 2))


def target(r, subs):
    if subs and r.random() < 0.3:
        return p.Subscript(var("a"), r.choice([0, 1, N[0]]))
    if r.random() < 0.12:   # a target that is an instance of a Variable SUBCLASS (same name)
        from ..usertypes import LegacyMid
        return LegacyMid(r.choice(T).name)
    return r.choice(T)


def aff(r, d, subs):
    if d <= 0 or r.random() < 0.2:
        return target(r, subs) if r.random() < 0.6 else const(r, 1)
    k = r.choice(["sum", "cl", "cr", "div", "prod3", "neg", "nest", "shared"])
    g = lambda: aff(r, d - 1, subs)  # noqa: E731
    if k == "shared":   # one composite sum both as the numerator of a quotient and elsewhere
        s = p.Sum((g(), target(r, subs), const(r, 1)))
        parts = [p.Quotient(s, r.choice([2, 3, N[0]])), p.Product((const(r, 1), s))]
        r.shuffle(parts)
        return p.Sum(tuple(parts))
    if k == "sum":
        return p.Sum(tuple(g() for _ in range(r.randint(1, 3))))
    if k == "cl":
        return p.Product((const(r, 1), g()))
    if k == "cr":
        return p.Product((g(), const(r, 1)))
    if k == "prod3":
        ch = [const(r, 1), const(r, 1), g()]
        r.shuffle(ch)
        return p.Product(tuple(ch))
    if k == "nest":
        return p.Product((const(r, 0), p.Product((g(), const(r, 0)))))
    if k == "div":
        return p.Quotient(g(), r.choice([2, 3, -2, N[0], p.Sum((N[1], 3))]))
    return p.Product((-1, g()))


def nonaff(r):
    k = r.choice(["tt", "den", "exp", "powt", "den2", "tt2", "deep"])
    x, y = T
    if k == "tt":
        return p.Sum((p.Product((p.Sum((aff(r, 1, False), x)), y)), 1))
    if k == "tt2":
        return p.Product((x, const(r, 1), x))
    if k == "den":
        return p.Quotient(const(r, 1), x)
    if k == "den2":
        return p.Quotient(y, p.Sum((x, r.choice([1, N[0], 3]))))
    if k == "exp":
        return p.Power(2, x)
    if k == "deep":
        return p.Sum((aff(r, 2, False), p.Product((N[0], p.Product((x, p.Sum((y, 1))))))))
    return p.Power(p.Sum((x, 1)), 2)


def leaf_sym(k):
    return ratfun.atom_name(k)


def has_nonvar_leaf(e):
    return any(isinstance(x, (p.Subscript, p.Call, p.Lookup)) for x in G.walk(e))


def has_target(e, tn):
    for x in G.walk(e):
        if isinstance(x, p.Variable) and (tn is None or x.name in tn):
            return True
    return False


def syn_affine(e, tn):
    """membership in the affine grammar w.r.t. target names tn (None: every variable)"""
    if not has_target(e, tn):
        return True
    if isinstance(e, p.Variable):
        return True
    if isinstance(e, p.Subscript) and tn is None:
        return True         # with no names given every algebraic leaf is a target
    if isinstance(e, p.Sum):
        return all(syn_affine(c, tn) for c in e.children)
    if isinstance(e, p.Product):
        withv = [c for c in e.children if has_target(c, tn)]
        return len(withv) == 1 and syn_affine(withv[0], tn)
    if type(e) is p.Quotient:
        return not has_target(e.denominator, tn) and syn_affine(e.numerator, tn)
    return False


@check("C15.collect")
def c_collect(ctx, case):
    e, names, affine = case
    affine = syn_affine(e, None if names is None else set(names))
    ctx.case(None)
    ctx.count("collector_calls")
    ctx.count("affine_inputs" if affine else "nonaffine_inputs")
    try:
        co = CoefficientCollector(names)(e)
    except RecursionError:
        raise
    except Exception as ex:  # noqa: BLE001
        ctx.count("raised:" + type(ex).__name__)
        if affine:
            finding = KF_LEAFNAME if (names is not None and has_nonvar_leaf(e)
                                      and isinstance(ex, AttributeError)) else None
            ctx.fail("C15.collect", case, f"affine-refused:{type(ex).__name__}",
                     f"CoefficientCollector({names})({e}) raised {type(ex).__name__}: {ex} although "
                     f"the expression is affine in the targets", finding=finding)
        return
    if not affine:
        # non-affine in the *given* targets? (with names=[x] an x-free non-affine part is a constant)
        tn = set(names) if names is not None else {"x", "y", "u", "v"}
        try:
            rf = ratfun.from_expr(e)
            nonaff_here = any(_degree_exceeds_one(rf, t) for t in tn) or _mixed(rf, tn)
        except Exception:  # noqa: BLE001
            nonaff_here = True
        if nonaff_here:
            ctx.fail("C15.collect", case, "nonaffine-accepted",
                     f"CoefficientCollector({names})({e}) returned {_cs(co)} although the expression "
                     f"is not affine in {sorted(tn)}")
            return
    atoms = {}
    try:
        want = ratfun.from_expr(e, atoms)
    except (ratfun.NotRational, ZeroDivisionError):
        ctx.count("input_not_rational")
        return
    tn = set(names) if names is not None else None
    total = ratfun.const(0)
    for k, cv in co.items():
        try:
            cr = ratfun.from_expr(cv, atoms)
        except ZeroDivisionError:
            ctx.count("coefficient_undefined")
            return
        if isinstance(k, p.Expression):
            ks = leaf_sym(k)
            if tn is not None and not (isinstance(k, p.Variable) and k.name in tn):
                ctx.fail("C15.collect", case, "key-not-a-target",
                         f"CoefficientCollector({names})({e}) has key {k} which is not a target")
                return
            total = total + cr * ratfun.sym(ks)
        elif k == 1:
            total = total + cr
        else:
            ctx.fail("C15.collect", case, "strange-key", f"key {k!r} in {_cs(co)}")
            return
        # coefficients free of the targets
        targets = tn if tn is not None else {leaf_sym(kk) for kk in co if isinstance(kk, p.Expression)}
        for t in targets:
            if cr.depends_on(t):
                ctx.fail("C15.collect", case, "coefficient-mentions-target",
                         f"CoefficientCollector({names})({e}): coefficient of {k} is {cv}, which "
                         f"depends on the target {t}")
                return
    if not (total == want):
        ctx.fail("C15.collect", case, "reconstruction",
                 f"CoefficientCollector({names})({e}) = {_cs(co)}: sum of coefficient*variable + "
                 f"constant is {total}, the expression is {want}")
        return
    # history: ONE collector object used again -- for the whole expression and for its sums --
    # must give what a fresh collector gives
    cc = CoefficientCollector(names)
    # ... and one collector that was built for OTHER targets and re-targeted through its public
    # attribute (target_names is how the mapper is configured; it is read on every leaf)
    other = ["u", "v"] if names is None or "u" not in names else None
    rc = CoefficientCollector(other)
    try:        # (a first use with the other targets; what it gives is not judged here)
        rc(e)
    except Exception:  # noqa: BLE001
        pass
    rc.target_names = names
    ctx.count("collector_retargeted")
    try:
        again = rc(e)
        if _cmap(again) != _cmap(co):
            ctx.fail("C15.collect", case, "retargeted-differs",
                     f"a CoefficientCollector({other}) whose target_names was then set to {names}: "
                     f"{e} -> {_cs(again)}, a collector built with those targets gives {_cs(co)}")
            return
    except RecursionError:
        raise
    except Exception as ex:  # noqa: BLE001
        ctx.fail("C15.collect", case, f"retargeted-raised:{type(ex).__name__}", f"{e}: {ex}")
        return
    subs = [x for x in G.walk(e) if isinstance(x, p.Sum)][:4]
    # (a sum asked for on its own, then as the numerator of a quotient, then on its own again)
    seq = [e, *subs, p.Quotient(e, 2), e, *[p.Quotient(s_, 3) for s_ in subs[:2]], *subs[:2],
           p.Product((2, e)), e]
    if not isinstance(names, (list, type(None))):
        seq = [e, *subs, e]         # (the long history for three of the nine configurations)
    for step, sub in enumerate(seq):
        ctx.case(None)
        ctx.count("collector_reuse_calls")
        try:
            again = cc(sub)
            fresh = CoefficientCollector(names)(sub)
        except RecursionError:
            raise
        except Exception as ex:  # noqa: BLE001
            ctx.fail("C15.collect", case, f"reuse-raised:{type(ex).__name__}", f"{sub}: {ex}")
            return
        if _cmap(again) != _cmap(fresh):
            ctx.fail("C15.collect", case, "reuse-differs",
                     f"call {step} on one CoefficientCollector({names}): {sub} -> {_cs(again)}, a "
                     f"fresh collector gives {_cs(fresh)} (first call was on {e})")
            return


def _cmap(co):
    out = {}
    for k, v in co.items():
        try:
            out[repr(normal.typed_key(k))] = ratfun.from_expr(v)
        except Exception:  # noqa: BLE001
            out[repr(normal.typed_key(k))] = repr(normal.typed_key(v))
    return {k: (repr(v.n), repr(v.d)) if isinstance(v, ratfun.R) else v for k, v in out.items()}


def _degree_exceeds_one(rf, t):
    """is the rational function non-affine in symbol t?  (d^2/dt^2 != 0 or t in the denominator)"""
    if any(t in dict(m) for m in rf.d):
        # t might cancel; test exactly via second derivative of n/d
        pass
    n1 = ratfun.R(ratfun.p_add(ratfun.p_mul(ratfun.p_diff(rf.n, t), rf.d),
                               ratfun.p_neg(ratfun.p_mul(rf.n, ratfun.p_diff(rf.d, t)))),
                  ratfun.p_mul(rf.d, rf.d))
    return n1.depends_on(t)


def _mixed(rf, tn):
    """a product of two different targets (x*y) is not affine although each degree is 1"""
    if rf.d != ratfun.ONE and any(dict(m) for m in rf.d):
        return False
    for m in rf.n:
        if sum(e for s_, e in m if s_ in tn) > 1:
            return True
    return False


def _cs(co):
    return "{" + ", ".join(f"{k}: {v}" for k, v in co.items()) + "}"


# {{{ systems

def unimodular(rng, n):
    m = [[int(i == j) for j in range(n)] for i in range(n)]
    for _ in range(rng.randint(0, 6)):
        i, j = rng.sample(range(n), 2) if n > 1 else (0, 0)
        if i == j:
            continue
        k = rng.choice([-2, -1, 1, 2])
        u = rng.random()
        if u < 0.5:
            m[i] = [a + k * b for a, b in zip(m[i], m[j])]
        elif u < 0.75:
            m[i], m[j] = m[j], m[i]
        else:
            m[i] = [-a for a in m[i]]
    return m


def lin(coeffs, syms, const_part):
    terms = [c * s for c, s in zip(coeffs, syms) if c != 0]
    e = const_part
    for t in terms:
        e = e + t
    return e


def make_system(rng, kind):
    n = rng.randint(1, 4)
    names = rng.sample(["x", "y", "z", "w"], n)
    unk = [var(nm) for nm in names]
    params = [var("n"), var("m")]
    m = unimodular(rng, n)
    # choose solution, derive rhs: rhs_i = sum_j m_ij * sol_j  (sol affine in params, integral)
    if rng.random() < 0.2:      # magnitudes past 2**31 / 2**53 / 2**63: integers stay exact
        sol = [lin([rng.choice([scale.big(rng), rng.randint(-2, 2)]), rng.randint(-1, 1)], params,
                   scale.big(rng)) for _ in range(n)]
    else:
        sol = [lin([rng.randint(-2, 2), rng.randint(-1, 1)], params, rng.randint(-5, 5))
               for _ in range(n)]
    eqs = []
    for row in m:
        lhs_terms = [(c, u) for c, u in zip(row, unk) if c != 0]
        rhs = 0
        for c, s in zip(row, sol):
            rhs = rhs + c * s
        # split terms across both sides
        lhs, extra = 0, 0
        for c, u in lhs_terms:
            if rng.random() < 0.3:
                extra = extra - c * u        # move to the right-hand side
            else:
                lhs = lhs + c * u
        if rng.random() < 0.4:
            k = rng.randint(-3, 3)
            lhs, rhs = lhs + k, rhs + k
        if rng.random() < 0.3:
            lhs, rhs = lhs + params[0], rhs + params[0]
        if rng.random() < 0.2 and lhs_terms:
            c, u = rng.choice(lhs_terms)
            lhs, extra = lhs + 2 * c * u, extra + 2 * c * u   # same unknown on both sides
        eqs.append((lhs, rhs + extra))
    rng.shuffle(eqs)
    expect = "solve"
    if kind == "dup":
        eqs.append(rng.choice(eqs))
    elif kind == "scaled-dup":
        a, b = rng.choice(eqs)
        eqs.append((2 * a, 2 * b))
    elif kind == "contradict":
        a, b = rng.choice(eqs)
        # ... in the constant, or ONLY in a parameter coefficient (x = n and x = 2*n)
        eqs.append((a, b + rng.choice([1, -2, params[1] + 1, params[0], 2 * params[1],
                                       params[0] - params[1]])))
        expect = "raise"
    elif kind == "dup-then-contradict":
        # SEVERAL redundant equations, a consistent one ahead of an inconsistent one
        a, b = rng.choice(eqs)
        eqs.append(rng.choice([(a, b), (2 * a, 2 * b), (0 * a, 0 * b) if False else (a + 1, b + 1)]))
        if rng.random() < 0.5:
            eqs.append(rng.choice(eqs[:-1]))
        c, d = rng.choice(eqs)
        eqs.append((c, d + rng.choice([1, -2, params[1] + 1, params[0], 2 * params[1]])))
        expect = "raise"
    elif kind == "under":
        if n >= 2:
            eqs.pop(rng.randrange(len(eqs)))
            expect = "raise"
    elif kind == "nonintegral":
        i = rng.randrange(len(eqs))
        a, b = eqs[i]
        k = rng.choice([2, 3])
        eqs[i] = (k * a, k * b + 1) if rng.random() < 0.5 else (k * a, b * k)
        # k*(a - b) = 1 is non-integral; k*a = k*b is the same equation (fine)
        expect = "either"
    elif kind == "missing":
        names = names + ["q"]   # unknown that occurs nowhere
        expect = "raise"
    return names, eqs, expect


@check("C15.solve")
def c_solve(ctx, case):
    names, eqs, expect = case
    ctx.case(None)
    ctx.count("solver_calls")
    ctx.count("expect:" + expect)
    try:
        res = solve_affine_equations_for(list(names), list(eqs))
    except RecursionError:
        raise
    except Exception as ex:  # noqa: BLE001
        ctx.count("solver_raised:" + type(ex).__name__)
        if expect == "solve":
            ctx.fail("C15.solve", case, f"refused:{type(ex).__name__}",
                     f"solve_affine_equations_for({names}, {_eqs(eqs)}) raised {type(ex).__name__}: "
                     f"{ex} although the system is uniquely and integrally solvable")
        return
    if expect == "raise":
        ctx.fail("C15.solve", case, "accepted-unsolvable",
                 f"solve_affine_equations_for({names}, {_eqs(eqs)}) returned {res} for a system "
                 f"that is under-determined / contradictory")
        return
    # returned: every equation must hold identically in the parameters
    if set(res) != {var(nm) for nm in names}:
        ctx.fail("C15.solve", case, "keys", f"result keys {sorted(map(str, res))} vs unknowns {names}")
        return
    from .c08 import refsub
    smap = list(res.items())
    for v in res.values():
        for nm in names:
            if nm in G.variables_of(v):
                ctx.fail("C15.solve", case, "value-mentions-unknown",
                         f"solution {res} mentions the unknown {nm}")
                return
    for lhs, rhs in eqs:
        diff = ratfun.from_expr(refsub(lhs, smap)) - ratfun.from_expr(refsub(rhs, smap))
        if not diff.is_zero():
            ctx.fail("C15.solve", case, "equation-violated",
                     f"solve_affine_equations_for({names}, {_eqs(eqs)}) returned {_cs(res)}; "
                     f"equation {lhs} = {rhs} becomes {diff} != 0")
            return
    ctx.count("solutions_verified")


def _eqs(eqs):
    return "[" + ", ".join(f"{a} = {b}" for a, b in eqs) + "]"


@check("C15.gauss")
def c_gauss(ctx, case):
    """gaussian_elimination preserves the solution set of integer systems (row space)."""
    m, rhs = case
    a = np.array(m, dtype=object)
    b = np.array(rhs, dtype=object)
    ctx.case(None)
    ctx.count("eliminations")
    try:
        a2, b2 = gaussian_elimination(a.copy(), b.copy())
    except Exception as ex:  # noqa: BLE001
        ctx.fail("C15.gauss", case, f"raised:{type(ex).__name__}", f"{m} | {rhs}: {ex}")
        return
    # every output row is a rational combination of input rows and vice versa: compare ranks of
    # the stacked augmented matrices over Fractions
    def aug(x, y):
        return [[F(v) for v in list(r) + list(s)] for r, s in zip(x, y)]
    r0, r1 = rank(aug(a, b)), rank(aug(a2, b2))
    r01 = rank(aug(a, b) + aug(a2, b2))
    if not (r0 == r1 == r01):
        ctx.fail("C15.gauss", case, "row-space-changed",
                 f"gaussian_elimination changed the solution set: {m} | {rhs} -> {a2.tolist()} | "
                 f"{b2.tolist()} (ranks {r0}, {r1}, stacked {r01})")


def rank(rows):
    rows = [list(r) for r in rows]
    rk, col, ncol = 0, 0, len(rows[0]) if rows else 0
    while rk < len(rows) and col < ncol:
        piv = next((i for i in range(rk, len(rows)) if rows[i][col] != 0), None)
        if piv is None:
            col += 1
            continue
        rows[rk], rows[piv] = rows[piv], rows[rk]
        for i in range(len(rows)):
            if i != rk and rows[i][col] != 0:
                f = rows[i][col] / rows[rk][col]
                rows[i] = [x - f * y for x, y in zip(rows[i], rows[rk])]
        rk += 1
        col += 1
    return rk

# }}}


def workload(ctx):
    rng = ctx.rng
    # configurations: no restriction, lists, and other collection types incl. EMPTY ones (no
    # targets at all: everything is a parameter, every expression is a constant term)
    name_sets = [None, ["x", "y"], ["x"], ["y", "u"], [], (), frozenset(), ("x",), {"y", "x"}]
    for i in range(ctx.per_shard(ctx.pick(4000, 80000))):
        subs = rng.random() < 0.25
        e = aff(rng, rng.randint(1, 3), subs)
        if not isinstance(e, p.Expression):
            continue
        ctx.case(normal.typed_key(e), normal.count_ops(e) >= 1, n=0)
        if i < 3:
            ctx.sample("affine", str(e))
        for names in name_sets:
            ctx.run("C15.collect", (e, names, True))
        e2 = nonaff(rng)
        ctx.case(normal.typed_key(e2), True, n=0)
        if i < 2:
            ctx.sample("non-affine", str(e2))
        for names in (["x", "y"], None, [], frozenset()):
            ctx.run("C15.collect", (e2, names, False))
    # the operators that LOOK like a division by a constant: floor division and remainder of
    # a target are not affine in it
    x_, y_, u_ = p.Variable("x"), p.Variable("y"), p.Variable("u")
    for R in (p.FloorDiv, p.Remainder):
        for inner in (R(p.Sum((x_, 1)), 2), R(x_, 3), R(y_, x_), R(p.Product((2, x_)), 2), R(7, x_),
                      R(p.Sum((x_, y_)), u_), R(R(x_, 4), 2)):
            for e2 in (inner, p.Sum((u_, inner)), p.Product((3, inner)), p.Sum((p.Product((2, y_)), inner, 1)),
                       p.Quotient(inner, 2), p.Product((u_, p.Sum((inner, y_))))):
                if ctx.mine("floor-rem"):
                    ctx.case(("floor-rem", normal.typed_key(e2)), True, n=0)
                    ctx.count("floor_division_and_remainder_of_targets")
                    for names in (["x", "y"], None, ["x"], ("x",)):
                        ctx.run("C15.collect", (e2, names, False))
    kinds = ["plain", "plain", "dup", "scaled-dup", "contradict", "dup-then-contradict", "under",
             "nonintegral", "missing"]
    for i in range(ctx.per_shard(ctx.pick(2500, 50000))):
        kind = rng.choice(kinds)
        names, eqs, expect = make_system(rng, kind)
        ctx.case(("sys", tuple(names), normal.typed_key(tuple(eqs))), len(eqs) >= 1, n=0)
        ctx.count("system:" + kind)
        if i < 3:
            ctx.sample("system:" + kind, f"unknowns {names}: {_eqs(eqs)}")
        ctx.run("C15.solve", (names, eqs, expect))
        n = rng.randint(1, 4)
        m = [[rng.randint(-3, 3) for _ in range(n)] for _ in range(rng.randint(1, 4))]
        rhs = [[rng.randint(-4, 4) for _ in range(2)] for _ in m]
        ctx.run("C15.gauss", (m, rhs))
    ctx.floor("collector_calls", 10000)
    ctx.floor("floor_division_and_remainder_of_targets", 60)
    ctx.floor("system:dup-then-contradict", 100)
    ctx.floor("collector_retargeted", 5000)
    ctx.floor("nonaffine_inputs", 2000)
    ctx.floor("solutions_verified", 500)
    ctx.floor("expect:raise", 300)
    ctx.floor("eliminations", 1000)


RULE = RULE + '  Later additions: floor division / remainder of targets must be refused; redundant systems whose contradiction lives in a parameter; equation orders.'
