"""C16 — pattern matching results are sound."""
from __future__ import annotations

import dataclasses
from collections import Counter

import pymbolic.primitives as p
from pymbolic.mapper.unifier import UnidirectionalUnifier
import pymbolic.mapper.unifier as unimod

from ..core import check, short
from ..gen import expr as G
from ..gen import scale
from ..mon.trace import HandlerTrace
from ..ref import normal, refsem
from .c08 import refsub

RULE = ("unifier: patterns over sums, products, quotients, powers, calls, subscripts, comparisons and "
        "conditionals with 1-3 declared pattern variables (also occurring twice, also several bare "
        "variables in one sum/product); targets generated (a) as instances under random "
        "substitutions with children shuffled, (b) as injective renamings of the pattern variables "
        "(completeness: >=1 record required), (c) independently; candidate sets given as str / list / "
        "set.  Every record: binds only declared names, each once, and the instantiated pattern is "
        "AC-equal to the target.  matchpy bridge: to/from round trip on all convertible node types; "
        "match / match_anywhere / replace_all with dot and star wildcards (in calls, subscripts and "
        "commutative operators, repeated operands) with recording replacement callbacks, every "
        "reported binding re-instantiated and compared.  distinct = typed key of (pattern, target); "
        "non-trivial = pattern has >=1 operator node.")
ASSUMPTIONS = [
    "a one-element tuple index and the bare index are the same subscript for the unifier (its "
    "map_subscript documents unpacking them); instantiations are compared after that unpacking",
    "arity <= 3 and few repeated constants bound the factorial search of the AC unifier",
    "replacement rules use a result that cannot be matched again, so replace_all performs one "
    "rewrite per occurrence and the law can be checked per callback invocation",
]
KF_FLATTEN = "C16-matchpy-bridge-flattens-nested-associative-operators"

PV = [p.Variable(n) for n in "pqr"]
TV = [p.Variable(n) for n in "xyzw"]

try:
    import pymbolic.interop.matchpy as M
    from pymbolic.interop.matchpy.tofrom import (
        FromMatchpyExpressionMapper, ToMatchpyExpressionMapper)
    HAVE_MATCHPY = True
except ImportError:      # pragma: no cover
    HAVE_MATCHPY = False


def gen(r, d, leaves, kinds=None):
    if d <= 0 or r.random() < 0.25:
        return r.choice([*leaves, 2, 3, 5, 7])
    k = r.choice(kinds or ["sum", "prod", "quot", "pow", "call", "sub", "cmp", "if", "sum", "prod"])
    g = lambda: gen(r, d - 1, leaves, kinds)  # noqa: E731
    if k == "sum":
        return p.Sum(tuple(g() for _ in range(r.randint(2, 3))))
    if k == "prod":
        return p.Product(tuple(g() for _ in range(r.randint(2, 3))))
    if k == "quot":
        return p.Quotient(g(), g())
    if k == "pow":
        return p.Power(g(), g())
    if k == "call":     # zero, one or two arguments (f() has the EMPTY parameter tuple)
        return p.Call(p.Variable("f"), tuple(g() for _ in range(r.choice([0, 1, 2, 2]))))
    if k == "sub":
        if r.random() < 0.15:
            return p.Subscript(p.Variable("a"), r.choice([(), (g(),)]))
        return p.Subscript(p.Variable("a"), g())
    if k == "cmp":
        return p.Comparison(g(), r.choice(["<", "=="]), g())
    if k == "fdiv":
        return p.FloorDiv(g(), g())
    if k == "lor":
        return p.LogicalOr(tuple(g() for _ in range(r.randint(2, 3))))
    if k == "band":
        return p.BitwiseAnd(tuple(g() for _ in range(r.randint(2, 3))))
    if k == "not":
        return p.LogicalNot(g())
    if k == "subt":
        return p.Subscript(p.Variable("a"), (g(), g()))
    return p.If(g(), g(), g())


def shuffle(r, e):
    if isinstance(e, (p.Sum, p.Product)):
        ch = [shuffle(r, c) for c in e.children]
        r.shuffle(ch)
        return type(e)(tuple(ch))
    if isinstance(e, tuple):
        return tuple(shuffle(r, c) for c in e)
    if not isinstance(e, p.Expression):
        return e
    return type(e)(*[(shuffle(r, getattr(e, f.name))
                      if isinstance(getattr(e, f.name), (p.Expression, tuple))
                      else getattr(e, f.name)) for f in dataclasses.fields(e)])


def near_miss(rng, e):
    sites = [x for x in G.walk(e) if isinstance(x, (p.Comparison, p.Quotient, p.Power, p.Call,
                                                    p.Subscript, p.If))]
    if not sites:
        return e
    site = rng.choice(sites)
    if isinstance(site, p.Comparison):
        new = p.Comparison(site.left, "==" if site.operator != "==" else "<", site.right)
    elif isinstance(site, p.Quotient):
        new = p.Quotient(site.denominator, site.numerator)
    elif isinstance(site, p.Power):
        new = p.Power(site.exponent, site.base)
    elif isinstance(site, p.Call):
        u = rng.random()
        if u < 0.35:
            new = p.Call(p.Variable("g"), site.parameters)
        elif u < 0.65:      # another NUMBER of arguments (also: none <-> some)
            new = p.Call(site.function, site.parameters[1:] if site.parameters and rng.random() < 0.5
                         else (*site.parameters, rng.choice(TV)))
        else:
            new = p.Call(site.function, tuple(reversed(site.parameters)))
    elif isinstance(site, p.Subscript):
        if isinstance(site.index, tuple) and rng.random() < 0.5:
            new = p.Subscript(site.aggregate, (*site.index, rng.choice(TV)))
        else:
            new = p.Subscript(p.Variable("b"), site.index)
    else:
        new = p.If(site.condition, site.else_, site.then)
    from .c08 import refsub as _rs  # noqa: F401
    out, _ = replace_exact(e, site, new)
    return out


def replace_exact(e, old, new):
    if e is old:
        return new, 1
    if isinstance(e, p.Expression):
        vals, n = [], 0
        for _, v in normal.node_fields(e):
            if isinstance(v, (p.Expression, tuple)) and n == 0:
                v2, k = replace_exact(v, old, new)
                n += k
                vals.append(v2)
            else:
                vals.append(v)
        return type(e)(*vals), n
    if isinstance(e, tuple):
        out, n = [], 0
        for c in e:
            if n == 0:
                c2, k = replace_exact(c, old, new)
                n += k
                out.append(c2)
            else:
                out.append(c)
        return tuple(out), n
    return e, 0


def _unwrap1(e):
    """a[(k,)] read as a[k]: the unifier documents that it unpacks one-element index tuples"""
    if isinstance(e, p.Subscript):
        idx = e.index
        while isinstance(idx, tuple) and len(idx) == 1:
            idx = idx[0]
        return p.Subscript(_unwrap1(e.aggregate), _unwrap1(idx))
    if isinstance(e, p.Expression) and normal.is_expr_dataclass(type(e)):
        return type(e)(*[_unwrap1(getattr(e, f.name)) for f in dataclasses.fields(e)])
    if isinstance(e, tuple):
        return tuple(_unwrap1(c) for c in e)
    return e


def symmetric_copies(pat):
    """product over the pattern's commutative nodes of prod(m!) for each operand occurring m
    times: the number of identical records the unifier returns per distinct one"""
    import math
    from collections import Counter as C
    n = 1
    for x in G.walk(pat):
        if isinstance(x, (p.Sum, p.Product)):
            for m in C(repr(normal.typed_key(c)) for c in x.children).values():
                n *= math.factorial(m)
    return n


@check("C16.unify")
def c_unify(ctx, case):
    pat, tgt, cands, mode = case
    declared = set(cands)
    if symmetric_copies(pat) > 4096:
        # every pair of identical operands in a pattern sum/product doubles the number of
        # (identical) records the unifier returns; the statement puts no bound on that, and
        # the cost says nothing about soundness.  Deterministic skip, counted.
        ctx.count("skipped_symmetric_record_blowup")
        return
    ctx.case(None)
    ctx.count("unifier_calls")
    ctx.count("mode:" + mode)
    try:
        # Logical work bound (counted record merges, not seconds): the unifier threads every
        # incoming record through every operand pair of a commutative node, so k records and
        # m operands give k**m identical results.  The statement is about what a record says,
        # not how many copies come back; such cases are skipped and counted.
        WORK[0] = WORK_BOUND
        try:
            recs = UnidirectionalUnifier(cands)(pat, tgt)
        finally:
            WORK[0] = None
    except RecursionError:
        raise
    except Exception as ex:  # noqa: BLE001
        ctx.fail("C16.unify", case, f"raised:{type(ex).__name__}",
                 f"UnidirectionalUnifier({cands!r})({pat}, {tgt}) raised {type(ex).__name__}: {ex}")
        return
    if mode == "rename" and not recs:
        ctx.fail("C16.unify", case, "no-record-for-renaming",
                 f"target {tgt} is pattern {pat} under an injective renaming of {sorted(declared)} "
                 f"(operands shuffled) but no unification record was returned")
    want = normal.ac_key(_unwrap1(tgt))
    judged = set()
    for rec in recs:
        ctx.count("records")
        try:
            rk = frozenset(rec.equations)
        except TypeError:
            rk = frozenset((normal.typed_key(a), normal.typed_key(b)) for a, b in rec.equations)
        if rk in judged:
            ctx.count("records_identical_to_an_earlier_one")
            continue
        judged.add(rk)
        binds = {}
        for lhs, rhs in rec.equations:
            if not (isinstance(lhs, p.Variable) and lhs.name in declared):
                ctx.fail("C16.unify", case, "binds-undeclared",
                         f"record {rec} for pattern {pat} / target {tgt} binds {lhs}, which is not a "
                         f"declared pattern variable of {sorted(declared)}")
                break
            # "one value": the SAME value (==), not two spellings that agree up to operand order
            if lhs.name in binds and not (binds[lhs.name] == rhs):
                ctx.fail("C16.unify", case, "binds-twice",
                         f"record {rec} binds {lhs.name} to both {binds[lhs.name]} and {rhs}")
                break
            binds[lhs.name] = rhs
        else:
            inst = refsub(pat, list(binds.items()))
            if normal.ac_key(_unwrap1(inst)) != want:
                ctx.fail("C16.unify", case, f"unsound:{mode}",
                         f"pattern {pat} with record {rec} instantiates to {inst}, which is not the "
                         f"target {tgt} (up to reordering/regrouping of sums and products)")
    # the list of records is the caller's: it is extended in place here (as a caller collecting
    # the records of several calls does) -- no later call, on any unifier, may see that
    if isinstance(recs, list):
        from pymbolic.mapper.unifier import UnificationRecord
        recs.append(UnificationRecord([(p.Variable("zz_appended_by_the_caller"), p.Variable("zz"))]))
        ctx.count("result_lists_extended_by_the_caller")


# {{{ matchpy bridge

AC_BRIDGE = (p.Sum, p.Product, p.LogicalOr, p.LogicalAnd, p.BitwiseOr, p.BitwiseAnd, p.BitwiseXor)


def bridge_key(e, flatten=False):
    """key modulo operand order of commutative operators and tuple-valued subscript indices"""
    if isinstance(e, AC_BRIDGE):
        kids = []
        for c in e.children:
            if flatten and type(c) is type(e):
                inner = bridge_key(c, flatten)
                kids.extend(inner[1])
            else:
                kids.append(bridge_key(c, flatten))
        return (type(e).__name__, tuple(sorted(kids, key=repr)))
    if isinstance(e, p.Subscript):
        idx = e.index if isinstance(e.index, tuple) else (e.index,)
        return ("Subscript", bridge_key(e.aggregate, flatten),
                tuple(bridge_key(i, flatten) for i in idx))
    if isinstance(e, tuple):
        return ("tuple", tuple(bridge_key(c, flatten) for c in e))
    if isinstance(e, p.Expression):
        return (type(e).__name__,
                tuple((n, bridge_key(v, flatten)) for n, v in normal.node_fields(e)))
    return normal.typed_key(e)


def has_nested_assoc(e):
    return any(isinstance(x, AC_BRIDGE) and any(type(c) is type(x) for c in x.children)
               for x in G.walk(e))


def instantiate(pat, binding):
    """Replace wildcards of *pat* by their bindings (tuple / multiset spliced into the parent)."""
    def splice(children):
        out = []
        for c in children:
            if isinstance(c, p.StarWildcard):
                v = binding[c.name]
                if hasattr(v, "items") and not isinstance(v, p.Expression):
                    for k, n in v.items():
                        out.extend([k] * n)
                else:
                    out.extend(v)
            else:
                out.append(instantiate(c, binding))
        return tuple(out)
    if isinstance(pat, p.DotWildcard):
        return binding[pat.name]
    if isinstance(pat, AC_BRIDGE) or isinstance(pat, (p.Min, p.Max)):
        return type(pat)(splice(pat.children))
    if isinstance(pat, p.Call):
        return p.Call(instantiate(pat.function, binding), splice(pat.parameters))
    if isinstance(pat, p.Subscript):
        idx = pat.index if isinstance(pat.index, tuple) else (pat.index,)
        return p.Subscript(instantiate(pat.aggregate, binding), splice(idx))
    if isinstance(pat, tuple):
        return splice(pat)
    if isinstance(pat, p.Expression):
        return type(pat)(*[(instantiate(v, binding) if isinstance(v, (p.Expression, tuple)) else v)
                           for _, v in normal.node_fields(pat)])
    return pat


@check("C16.roundtrip")
def c_roundtrip(ctx, case):
    (e,) = case
    ctx.case(None)
    ctx.count("roundtrips")
    try:
        back = FromMatchpyExpressionMapper()(ToMatchpyExpressionMapper()(e))
    except RecursionError:
        raise
    except Exception as ex:  # noqa: BLE001
        ctx.fail("C16.roundtrip", case, f"raised:{type(ex).__name__}",
                 f"to/from matchpy of {G.src(e)} raised {type(ex).__name__}: {ex}")
        return
    if bridge_key(back) != bridge_key(e):
        finding = None
        if has_nested_assoc(e) and bridge_key(back, True) == bridge_key(e, True):
            finding = KF_FLATTEN
        ctx.fail("C16.roundtrip", case, f"lossy:{type(e).__name__}",
                 f"{G.src(e)} came back from matchpy as {G.src(back)}", finding=finding)


@check("C16.match")
def c_match(ctx, case):
    subject, pattern, anywhere = case
    ctx.case(None)
    ctx.count("match_anywhere_calls" if anywhere else "match_calls")
    try:
        if anywhere:
            results = list(M.match_anywhere(subject, pattern))
        else:
            results = [(b, subject) for b in M.match(subject, pattern)]
    except RecursionError:
        raise
    except Exception as ex:  # noqa: BLE001
        ctx.fail("C16.match", case, f"raised:{type(ex).__name__}",
                 f"{'match_anywhere' if anywhere else 'match'}({G.src(subject)}, {G.src(pattern)}) "
                 f"raised {type(ex).__name__}: {ex}")
        return
    subs = {repr(bridge_key(x, True)) for x in G.walk(subject) if isinstance(x, p.Expression)}
    for binding, where in results:
        ctx.count("matches_reported")
        try:
            inst = instantiate(pattern, binding)
        except KeyError as ex:
            ctx.fail("C16.match", case, "binding-missing", f"no binding for wildcard {ex} in {binding}")
            continue
        if bridge_key(inst, True) != bridge_key(where, True):
            ctx.fail("C16.match", case, "instantiation-law",
                     f"pattern {G.src(pattern)} with reported binding {binding} instantiates to "
                     f"{G.src(inst)}, but the reported match is {G.src(where)} (subject "
                     f"{G.src(subject)})")
        elif repr(bridge_key(where, True)) not in subs:
            ctx.fail("C16.match", case, "match-not-a-subterm",
                     f"reported match {G.src(where)} is not a subterm of {G.src(subject)}")
    return results


def replace_in(e, old_key, new, budget=None):
    """replace occurrences of the subterm with key old_key; budget=[k]: at most k of them"""
    if budget is not None and budget[0] <= 0:
        return e, 0
    if isinstance(e, p.Expression) and bridge_key(e, True) == old_key:
        if budget is not None:
            budget[0] -= 1
        return new, 1
    if isinstance(e, p.Expression):
        vals, n = [], 0
        for _, v in normal.node_fields(e):
            if isinstance(v, (p.Expression, tuple)):
                v2, k = replace_in(v, old_key, new, budget)
                n += k
                vals.append(v2)
            else:
                vals.append(v)
        return type(e)(*vals), n
    if isinstance(e, tuple):
        out, n = [], 0
        for c in e:
            c2, k = replace_in(c, old_key, new, budget)
            out.append(c2)
            n += k
        return tuple(out), n
    return e, 0


def replace_nth(e, old_key, new, state):
    """replace exactly the occurrence number state[0] (pre-order, not descending into a match)"""
    if isinstance(e, p.Expression) and bridge_key(e, True) == old_key:
        state[0] -= 1
        if state[0] == -1:
            return new, 1
        # an occurrence nested inside this one is a different position: keep looking
    if isinstance(e, p.Expression):
        vals, n = [], 0
        for _, v in normal.node_fields(e):
            if isinstance(v, (p.Expression, tuple)) and n == 0:
                v2, k = replace_nth(v, old_key, new, state)
                n += k
                vals.append(v2)
            else:
                vals.append(v)
        return (type(e)(*vals) if n else e), n
    if isinstance(e, tuple):
        out, n = [], 0
        for c in e:
            if n == 0:
                c2, k = replace_nth(c, old_key, new, state)
                n += k
            else:
                c2 = c
            out.append(c2)
        return (tuple(out) if n else e), n
    return e, 0


def replay_rewrites(cur, steps, target_key, budget):
    """Is there a choice of positions (the reports do not say which equal occurrence was
    rewritten) such that applying the reported rewrites in order yields the result?
    budget: [n] bounds the number of rewrites tried."""
    if not steps:
        return bridge_key(cur, True) == target_key
    key, new = steps[0]
    i = 0
    while budget[0] > 0:
        cur2, n = replace_nth(cur, key, new, [i])
        if n == 0:
            break
        budget[0] -= 1
        if replay_rewrites(cur2, steps[1:], target_key, budget):
            return True
        i += 1
    return False


@check("C16.replace")
def c_replace(ctx, case):
    subject, pattern = case
    calls = []
    g = p.Variable("g_repl")

    def cb(**kw):
        calls.append(dict(kw))
        flat = []
        for k in sorted(kw):
            v = kw[k]
            if hasattr(v, "items") and not isinstance(v, p.Expression):
                for kk, n in sorted(v.items(), key=repr):
                    flat.extend([kk] * n)
            elif isinstance(v, tuple):
                flat.extend(v)
            else:
                flat.append(v)
        return g(*flat)
    ctx.case(None)
    ctx.count("replace_all_calls")
    try:
        rule = M.make_replacement_rule(pattern, cb)
        result = M.replace_all(subject, [rule])
    except RecursionError:
        raise
    except Exception as ex:  # noqa: BLE001
        ctx.fail("C16.replace", case, f"raised:{type(ex).__name__}",
                 f"replace_all({G.src(subject)}, rule {G.src(pattern)}) raised {type(ex).__name__}: {ex}")
        return
    if not calls:
        if bridge_key(result, True) != bridge_key(subject, True):
            ctx.fail("C16.replace", case, "changed-without-match",
                     f"no replacement callback ran but {G.src(subject)} became {G.src(result)}")
        return
    ctx.count("replacements_observed", len(calls))
    # one rewrite at a time: replay them with the instantiation law.  A report names the
    # bindings, not the position: every choice among equal occurrences is tried.
    steps = []
    for kw in calls:
        try:
            inst = instantiate(pattern, kw)
        except KeyError as ex:
            ctx.fail("C16.replace", case, "binding-missing", f"callback got {kw}, missing {ex}")
            return
        steps.append((bridge_key(inst, True), cb_result(kw, g), inst, kw))
    budget = [400]
    if replay_rewrites(subject, [(k, n) for k, n, _, _ in steps], bridge_key(result, True), budget):
        return
    if budget[0] <= 0:
        ctx.count("replay_search_budget_exhausted")
        return
    if replace_nth(subject, steps[0][0], steps[0][1], [0])[1] == 0:
        _, _, inst, kw = steps[0]
        ctx.fail("C16.replace", case, "instantiation-law",
                 f"rule {G.src(pattern)}: callback received {kw}; the pattern instantiated with "
                 f"these bindings is {G.src(inst)}, which does not occur in {G.src(subject)}")
        return
    ctx.fail("C16.replace", case, "result",
             f"replace_all({G.src(subject)}) = {G.src(result)}; no choice of positions for the "
             f"{len(calls)} reported rewrites {[G.src(i) for _, _, i, _ in steps]} reproduces it")


def cb_result(kw, g):
    flat = []
    for k in sorted(kw):
        v = kw[k]
        if hasattr(v, "items") and not isinstance(v, p.Expression):
            for kk, n in sorted(v.items(), key=repr):
                flat.extend([kk] * n)
        elif isinstance(v, tuple):
            flat.extend(v)
        else:
            flat.append(v)
    return g(*flat)


def make_pattern_from(rng, sub):
    """Turn a subterm into a pattern by replacing parts with dot/star wildcards."""
    n = [0]

    def dot():
        n[0] += 1
        return p.DotWildcard(f"w{n[0]}_")

    def star():
        n[0] += 1
        return p.StarWildcard(f"s{n[0]}_")

    def rec(e, top=False):
        if not top and rng.random() < 0.3:
            return dot()
        if isinstance(e, AC_BRIDGE):
            ch = list(e.children)
            keep = [rec(c) for c in ch[:rng.randint(1, len(ch))]]
            if len(keep) < len(ch) or rng.random() < 0.3:
                keep.append(star())
            return type(e)(tuple(keep))
        if isinstance(e, p.Call):
            ps = list(e.parameters)
            k = rng.randint(0, len(ps))
            new = [rec(c) for c in ps[:k]]
            if k < len(ps) or rng.random() < 0.3:
                new.append(star())
            return p.Call(e.function, tuple(new))
        if isinstance(e, p.Subscript):
            idx = e.index if isinstance(e.index, tuple) else (e.index,)
            return p.Subscript(e.aggregate, tuple(rec(c) for c in idx))
        if isinstance(e, p.Expression) and not isinstance(e, p.Variable):
            return type(e)(*[(rec(v) if isinstance(v, p.Expression) else v)
                             for _, v in normal.node_fields(e)])
        return e
    return rec(sub, True)

# }}}


MKINDS = ["sum", "prod", "quot", "pow", "call", "sub", "subt", "cmp", "if", "fdiv", "lor", "band", "not"]


WORK = [None]      # remaining UnificationRecord.unify calls for the current unifier call
WORK_BOUND = 120_000


def _work_cb(qualname, frame):
    if WORK[0] is not None and qualname == "UnificationRecord.unify":
        WORK[0] -= 1
        if WORK[0] < 0:
            WORK[0] = None
            raise refsem.TooCostly()


def replace_one_occurrence(rng, e):
    """the pattern with ONE occurrence of a pattern variable replaced; every sub-tree off that
    path stays the IDENTICAL object (a target built from the pattern's own pieces)"""
    paths = []

    def scan(x, path):
        if isinstance(x, p.Variable) and x.name in "pqr":
            paths.append(path)
        elif isinstance(x, p.Expression) and normal.is_expr_dataclass(type(x)):
            for f in dataclasses.fields(x):
                scan(getattr(x, f.name), path + (f.name,))
        elif isinstance(x, tuple):
            for i, c in enumerate(x):
                scan(c, path + (i,))
    scan(e, ())
    if not paths:
        return e
    target_path = rng.choice(paths)
    new = rng.choice([rng.choice(TV), p.Variable(rng.choice("pqr")), p.Sum((rng.choice(TV), 1))])

    def rebuild(x, path):
        if not path:
            return new
        if isinstance(x, tuple):
            return tuple(rebuild(c, path[1:]) if i == path[0] else c for i, c in enumerate(x))
        return type(x)(*[rebuild(getattr(x, f.name), path[1:]) if f.name == path[0]
                         else getattr(x, f.name) for f in dataclasses.fields(x)])
    return rebuild(e, target_path)


def per_occurrence(rng, e):
    if isinstance(e, p.Variable) and e.name in "pqr":
        # (values that are FALSE in a boolean context included: a variable bound to 0 is bound)
        # ... and numbers that differ only beyond a double's precision: 2**53 + 1 is not 2.0**53
        if rng.random() < 0.12:
            return rng.choice([2**53 + 1, 2.0**53, 2**53 + 1, 2.0**53, 10**17 + 1, 1e17])
        return rng.choice([e, e, p.Variable(rng.choice("pqr")), rng.choice(TV), 0, 0, 5,
                           p.Product((0, rng.choice(TV))), p.Quotient(0, rng.choice(TV))])
    if isinstance(e, p.Expression) and normal.is_expr_dataclass(type(e)):
        import dataclasses
        return type(e)(*[per_occurrence(rng, getattr(e, f.name)) for f in dataclasses.fields(e)])
    if isinstance(e, tuple):
        return tuple(per_occurrence(rng, c) for c in e)
    return e


def workload(ctx):
    rng = ctx.rng
    with HandlerTrace([unimod], callback=_work_cb) as tr:
        # first of all, calls that FAIL (an operand that cannot be hashed, among 3 .. 6 operands,
        # facing two or three plain pattern variables) -- the caller catches the error; everything
        # below runs in a process with that history
        fv = p.Variable("f")
        for cls in (p.Sum, p.Product):
            for n in (3, 4, 5, 6):
                for k in (2, 3):
                    tgt = cls((*TV[:2], *[p.Variable(f"u{i}") for i in range(n - 3)], p.Call(fv, ([1, 2],))))
                    pat = cls(tuple(PV[:k]))
                    for pt in (pat, cls((*PV[:k], p.Call(fv, (PV[0],))))):
                        try:
                            UnidirectionalUnifier("pqr")(pt, tgt)
                        except RecursionError:
                            raise
                        except Exception:  # noqa: BLE001
                            ctx.count("failed_unifications_first")
        # ... then renamings in which the plain variables must share out the left-over operands
        # in every possible way
        a_, b_, c_ = (p.Variable(n_) for n_ in ("u1", "u2", "u3"))
        for cls in (p.Sum, p.Product):
            other = p.Product if cls is p.Sum else p.Sum
            for pat, tgt in ((cls((PV[0], PV[1], PV[2], p.Call(fv, (PV[1],)))), cls((a_, b_, c_, p.Call(fv, (a_,))))),
                             (cls((PV[0], PV[1], PV[2], p.Call(fv, (PV[2],)))), cls((a_, b_, c_, p.Call(fv, (a_,))))),
                             (cls((PV[0], PV[1], p.Call(fv, (PV[1],)))), cls((a_, b_, p.Call(fv, (a_,))))),
                             (cls((PV[0], PV[1], other((PV[1], 2)))), cls((b_, a_, other((a_, 2))))),
                             (cls((PV[0], PV[1], PV[2], other((PV[0], PV[2])))), cls((c_, b_, a_, other((b_, a_)))))):
                ctx.case(("after-failure", normal.typed_key(pat)), True, n=0)
                ctx.count("renamings_after_failed_calls")
                ctx.run("C16.unify", (pat, tgt, "pqr", "rename"))
        for i in range(ctx.per_shard(ctx.pick(2500, 50000))):
            pat = gen(rng, rng.randint(1, 3), PV + TV[:1])
            if not isinstance(pat, p.Expression):
                continue
            mode = rng.choice(["inst", "rename", "rename", "indep", "nearmiss", "inconsistent", "shared"])
            cands = rng.choice(["pqr", ["p", "q", "r"], {"p", "q", "r"}])
            # one case in three: the target's own variables may be NAMED like pattern variables
            # (a candidate p facing a target variable p is a binding p = p like any other)
            clash = i % 3 == 0
            TVx = TV + PV[:2] if clash else TV
            if clash:
                ctx.count("targets_reusing_candidate_names")
            if mode == "inst":
                sub = [(v.name, gen(rng, 2, TVx) if rng.random() < 0.8 else
                        rng.choice([0, 0, p.Product((0, TV[0])), p.Quotient(0, TV[1])]))
                       for v in PV]
                tgt = shuffle(rng, refsub(pat, sub))
            elif mode == "rename":
                names = rng.sample(["u1", "u2", "u3", "x", "y"] + (["p", "q", "r"] if clash else []), 3)
                sub = [(v.name, p.Variable(nm)) for v, nm in zip(PV, names)]
                tgt = shuffle(rng, refsub(pat, sub))
            elif mode == "shared":
                # NOT shuffled: operands of the target ARE operands of the pattern (same objects)
                tgt = replace_one_occurrence(rng, pat)
            elif mode == "inconsistent":
                # every OCCURRENCE of a pattern variable replaced on its own: by the variable of
                # the same name, by another pattern variable's name, or by a target variable --
                # so one pattern variable mostly faces different things (no record may bind it)
                tgt = shuffle(rng, per_occurrence(rng, pat))
            elif mode == "nearmiss":
                # an instance with ONE non-variable detail changed (comparison operator,
                # constant, operand order of a non-commutative node): any record returned
                # must still instantiate to the target, i.e. normally there is none
                sub = [(v.name, gen(rng, 1, TVx)) for v in PV]
                tgt = near_miss(rng, shuffle(rng, refsub(pat, sub)))
            else:
                tgt = gen(rng, 3, TVx)
            if not isinstance(tgt, p.Expression):
                continue
            ctx.case((normal.typed_key(pat), normal.typed_key(tgt)), normal.count_ops(pat) >= 1, n=0)
            ctx.node(type(pat).__name__)
            if i < 3:
                ctx.sample("unify-" + mode, f"pattern {pat}  target {tgt}")
            ctx.run("C16.unify", (pat, tgt, cands, mode))
        # one pattern variable facing two numbers that are EQUAL or NEARLY equal across kinds:
        # 2**53 + 1 and 2.0**53 differ (no record may merge them), 2 and 2.0 are equal
        P = PV[0]
        twos = [(2**53 + 1, 2.0**53), (2.0**53, 2**53 + 1), (10**17 + 1, 1e17), (2**53, 2.0**53),
                (2, 2.0), (2**64 + 1, 2.0**64)]     # (1 == True, 3 == 3+0j: Python-equal, mergeable)
        pats = [lambda a, b: (p.Call(p.Variable("f"), (P, P)), p.Call(p.Variable("f"), (a, b))),
                lambda a, b: (p.Sum((p.Call(p.Variable("g"), (P,)), p.Product((3, P)))),
                              p.Sum((p.Call(p.Variable("g"), (a,)), p.Product((3, b))))),
                lambda a, b: (p.Quotient(P, p.Power(TV[0], P)), p.Quotient(a, p.Power(TV[0], b))),
                lambda a, b: (p.Subscript(p.Variable("a"), (P, PV[1], P)),
                              p.Subscript(p.Variable("a"), (a, TV[1], b)))]
        for (a, b) in twos:
            for mk in pats:
                if ctx.mine("near-equal"):
                    pat, tgt = mk(a, b)
                    ctx.case((normal.typed_key(pat), normal.typed_key(tgt)), True, n=0)
                    ctx.count("near_equal_number_pairs")
                    ctx.run("C16.unify", (pat, tgt, "pqr", "inconsistent"))
        # scale: sums / products of 9 .. 66 operands -- a few operands that mention pattern
        # variables among many that do not (those occur verbatim in the target)
        for w in scale.SMALL_WIDTHS + [40, 66]:
            for cls in (p.Sum, p.Product):
                for mode in ("inst", "inconsistent", "rename"):
                    if not ctx.mine("wide"):
                        continue
                    P, Q, R = PV
                    hot = [p.Call(p.Variable("f"), (P,)), p.Product((2, P)) if cls is p.Sum
                           else p.Sum((2, P)), p.Power(Q, 2), p.Subscript(p.Variable("a"), R),
                           p.Call(p.Variable("g"), (P, Q))][:rng.randint(2, 5)]
                    cold = [rng.choice([p.Call(p.Variable("h"), (i,)), p.Subscript(p.Variable("b"), i),
                                        p.Power(TV[i % len(TV)], i + 2)]) for i in range(w - len(hot))]
                    ops = hot + cold
                    rng.shuffle(ops)
                    pat = cls(tuple(ops))
                    if mode == "inst":
                        sub = [(v.name, gen(rng, 1, TV)) for v in PV]
                        tgt = shuffle(rng, refsub(pat, sub))
                    elif mode == "rename":
                        sub = [(v.name, p.Variable(nm)) for v, nm in zip(PV, rng.sample(["u1", "u2", "u3", "x"], 3))]
                        tgt = shuffle(rng, refsub(pat, sub))
                    else:
                        tgt = shuffle(rng, per_occurrence(rng, pat))
                    if not isinstance(tgt, type(pat)):
                        continue
                    ctx.case((normal.typed_key(pat), normal.typed_key(tgt)), True, n=0)
                    ctx.count("wide_patterns")
                    ctx.run("C16.unify", (pat, tgt, "pqr", mode))
        # depth: sums in products in sums ... (3 .. 6 levels on one path), a plain pattern variable
        # at EVERY level that has to take the operands left over there (two or three of them)
        kc = [p.Variable(f"k{i}") for i in range(8)]
        tvs = [p.Variable(f"t{i}") for i in range(24)]
        for depth in (2, 3, 4, 5, 6):
            for outer in (p.Sum, p.Product):
                for nleft in (1, 2, 3):
                    if not ctx.mine("deep-patterns"):
                        continue
                    pat = tgt = kc[7]
                    it = iter(tvs)
                    for lvl in range(depth):
                        cls = outer if (depth - lvl) % 2 else (p.Product if outer is p.Sum else p.Sum)
                        pv = PV[lvl % 3] if lvl >= depth - 3 else kc[lvl % 7]
                        left = tuple(next(it) for _ in range(nleft)) if pv in PV else (pv,)
                        pat = cls((pv, pat, kc[lvl % 7]))
                        tgt = cls((*left, tgt, kc[lvl % 7]))
                    ctx.case(("deep-pattern", depth, outer.__name__, nleft), True, n=0)
                    ctx.count("deep_patterns")
                    ctx.run("C16.unify", (pat, tgt, "pqr", "inst"))
                    ctx.run("C16.unify", (pat, shuffle(ctx.sub_rng("deep-shuffle", depth, nleft), tgt), "pqr", "inst"))
        for k, v in tr.handlers().items():
            ctx.count("handler:" + k, v)
    if HAVE_MATCHPY:
        # equal numbers of different kinds in ONE expression (2 and 2.0, 1 and True): each comes
        # back as what it was
        import numpy as np
        x_, y_, f_ = p.Variable("x"), p.Variable("y"), p.Variable("f")
        for i, (a, b) in enumerate([(2, 2.0), (2.0, 2), (1, True), (True, 1), (1, 1.0), (0, False), (0.0, 0),
                                    (3, np.int64(3)), (np.float64(2.0), 2.0), (2, 2 + 0j), (-1, -1.0)]):
            for j, e in enumerate([p.Sum((p.Product((x_, a)), p.Power(y_, b))), p.Call(f_, (a, b)),
                                   p.Quotient(a, p.Sum((x_, b))), p.Sum((p.Power(x_, a), p.Power(y_, a), p.Power(x_, b))),
                                   p.Subscript(x_, (a, b)), p.If(p.Comparison(x_, "<", a), b, a),
                                   p.Product((p.Sum((x_, b)), p.Sum((y_, a))))]):
                if ctx.mine("twins-roundtrip"):
                    ctx.case(("rt-twins", i, j), True, n=0)
                    ctx.count("number_twin_roundtrips")
                    ctx.run("C16.roundtrip", (e,))
        for i in range(ctx.per_shard(ctx.pick(1500, 30000))):
            e = gen(rng, rng.randint(1, 3), TV + [p.Variable("a")], MKINDS)
            if not isinstance(e, p.Expression):
                continue
            ctx.case(("rt", normal.typed_key(e)), True, n=0)
            ctx.run("C16.roundtrip", (e,))
            if has_nested_assoc(e):
                continue        # the bridge flattens these (known finding); matching laws below
            subs = [x for x in G.walk(e) if isinstance(x, p.Expression)
                    and not isinstance(x, p.Variable)]
            if not subs:
                continue
            sub = rng.choice(subs)
            if rng.random() < 0.3 and isinstance(sub, (p.Sum, p.Product)):     # repeated operands
                sub2 = type(sub)((*sub.children, sub.children[0]))
                e, _ = replace_in(e, bridge_key(sub, True), sub2)
                sub = sub2
            pat = make_pattern_from(rng, sub)
            ctx.case(("match", normal.typed_key(e), normal.typed_key(pat)), True, n=0)
            if i < 3:
                ctx.sample("matchpy", f"subject {G.src(e)} pattern {G.src(pat)}")
            ctx.run("C16.match", (sub, pat, False))
            ctx.run("C16.match", (e, pat, True))
            if isinstance(pat, AC_BRIDGE) and all(isinstance(c, (p.DotWildcard, p.StarWildcard))
                                                  for c in pat.children):
                # in an associative node of wildcards only, a dot wildcard may take the WHOLE
                # operand sequence (w1_ := a + b, star empty): the rule g(w1_, ...) <- it finds
                # its own left-hand side again inside its result and rewrites for ever -- the
                # rule does not terminate, whatever replace_all does (123 callbacks, then
                # RecursionError inside matchpy)
                ctx.count("nonterminating_rules_not_applied")
                continue
            ctx.run("C16.replace", (e, pat))
        ctx.floor("roundtrips", 1000)
        ctx.floor("number_twin_roundtrips", 70)
        ctx.floor("matches_reported", 1000)
        ctx.floor("replacements_observed", 300)
    else:
        ctx.inconclusive.append("matchpy not importable")
    ctx.floor("unifier_calls", 1500)
    ctx.floor("result_lists_extended_by_the_caller", 1500)
    ctx.floor("wide_patterns", 40)
    ctx.floor("deep_patterns", 25)
    ctx.floor("failed_unifications_first", 20)
    ctx.floor("renamings_after_failed_calls", 10)
    ctx.floor("near_equal_number_pairs", 20)
    ctx.floor("records", 1000)
    ctx.floor("mode:rename", 500)
    ctx.floor("handler:UnidirectionalUnifier.map_commut_assoc", 500)


RULE = RULE + '  Later additions: failing calls first in every worker process; alternating sum / product patterns 2-6 levels deep with left-over operands at each level; equal numbers of two kinds through the bridge.'
