"""C17 — pickles and persistent keys are stable across processes."""
from __future__ import annotations

import json
import os
import random
import shutil
import subprocess
import sys
import tempfile

import numpy as np
from immutabledict import immutabledict

import pymbolic.primitives as p

from .. import VERIF_DIR, REPO
from .. import usertypes as U
from ..core import check, short
from ..gen import expr as G
from ..ref import normal
from . import c01

RULE = ("~300 recipes (constructor source) per run over all node types, decorated user node types, "
        "legacy subclasses and compiled expressions; producer and consumer are separate interpreter "
        "processes over PYTHONHASHSEED in {0, 1, 4242, random} x {default, -O} (quick: 12 pairs "
        "covering every configuration on both sides; thorough: all 64 pairs) x pickle protocols 0-5 x "
        "{hash computed before pickling, not}.  The consumer builds each recipe locally and compares "
        "(==, !=, hash, dict/set lookup both ways, typed fields, persistent digests via "
        "pytools KeyBuilder and PersistentHashWalkMapper against its own and the producer's); every "
        "process writes a JSONL event log that the parent joins.  distinct = (recipe, producer "
        "config, consumer config, protocol, hash-first); non-trivial = recipe has >=1 operator node "
        "or is a user/legacy/compiled object.")
ASSUMPTIONS = [
    "'equal expressions' for the persistent key means two constructions of the same recipe (1 and "
    "1.0 are == but have different reprs and legitimately different digests)",
    "each process pair is bounded by a wall-clock watchdog; its firing makes the run inconclusive",
]
SHARDS = {"quick": 6, "thorough": 16}
TIMEOUT = {"quick": 900, "thorough": 7200}

CONFIGS = [(s, o) for s in ("0", "1", "4242", "random") for o in (False, True)]


def make_recipes(seed, n_random):
    rng = random.Random(f"c17-recipes-{seed}")
    g = G.AnyGen(rng, names="xyzab")
    objs = [o for o in c01.class_examples(rng, g) if isinstance(o, p.Expression)]
    objs += [g.gen(rng.randint(1, 5)) for _ in range(n_random)]
    recipes = []
    for i, o in enumerate(objs):
        if not isinstance(o, p.Expression):
            continue
        try:
            src = G.src(o)
            from .c17_worker import NS
            back = eval(src, NS)
            if normal.typed_key(back) != normal.typed_key(o):
                continue
        except Exception:  # noqa: BLE001
            continue
        recipes.append({"id": f"r{i}", "kind": "expr", "src": src,
                        "nontrivial": normal.count_ops(o) >= 1
                        or type(o).__module__ != "pymbolic.primitives"})
    # scale: nodes of 33 .. 1500 operands (and an ancestor of one), built from a comprehension
    for j, w in enumerate([33, 1001, 1025]):
        inner = f"tuple(p.Variable('v%d' % i) for i in range({w}))"
        for k, src in enumerate([f"p.Sum({inner})", f"p.Product((p.Sum({inner}), 2))",
                                 f"p.Call(p.Variable('f'), {inner})"]):
            recipes.append({"id": f"w{j}_{k}", "kind": "expr", "src": src, "nontrivial": True})
    # free variables whose names differ only in case, some listed and some not: the callable
    # takes the listed ones first and the others in NAME order ('A' < 'X' < 'a' < 'b' < 'x'),
    # in every process
    cased = "p.Sum((p.Product((1000, p.Variable('x'))), p.Product((100, p.Variable('A'))), " \
            "p.Product((10, p.Variable('a'))), p.Variable('b'), p.Product((7, p.Variable('X')))))"
    for j, listed in enumerate([["x"], [], ["b", "A"], ["a"]]):
        allv = listed + sorted(n for n in ["x", "A", "a", "b", "X"] if n not in listed)
        recipes.append({"id": f"k{j}", "kind": "compiled", "src": cased, "vars": listed,
                        "varkind": "list", "allvars": allv, "nontrivial": True})
    tg = G.TypedGen(rng, int_kinds=["sum", "prod", "fdiv", "rem", "pow", "if", "min", "max", "neg"],
                    bool_kinds=["cmp", "not", "or", "and"])
    for j in range(40):
        tg.pool = {"int": [], "num": [], "bool": []}
        e = tg.int(rng.randint(2, 4))
        if not isinstance(e, p.Expression) or any(
                isinstance(x, (p.Sum, p.Product, p.Min, p.Max)) and len(x.children) < 2
                for x in G.walk(e)):
            continue        # degenerate in Python source (C13's business, not C17's)
        e = _strip_bigs(e)
        if j % 2 == 0 and {"x", "y"} <= G.variables_of(e):
            # free variables whose names differ only in case (x, X): their relative order must
            # not depend on anything process-specific either
            from .c17_worker import NS
            e = eval(G.src(e).replace("Variable('y')", "Variable('X')"), NS)
        names = sorted(G.variables_of(e))
        listed = [n for n in names if rng.random() < 0.5 and not ("X" in names and n in "xX")]
        rng.shuffle(listed)
        allvars = listed + [n for n in names if n not in listed]
        # the listed variables come in any collection a caller may reasonably hand over
        varkind = rng.choice(["list", "list", "tuple", "dictkeys", "generator", "iter", "set", "frozenset"])
        recipes.append({"id": f"c{j}", "kind": "compiled", "src": G.src(e), "vars": listed,
                        "varkind": varkind, "allvars": allvars, "nontrivial": True})
    # depth: towers of one family, 100 .. 450 levels (from some depth on the key computation
    # refuses: then it refuses in every process alike)
    for fam in ("sum-in-product", "cse", "call", "subscript-aggregate", "neg"):
        for depth in (100, 250, 400, 450):
            recipes.append({"id": f"d_{fam}_{depth}", "kind": "deepexpr", "src": f"tower({fam!r}, {depth})",
                            "nontrivial": True})
    return recipes


def _strip_bigs(e):
    return e


def run_worker(args, seed, opt, timeout):
    env = dict(os.environ, PYTHONHASHSEED=seed, PYTHONDONTWRITEBYTECODE="1", VF_REPO=REPO)
    cmd = [sys.executable] + (["-O"] if opt else []) + ["-m", "vf.props.c17_worker"] + args
    return subprocess.run(cmd, cwd=VERIF_DIR, env=env, capture_output=True, text=True,
                          timeout=timeout)


@check("C17.pair")
def c_pair(ctx, case):
    (pseed, popt), (cseed, copt), protos, rseed, nrand = case
    recipes = make_recipes(rseed, nrand)
    d = tempfile.mkdtemp(prefix="vf-c17-", dir=os.environ.get("VF_TMP"))
    try:
        rp = os.path.join(d, "recipes.json")
        json.dump(recipes, open(rp, "w"))
        plog, clog = os.path.join(d, "p.jsonl"), os.path.join(d, "c.jsonl")
        try:
            r1 = run_worker(["produce", rp, plog, ",".join(map(str, protos))], pseed, popt, 300)
            r2 = run_worker(["consume", rp, plog, clog], cseed, copt, 300)
        except subprocess.TimeoutExpired:
            ctx.inconclusive.append(f"C17 process pair watchdog: {case[:3]}")
            return
        if r1.returncode != 0 or r2.returncode != 0:
            ctx.fail("C17.pair", case, "worker-crashed",
                     f"producer exit {r1.returncode} {r1.stderr[-400:]} / consumer exit "
                     f"{r2.returncode} {r2.stderr[-400:]}")
            return
        by_id = {r["id"]: r for r in recipes}
        hashes = {}
        for line in open(clog):
            ev = json.loads(line)
            r = by_id[ev["recipe"]]
            ctx.case((ev["recipe"], rseed, pseed, popt, cseed, copt, ev["proto"], ev["hash_first"]),
                     r["nontrivial"])
            ctx.count("transfers")
            ctx.count(f"proto:{ev['proto']}")
            ctx.count("kind:" + r["kind"])
            ctx.count("hash_first" if ev["hash_first"] else "hash_after")
            if ev.get("first_hash_failed"):
                ctx.count("consumer_first_hash_failed_and_caught")
            if isinstance(ev["hash_first"], str):
                ctx.count("key_before_pickling")
            if "hash" in ev:
                hashes.setdefault(ev["recipe"], set()).add(ev["hash"])
            if ev["problems"]:
                sig = sorted(x if " " not in x else x.split(":")[0] for x in ev["problems"])
                ctx.fail("C17.pair", case,
                         f"{r['kind']}:{','.join(sig)[:80]}:{'hash-first' if ev['hash_first'] else 'hash-after'}",
                         f"producer(seed={pseed}, -O={popt}) -> consumer(seed={cseed}, -O={copt}), "
                         f"protocol {ev['proto']}, hash computed before pickling: {ev['hash_first']}; "
                         f"recipe {r['src'][:300]}: problems {ev['problems']}")
        # producer-side hash vs consumer-side hash: evidence that the seeds really differ
        phash = {}
        for line in open(plog):
            ev = json.loads(line)
            if "hash" in ev:
                phash.setdefault(ev["recipe"], set()).add(ev["hash"])
        differ = sum(1 for k in phash if k in hashes and phash[k] != hashes[k])
        ctx.count("recipes_whose_hash_differs_between_the_two_processes", differ)
        ctx.count("process_pairs")
        ctx.count(f"producer:{pseed}{'-O' if popt else ''}")
        ctx.count(f"consumer:{cseed}{'-O' if copt else ''}")
    finally:
        shutil.rmtree(d, ignore_errors=True)


def workload(ctx):
    rng = ctx.rng
    if ctx.thorough:
        pairs = [(a, b) for a in CONFIGS for b in CONFIGS]
        protos_for = lambda i: [0, 1, 2, 3, 4, 5]  # noqa: E731
        nrand = 220
    else:
        # 12 pairs: every configuration appears as producer and as consumer, seeds and -O cross
        order = CONFIGS[:]
        pairs = [(order[i], order[(i + 3) % 8]) for i in range(8)] + \
                [(order[0], order[0]), (order[1], order[6]), (order[7], order[2]), (order[5], order[4])]
        protos_for = lambda i: [[0, 5], [1, 4], [2, 3]][i % 3]  # noqa: E731
        nrand = 120
    for i, (pc, cc) in enumerate(pairs):
        if not ctx.mine("pairs"):
            continue
        case = (pc, cc, protos_for(i), ctx.seed * 1000 + i % 4, nrand)
        if i < 2:
            ctx.sample("process-pair", f"producer {pc} -> consumer {cc}, protocols {protos_for(i)}, "
                       f"recipes e.g. {make_recipes(case[3], 3)[-1]['src'][:120]}")
        ctx.run("C17.pair", case)
    ctx.set_exhaustive("producer x consumer configurations", ctx.thorough)
    ctx.floor("transfers", 5000)
    ctx.floor("process_pairs", 8)
    ctx.floor("hash_first", 2000)
    ctx.floor("kind:compiled", 100)
    ctx.floor("kind:deepexpr", 100)
    ctx.floor("key_before_pickling", 1000)
    ctx.floor("consumer_first_hash_failed_and_caught", 20)
    ctx.floor("recipes_whose_hash_differs_between_the_two_processes", 200)


RULE = RULE + "  Later additions: persistent keys (or their refusal) of towers 100-450 levels deep; key and / or hash computed before pickling; the consumer's first hash fails and is caught."
