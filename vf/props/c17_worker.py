"""Producer / consumer interpreter for C17 (run with its own PYTHONHASHSEED and -O flag).

  python [-O] -m vf.props.c17_worker produce <recipes.json> <out.jsonl> <protocols csv>
  python [-O] -m vf.props.c17_worker consume <recipes.json> <producer.jsonl> <out.jsonl>

Every line of the output is one event:
  {"role","pid","seed","opt","recipe","op",...}
"""
from __future__ import annotations

import base64
import hashlib
import json
import os
import pickle
import sys
from fractions import Fraction

import numpy as np
from immutabledict import immutabledict

import vf  # noqa: F401  (puts the repository under test on sys.path)
import pymbolic
import pymbolic.primitives as p
from pymbolic.polynomial import Polynomial
from vf import usertypes as U
from vf.ref import normal, refsem

NS = {"p": p, "np": np, "immutabledict": immutabledict, "Fraction": Fraction, "float": float,
      "float32": np.float32, "float64": np.float64, "Polynomial": Polynomial,
      **{c.__name__: c for c in U.USER_CLASSES}}


def tower(family, depth):
    """a construct nested in itself `depth` times (built by a loop: Python's own parser refuses
    source nested that deeply)"""
    from vf.gen import scale
    x = p.Variable("x")
    return scale.nest(scale.family_towers()[family], depth, p.Sum((x, p.Variable("name_" + family[:3]))))


NS["tower"] = tower


def build(recipe):
    if recipe["kind"] == "compiled":
        v = recipe["vars"]
        kind = recipe.get("varkind", "list")
        v = {"list": lambda: list(v), "tuple": lambda: tuple(v), "dictkeys": lambda: dict.fromkeys(v).keys(),
             "generator": lambda: (n for n in v), "iter": lambda: iter(v), "set": lambda: set(v),
             "frozenset": lambda: frozenset(v)}[kind]()
        return pymbolic.compile(eval(recipe["src"], NS), v)
    return eval(recipe["src"], NS)


def digests(e):
    out = {}
    try:
        from pytools.persistent_dict import KeyBuilder
        out["keybuilder"] = KeyBuilder()(e)
    except Exception as ex:  # noqa: BLE001
        out["keybuilder"] = f"ERR:{type(ex).__name__}"
    try:
        import warnings
        from pymbolic.mapper.persistent_hash import PersistentHashWalkMapper
        h = hashlib.sha256()
        with warnings.catch_warnings():
            warnings.simplefilter("ignore")
            PersistentHashWalkMapper(h)(e)
        out["walkmapper"] = h.hexdigest()
    except Exception as ex:  # noqa: BLE001
        out["walkmapper"] = f"ERR:{type(ex).__name__}"
    return out


def _share(e, tab):
    """equal copy in which every pair of equal (typed) sub-terms is one and the same object"""
    import dataclasses
    if isinstance(e, pymbolic.primitives.Expression) and normal.is_expr_dataclass(type(e)):
        new = type(e)(*[_share(getattr(e, f.name), tab) for f in dataclasses.fields(e)])
        return tab.setdefault(normal.typed_key(new), new)
    if isinstance(e, tuple):
        return tuple(_share(c, tab) for c in e)
    return e


def base(role):
    return {"role": role, "pid": os.getpid(), "seed": os.environ.get("PYTHONHASHSEED"),
            "opt": not __debug__}


ARGS = [Fraction(3, 2), -2, 5, 7, Fraction(1, 4), 3]


def produce(recipes, out, protocols):
    with open(out, "w") as f:
        for r in recipes:
            if r["kind"] == "deepexpr":
                # too deep to pickle: only the persistent keys (or their refusal) travel
                ev = dict(base("producer"), recipe=r["id"], op="digest", proto=-1, hash_first=False)
                try:
                    ev["digests"] = digests(build(r))
                except Exception as ex:  # noqa: BLE001
                    ev["error"] = f"{type(ex).__name__}: {ex}"
                f.write(json.dumps(ev) + "\n")
                continue
            for proto in protocols:
                # what the producer did with the object BEFORE pickling it: nothing, hashed it,
                # computed its persistent key, or both (each leaves a cached value on the object)
                for hash_first in (False, True, "key", "hash+key", "key+hash"):
                    if r["kind"] != "expr" and hash_first not in (False, True):
                        continue
                    ev = dict(base("producer"), recipe=r["id"], op="pickle", proto=proto,
                              hash_first=hash_first)
                    try:
                        e = build(r)
                        if r["kind"] == "expr":
                            if hash_first == "key+hash":
                                digests(e)
                            if hash_first in (True, "hash+key", "key+hash"):
                                ev["hash"] = hash(e)
                                {e: 1}          # noqa: B018  (dict insertion caches the hash too)
                                e == build(r)   # noqa: B015
                            if hash_first in ("key", "hash+key"):
                                digests(e)
                        ev["blob"] = base64.b64encode(pickle.dumps(e, protocol=proto)).decode()
                        if r["kind"] == "expr":     # after pickling: must not pre-hash "hash-after" cases
                            ev["digests"] = digests(e)
                        else:       # what the callable returns HERE, for the documented argument order
                            n = len(r["allvars"])
                            ev["outcome"] = repr(refsem.outcome(lambda: e(*ARGS[:n])))
                    except Exception as ex:  # noqa: BLE001
                        ev["error"] = f"{type(ex).__name__}: {ex}"
                    f.write(json.dumps(ev) + "\n")


def consume(recipes, producer_log, out):
    by_id = {r["id"]: r for r in recipes}
    local = {}
    with open(out, "w") as f, open(producer_log) as pl:
        # the consumer meets the objects in the OPPOSITE order: a persistent key is a function
        # of the object alone, not of what this process has digested (hashed, compared) before
        for line in reversed(list(pl)):
            pe = json.loads(line)
            r = by_id[pe["recipe"]]
            ev = dict(base("consumer"), recipe=r["id"], op="unpickle", proto=pe["proto"],
                      hash_first=pe["hash_first"], producer_seed=pe["seed"],
                      producer_opt=pe["opt"], problems=[])
            if "error" in pe:
                ev["problems"].append(f"producer failed: {pe['error']}")
                f.write(json.dumps(ev) + "\n")
                continue
            try:
                if r["id"] not in local:
                    local[r["id"]] = build(r)
                mine = local[r["id"]]
                if r["kind"] == "deepexpr":
                    ev["digests"] = digests(mine)
                    if ev["digests"] != pe["digests"]:
                        ev["problems"].append(f"deep: persistent keys here {ev['digests']}, in the "
                                              f"producer {pe['digests']}")
                    f.write(json.dumps(ev) + "\n")
                    continue
                got = pickle.loads(base64.b64decode(pe["blob"]))
                if r["kind"] == "expr" and not pe["hash_first"]:
                    # the consumer's FIRST use of the object fails and is caught (warnings are
                    # errors in that part of the application: hashing a legacy subclass warns);
                    # afterwards the object hashes and compares like the locally built one
                    import warnings
                    with warnings.catch_warnings():
                        warnings.simplefilter("error")
                        try:
                            hash(got)
                            {got: 1}    # noqa: B018
                        except Exception:  # noqa: BLE001
                            ev["first_hash_failed"] = True
                if r["kind"] == "compiled":
                    n = len(r["allvars"])
                    a = refsem.outcome(lambda: got(*ARGS[:n]))
                    b = refsem.outcome(lambda: mine(*ARGS[:n]))
                    if not refsem.same_outcome(a, b) and r.get("varkind", "list") not in ("set", "frozenset"):
                        # (listed as a set: the local compile may order the names differently)
                        ev["problems"].append(f"compiled: transferred={a!r} local={b!r}")
                    if "outcome" in pe and repr(a) != pe["outcome"]:
                        ev["problems"].append(f"compiled: transferred callable returns {a!r} here, "
                                              f"returned {pe['outcome']} in the producer")
                else:
                    chk = {"eq": got == mine, "eq_rev": mine == got, "ne": not (got != mine),
                           "type": type(got) is type(mine),
                           "fields": normal.typed_key(got) == normal.typed_key(mine)}
                    ev["hash"] = hash(got)
                    ev["local_hash"] = hash(mine)
                    chk["hash"] = ev["hash"] == ev["local_hash"]
                    chk["dict"] = {mine: 1}.get(got) == 1 and {got: 1}.get(mine) == 1
                    chk["set"] = got in {mine} and len({got, mine}) == 1
                    ev["digests"] = digests(got)
                    ev["local_digests"] = digests(mine)
                    chk["digest_vs_local"] = ev["digests"] == ev["local_digests"]
                    chk["digest_vs_producer"] = ev["digests"] == pe["digests"]
                    # structure only: the same tree with every equal sub-term made ONE shared
                    # object, and with no object shared at all, has the same persistent key
                    if pe["proto"] == 2 and not pe["hash_first"]:
                        from vf.gen import expr as G
                        chk["digest_vs_shared_objects"] = digests(_share(mine, {})) == ev["local_digests"]
                        chk["digest_vs_unshared_objects"] = \
                            digests(G.deep_rebuild(mine)) == ev["local_digests"]
                    ev["problems"] += [k for k, v in chk.items() if not v]
            except Exception as ex:  # noqa: BLE001
                ev["problems"].append(f"raised {type(ex).__name__}: {ex}")
            f.write(json.dumps(ev) + "\n")


def main():
    role, recipes_path = sys.argv[1], sys.argv[2]
    recipes = json.load(open(recipes_path))
    if role == "produce":
        produce(recipes, sys.argv[3], [int(x) for x in sys.argv[4].split(",")])
    else:
        consume(recipes, sys.argv[3], sys.argv[4])


if __name__ == "__main__":
    main()
