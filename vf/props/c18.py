"""C18 — multivectors obey the axioms of geometric (Clifford) algebra."""
from __future__ import annotations

import itertools
from fractions import Fraction as F

import numpy as np

import pymbolic.primitives as p
from pymbolic.geometric_algebra import MultiVector, Space

from ..core import check, short
from ..ref import clifford as cl
from ..ref import normal, refsem

RULE = ("EXHAUSTIVE over dimensions 0-4 (quick: dimension 4 metrics sampled; thorough: dimension 5 "
        "sampled) x all diagonal metrics with entries in {1,-1,0,2} x all ordered pairs of basis "
        "blades for the six products (geometric, outer, inner, scalar, left/right contraction), each "
        "compared with an independent list-based Clifford product and with the grade parts of the "
        "library's own geometric product; all blade triples (sampled in dimension >=4) for "
        "associativity; e_i^2 = g_ii and anticommutation; rev/invol/dual/norm_squared/inv per blade "
        "(inv(B)*B = B*inv(B) = 1 for every non-null blade, ZeroDivisionError for null ones); random "
        "multivectors with Fraction and symbolic coefficients for bilinearity and direct comparison; "
        "==/hash/bool on equal data built in different ways.  distinct = (dimension, metric, blades); "
        "non-trivial = at least one operand of grade >= 1.")
ASSUMPTIONS = [
    "only diagonal metrics (the library refuses non-orthogonal spaces for all but the outer product)",
    "the inner product is the |r-s| grade part also when one operand is a scalar (the library's "
    "convention), as the statement says",
]

KF_ZERO = "C18-explicit-zero-coefficient"
PRODUCTS = {
    "geometric": lambda a, b: a * b, "outer": lambda a, b: a ^ b, "inner": lambda a, b: a | b,
    "left_contraction": lambda a, b: a << b, "right_contraction": lambda a, b: a >> b,
    "scalar": lambda a, b: MultiVector(a.scalar_product(b), a.space),
}
METRIC_VALUES = [1, -1, 0, 2]
_spaces = {}


_fresh = [0]


def space_for(g):
    """The Space for a diagonal metric.  Every third request builds a NEW Space object that is
    dropped with the case (spaces come and go in a long-running process: anything keyed on the
    identity of a space must not outlive it); the others share one cached Space per metric."""
    g = tuple(g)
    _fresh[0] += 1
    if len(g) and all(type(v) is int and v == 1 for v in g) and _fresh[0] % 2 == 0:
        return Space(len(g))        # the Euclidean metric a space gets when none is given
    if _fresh[0] % 3 == 0 and len(g):
        m = np.zeros((len(g), len(g)), dtype=object)
        for i, v in enumerate(g):
            m[i, i] = v
        return Space(len(g), m)
    if g not in _spaces:
        m = np.zeros((len(g), len(g)), dtype=object)
        for i, v in enumerate(g):
            m[i, i] = v
        _spaces[g] = Space(len(g), m) if len(g) else Space(0, np.zeros((0, 0), dtype=object))
    return _spaces[g]


def mk(space, ref):
    return MultiVector({cl.blade_to_bits(k): v for k, v in ref.items()}, space)


def to_ref(mv):
    return {cl.bits_to_blade(b): c for b, c in mv.data.items()}


def same(ref_dict, mv):
    """coefficient-wise comparison, ignoring (and reporting separately) stored zeros"""
    got = {k: v for k, v in to_ref(mv).items() if not _is0(v)}
    want = {k: v for k, v in ref_dict.items() if not _is0(v)}
    if set(got) != set(want):
        return False
    return all(got[k] == want[k] for k in got)


def _is0(v):
    try:
        return bool(v == 0)
    except Exception:  # noqa: BLE001
        return False


def stored_zero(mv):
    return any(_is0(v) for v in mv.data.values())


@check("C18.pair")
def c_pair(ctx, case):
    g, ab, bb = case
    sp = space_for(g)
    ka, kb = cl.bits_to_blade(ab), cl.bits_to_blade(bb)
    A, B = mk(sp, {ka: 1}), mk(sp, {kb: 1})
    own_gp = A * B
    for name, op in PRODUCTS.items():
        ctx.case(None)
        ctx.count("blade_products")
        ctx.count("product:" + name)
        want = cl.product(name, {ka: 1}, {kb: 1}, g)
        try:
            got = op(A, B)
        except Exception as ex:  # noqa: BLE001
            ctx.fail("C18.pair", case, f"{name}:raised:{type(ex).__name__}",
                     f"{name} product of e{ka} and e{kb} (metric {g}) raised {type(ex).__name__}: {ex}")
            continue
        if not same(want, got):
            ctx.fail("C18.pair", case, f"{name}:value:grades{len(ka)},{len(kb)}",
                     f"metric diag{g}: {name}(e{ka}, e{kb}) = {to_ref(got)}, reference Clifford "
                     f"product gives {want}")
            continue
        if stored_zero(got):
            ctx.fail("C18.pair", case, f"{name}:stored-zero",
                     f"metric diag{g}: {name}(e{ka}, e{kb}) stores an explicit zero coefficient "
                     f"{got.data}", finding=KF_ZERO)
        # grade-part relation w.r.t. the library's own geometric product
        if name != "geometric":
            r, s = len(ka), len(kb)
            t = {"outer": r + s, "inner": abs(r - s), "scalar": 0, "left_contraction": s - r,
                 "right_contraction": r - s}[name]
            part = own_gp.project(t) if t >= 0 else MultiVector({}, sp)
            if not same(to_ref(part), got):
                ctx.fail("C18.pair", case, f"{name}:grade-part",
                         f"metric diag{g}: {name}(e{ka}, e{kb}) = {to_ref(got)} but the grade-{t} part "
                         f"of their geometric product is {to_ref(part)}")
    # a plain number as the LEFT operand goes through the reflected operators: s o B must be
    # what MultiVector(s) o B is
    for s_ in (2, F(-1, 2), F(2, 3)):
        S = MultiVector(s_, sp)
        for name, op in PRODUCTS.items():
            if name == "scalar":
                continue
            ctx.case(None)
            ctx.count("scalar_left_products")
            try:
                got, want_mv = op(s_, B), op(S, B)
            except Exception as ex:  # noqa: BLE001
                ctx.fail("C18.pair", case, f"scalar-left:{name}:raised:{type(ex).__name__}",
                         f"{s_!r} {name} e{kb} raised {type(ex).__name__}: {ex}")
                continue
            ref_ = cl.product(name, {(): s_}, {kb: 1}, g)
            if not same(ref_, got) or not same(to_ref(want_mv), got):
                ctx.fail("C18.pair", case, f"scalar-left:{name}:grade{len(kb)}",
                         f"metric diag{g}: ({s_!r}) {name} e{kb} = {to_ref(got)}; with the scalar "
                         f"wrapped as a multivector: {to_ref(want_mv)}; reference {ref_}")
    # vector axioms, stated directly
    if len(ka) == 1 and len(kb) == 1:
        ctx.count("vector_axioms")
        i, j = ka[0], kb[0]
        if i == j:
            if not same({(): g[i]} if g[i] != 0 else {}, A * A):
                ctx.fail("C18.pair", case, "square", f"e{i}*e{i} = {to_ref(A*A)} with metric entry {g[i]}")
        else:
            if not same(to_ref(-(B * A)), A * B):
                ctx.fail("C18.pair", case, "anticommute",
                         f"e{i}*e{j} = {to_ref(A*B)} but -(e{j}*e{i}) = {to_ref(-(B*A))}")


@check("C18.self")
def c_self(ctx, case):
    """ONE multivector object as both operands (A o A, as in a squared norm or A ^ A): every
    product is what the reference Clifford product of the coefficients with themselves gives."""
    g, ref = case
    sp = space_for(g)
    A = mk(sp, ref)
    twin = mk(sp, dict(ref))
    for name, op in PRODUCTS.items():
        ctx.case(None)
        ctx.count("same_object_products")
        want = cl.product(name, ref, ref, g)
        try:
            got = op(A, A)
            got2 = op(A, twin)
        except Exception as ex:  # noqa: BLE001
            ctx.fail("C18.self", case, f"self:{name}:raised:{type(ex).__name__}",
                     f"{name}(A, A) with A = {ref} (metric {g}) raised {type(ex).__name__}: {ex}")
            continue
        if not same(want, got) or not same(want, got2):
            ctx.fail("C18.self", case, f"self:{name}:value",
                     f"metric diag{g}, A = {ref}: {name}(A, A) with one object = {to_ref(got)}, with "
                     f"an equal second object = {to_ref(got2)}; the reference product gives {want}")


@check("C18.triple")
def c_triple(ctx, case):
    g, ab, bb, cb = case
    sp = space_for(g)
    A, B, C = (mk(sp, {cl.bits_to_blade(x): 1}) for x in (ab, bb, cb))
    ctx.case(None)
    ctx.count("triples")
    l, r = (A * B) * C, A * (B * C)
    if not same(to_ref(l), r):
        ctx.fail("C18.triple", case, "associativity",
                 f"metric diag{g}: (e{cl.bits_to_blade(ab)} e{cl.bits_to_blade(bb)}) "
                 f"e{cl.bits_to_blade(cb)} = {to_ref(l)} but a(bc) = {to_ref(r)}")
        return
    want = cl.gp(cl.gp({cl.bits_to_blade(ab): 1}, {cl.bits_to_blade(bb): 1}, g),
                 {cl.bits_to_blade(cb): 1}, g)
    if not same(want, l):
        ctx.fail("C18.triple", case, "triple-value",
                 f"metric diag{g}: triple product {to_ref(l)} vs reference {want}")


@check("C18.unary")
def c_unary(ctx, case):
    g, ab, coeff = case
    n = len(g)
    sp = space_for(g)
    k = cl.bits_to_blade(ab)
    ref = {k: coeff}
    A = mk(sp, ref)
    for name, got_f, want_f in (
            ("rev", lambda: A.rev(), lambda: cl.rev(ref)),
            ("invol", lambda: A.invol(), lambda: cl.invol(ref)),
            ("dual", lambda: A.dual(), lambda: cl.dual(ref, n, g)),
            ("~", lambda: ~A if hasattr(A, "__invert__") else A.dual(), lambda: cl.dual(ref, n, g)),
            ("norm_squared", lambda: MultiVector(A.norm_squared(), sp),
             lambda: {(): cl.norm_squared(ref, g)})):
        ctx.case(None)
        ctx.count("unary:" + name)
        try:
            got = got_f()
        except Exception as ex:  # noqa: BLE001
            ctx.fail("C18.unary", case, f"{name}:raised:{type(ex).__name__}",
                     f"{name} of {ref} (metric {g}) raised {type(ex).__name__}: {ex}")
            continue
        if not same(want_f(), got):
            ctx.fail("C18.unary", case, f"{name}:value:grade{len(k)}",
                     f"metric diag{g}: {name}({ref}) = {to_ref(got)}, reference {want_f()}")
    # inverse
    ctx.case(None)
    ctx.count("unary:inv")
    nsq = cl.norm_squared(ref, g)
    try:
        inv = A.inv()
    except ZeroDivisionError:
        if nsq != 0:
            ctx.fail("C18.unary", case, "inv:refused-non-null",
                     f"metric diag{g}: inv({ref}) raised ZeroDivisionError but the blade is not null "
                     f"(norm^2 = {nsq})")
        ctx.count("inv_null_refused")
        return
    except Exception as ex:  # noqa: BLE001
        ctx.fail("C18.unary", case, f"inv:raised:{type(ex).__name__}",
                 f"inv({ref}) (metric {g}) raised {type(ex).__name__}: {ex}")
        return
    if nsq == 0:
        ctx.fail("C18.unary", case, "inv:null-blade-accepted",
                 f"metric diag{g}: inv of the null blade {ref} returned {to_ref(inv)}")
        return
    for nm, prod in (("inv(B)*B", inv * A), ("B*inv(B)", A * inv)):
        if not same({(): 1}, prod):
            ctx.fail("C18.unary", case, f"inv:{nm}",
                     f"metric diag{g}: {nm} = {to_ref(prod)} for B = {ref}, inv = {to_ref(inv)}")
    ctx.count("inv_checked")


@check("C18.vecinv")
def c_vecinv(ctx, case):
    """Inverse of a VECTOR with several components (inversion is not linear: the basis blades
    say nothing about it): v.inv()*v == v*v.inv() == 1 whenever v.v = sum g_i c_i^2 != 0."""
    g, coeffs = case
    sp = space_for(g)
    ref = cl.clean({(i,): c for i, c in enumerate(coeffs) if not _is0(c)})
    if len(ref) < 1:
        return
    v = mk(sp, ref)
    nsq = sum(g[i] * c * c for i, c in enumerate(coeffs))
    ctx.case(None)
    ctx.count("vector_inverses")
    try:
        inv = v.inv()
    except ZeroDivisionError:
        if nsq != 0:
            ctx.fail("C18.vecinv", case, "vecinv:refused-non-null",
                     f"metric diag{g}: inv({ref}) raised ZeroDivisionError, v.v = {nsq}")
        ctx.count("inv_null_refused")
        return
    except Exception as ex:  # noqa: BLE001
        ctx.fail("C18.vecinv", case, f"vecinv:raised:{type(ex).__name__}",
                 f"inv({ref}) (metric {g}) raised {type(ex).__name__}: {ex}")
        return
    if nsq == 0:
        ctx.fail("C18.vecinv", case, "vecinv:null-vector-accepted",
                 f"metric diag{g}: inv of the null vector {ref} returned {to_ref(inv)}")
        return
    want = cl.clean({k: c / nsq for k, c in ref.items()})
    if not same(want, inv):
        ctx.fail("C18.vecinv", case, f"vecinv:value:{len(ref)}components",
                 f"metric diag{g}: inv({ref}) = {to_ref(inv)}, expected v/(v.v) = {want}")
        return
    for nm, prod in (("inv(v)*v", inv * v), ("v*inv(v)", v * inv), ("v/v", v / v)):
        if not same({(): 1}, prod):
            ctx.fail("C18.vecinv", case, f"vecinv:{nm}",
                     f"metric diag{g}: {nm} = {to_ref(prod)} for v = {ref}")


@check("C18.anyinv")
def c_anyinv(ctx, case):
    """inv() of an ARBITRARY multivector (several terms, pure grade or mixed): it may refuse
    (NotImplementedError for what it does not recognise as a blade, ZeroDivisionError for null
    ones) -- but whatever it returns is the inverse: inv(M)*M == M*inv(M) == 1."""
    g, ref = case
    sp = space_for(g)
    M = mk(sp, ref)
    ctx.case(None)
    ctx.count("general_inverses")
    for nm, f in (("inv(M)", lambda: M.inv()), ("1/M", lambda: 1 / M)):
        try:
            inv = f()
        except (NotImplementedError, ZeroDivisionError):
            ctx.count("general_inverse_refused")
            continue
        except Exception as ex:  # noqa: BLE001
            ctx.fail("C18.anyinv", case, f"anyinv:raised:{type(ex).__name__}",
                     f"{nm} for M={ref} (metric {g}) raised {type(ex).__name__}: {ex}")
            continue
        ctx.count("general_inverse_returned")
        grades = sorted({len(k) for k in ref})
        for tag, prod in ((nm + "*M", inv * M), ("M*" + nm, M * inv)):
            if not same({(): 1}, prod):
                ctx.fail("C18.anyinv", case, f"anyinv:{tag}:grades{grades}:dim{len(g)}",
                         f"metric diag{g}: M = {ref}, {nm} = {to_ref(inv)}, but {tag} = "
                         f"{to_ref(prod)}, not 1")
                break


def rand_mv(rng, n, symbolic=False, nterms=None, ints=False):
    blades = cl.all_blades(n)
    k = nterms or rng.randint(0, min(len(blades), 5))
    out = {}
    for b in rng.sample(blades, k):
        if symbolic and rng.random() < 0.5:
            out[b] = p.Variable(rng.choice("uvw")) * rng.choice([1, 2, -3])
        elif symbolic or ints:  # expressions do not add to Fractions: integer coefficients only
            out[b] = rng.randint(-4, 4)
        else:
            out[b] = rng.choice([F(rng.randint(-5, 5), rng.choice([1, 2, 3])), rng.randint(-4, 4)])
    return cl.clean({k_: v for k_, v in out.items() if not _is0(v)})


def ev_ref(d, env):
    return cl.clean({k: refsem.ev(v, env) for k, v in d.items()})


@check("C18.bilinear")
def c_bilinear(ctx, case):
    g, A, B, C, a, b, symbolic = case
    sp = space_for(g)
    mA, mB, mC = mk(sp, A), mk(sp, B), mk(sp, C)
    env = {"u": F(3, 2), "v": F(-2), "w": F(5, 7)}
    for name, op in PRODUCTS.items():
        ctx.case(None)
        ctx.count("bilinear_checks")
        if symbolic and name == "scalar":
            continue
        left = op(a * mA + b * mB, mC)
        right = a * op(mA, mC) + b * op(mB, mC)
        left2 = op(mC, mA * a + mB * b)
        right2 = op(mC, mA) * a + op(mC, mB) * b
        want = cl.product(name, cl.add(cl.scale(a, ev_ref(A, env)), cl.scale(b, ev_ref(B, env))),
                          ev_ref(C, env), g)
        want2 = cl.product(name, ev_ref(C, env),
                           cl.add(cl.scale(a, ev_ref(A, env)), cl.scale(b, ev_ref(B, env))), g)
        for tag, x, w in (("left", left, want), ("left-distributed", right, want),
                          ("right", left2, want2), ("right-distributed", right2, want2)):
            got = ev_ref(to_ref(x), env)
            if cl.clean(got) != cl.clean(w):
                ctx.fail("C18.bilinear", case, f"bilinear:{name}:{tag}",
                         f"metric diag{g}: {name} product, {tag}: got {got} want {w}; A={A} B={B} C={C} "
                         f"a={a} b={b}")
                break


def _split_tuples(A, sp, cancel):
    """A again, from index-tuple data in which one blade of grade >= 2 appears under two
    index orders (i, j, ...) and (j, i, ...): c = c1 + c2 is given as {(i,j,..): c1, (j,i,..): -c2};
    with cancel=True a blade that is NOT in A is added as {(i,j,..): d, (j,i,..): d} (sum 0)"""
    n = sp.dimensions
    data = {k: v for k, v in A.items()}
    blades = [b for b in cl.all_blades(n) if len(b) >= 2]
    if cancel:
        free = [b for b in blades if b not in data]
        if not free:
            return mk(sp, A)
        b = free[0]
        sw = (b[1], b[0], *b[2:])
        data[b] = 5
        data[sw] = 5
    else:
        mine = [b for b in blades if b in data]
        if not mine:
            return mk(sp, A)
        b = mine[0]
        sw = (b[1], b[0], *b[2:])
        c = data[b]
        data[b] = c - 2
        data[sw] = -2
    return MultiVector(data, sp)


@check("C18.eqhash")
def c_eqhash(ctx, case):
    g, A, B = case
    sp = space_for(g)
    mA, mB = mk(sp, A), mk(sp, B)
    variants = [
        ("A+B", mA + mB, cl.add(A, B)), ("B+A", mB + mA, cl.add(A, B)),
        ("(A+B)-B", (mA + mB) - mB, dict(A)), ("A", mA, dict(A)),
        ("A-A", mA - mA, {}), ("0*A", 0 * mA, {}), ("A*0", mA * 0, {}),
        ("A reinserted", MultiVector(dict(reversed(list(mA.data.items()))), sp), dict(A)),
        ("1*A", 1 * mA, dict(A)), ("A*1", mA * 1, dict(A)), ("--A", -(-mA), dict(A)),
        ("A.map(id)", mA.map(lambda c: c), dict(A)),
        ("A.map(c*0)", mA.map(lambda c: c * 0), {}),
        # history: the hash of A is computed (and memoized) BEFORE the derived object is made
        ("rev(A) after hash(A)", (hash(mA), mA.rev())[1], cl.rev(A)),
        ("rev(A) built afresh", mk(sp, cl.rev(A)), cl.rev(A)),
        ("invol(A) after hash(A)", (hash(mA), mA.invol())[1], cl.invol(A)),
        ("invol(A) built afresh", mk(sp, cl.invol(A)), cl.invol(A)),
        ("(-A) after hash(A)", (hash(mA), -mA)[1], cl.scale(-1, A)),
        ("(-A) built afresh", mk(sp, cl.scale(-1, A)), cl.scale(-1, A)),
        ("A.map(2c) after hash(A)", (hash(mA), mA.map(lambda c: 2 * c))[1], cl.scale(2, A)),
        ("2A built afresh", mk(sp, cl.scale(2, A)), cl.scale(2, A)),
        # index-TUPLE data naming one blade twice under different index orders: the two entries
        # are summed with their reordering signs -- also when they cancel to nothing
        ("A with a blade split over two index orders", _split_tuples(A, sp, cancel=False), dict(A)),
        ("A plus a blade that cancels itself", _split_tuples(A, sp, cancel=True), dict(A)),
        ("MV(0)", MultiVector(0, sp), {}),
        ("MV({0: 0})", MultiVector({0: 0}, sp), {}),
        ("MV(explicit zero term)", MultiVector({**mA.data, (2 ** len(g) - 1): 0}, sp)
         if (2 ** len(g) - 1) not in mA.data else mA, dict(A)),
    ]
    for (n1, x, rx), (n2, y, ry) in itertools.combinations(variants, 2):
        ctx.case(None)
        ctx.count("eq_pairs")
        want_eq = cl.clean(rx) == cl.clean(ry)
        zero_involved = stored_zero(x) or stored_zero(y)
        try:
            got_eq, got_ne = (x == y), (x != y)
        except Exception as ex:  # noqa: BLE001
            ctx.fail("C18.eqhash", case, f"eq-raised:{type(ex).__name__}", f"{n1} == {n2} raised {ex}")
            continue
        if got_eq != want_eq or got_ne == want_eq:
            ctx.fail("C18.eqhash", case, f"eq:{'stored-zero' if zero_involved else 'plain'}",
                     f"metric diag{g}: ({n1}) == ({n2}) -> {got_eq}, coefficient-wise {want_eq}; "
                     f"data {x.data} vs {y.data}", finding=KF_ZERO if zero_involved else None)
            continue
        if want_eq and hash(x) != hash(y):
            ctx.fail("C18.eqhash", case, f"hash:{'stored-zero' if zero_involved else 'plain'}",
                     f"metric diag{g}: ({n1}) == ({n2}) but hashes differ; data {x.data} vs {y.data}",
                     finding=KF_ZERO if zero_involved else None)
        if want_eq and len({x, y}) != 1:
            ctx.fail("C18.eqhash", case, "set-merge", f"equal multivectors ({n1}), ({n2}) not merged in a set")
    for nm, x, rx in variants:
        ctx.case(None)
        ctx.count("truth_tests")
        if bool(x) != bool(cl.clean(rx)):
            ctx.fail("C18.eqhash", case, f"bool:{'stored-zero' if stored_zero(x) else 'plain'}",
                     f"metric diag{g}: bool({nm}) = {bool(x)} but coefficients are {cl.clean(rx)}; "
                     f"data {x.data}", finding=KF_ZERO if stored_zero(x) else None)
        if (x == 0) != (not cl.clean(rx)):
            ctx.fail("C18.eqhash", case, f"eq-zero:{'stored-zero' if stored_zero(x) else 'plain'}",
                     f"metric diag{g}: ({nm} == 0) = {x == 0} but coefficients are {cl.clean(rx)}",
                     finding=KF_ZERO)


def workload(ctx):
    rng = ctx.rng
    maxdim_full = 3
    for n in range(0, 5 if not ctx.thorough else 6):
        metrics = list(itertools.product(METRIC_VALUES, repeat=n))
        if n == 4 and not ctx.thorough:
            metrics = rng.sample(metrics, 24) + [(1, 1, 1, 1), (1, -1, 1, -1), (2, 0, -1, 1)]
        if n == 5:
            metrics = rng.sample(metrics, 40) + [(1,) * 5, (1, -1, 0, 2, -1)]
        full = n <= maxdim_full or (ctx.thorough and n == 4)
        for g in metrics:
            if not ctx.mine(f"metric{n}"):
                continue
            nb = 2 ** n
            for ab in range(nb):
                for bb in range(nb):
                    ctx.case(("pair", g, ab, bb), ab != 0 or bb != 0, n=0)
                    ctx.run("C18.pair", (g, ab, bb))
                ctx.case(("unary", g, ab), True, n=0)
                ctx.run("C18.unary", (g, ab, rng.choice([1, -2, F(3, 2)])))
                # complex coefficients (Gaussian integers: exact in binary floats): the algebra
                # is over whatever ring the coefficients live in, nothing is conjugated
                ctx.count("complex_coefficient_blades")
                ctx.run("C18.unary", (g, ab, rng.choice([1j, -2j, 1 + 1j, 2 - 2j, -1 + 1j])))
            ctx.node(f"dim{n}")
            if n <= 3 or (ctx.thorough and n == 4 and rng.random() < 0.2):
                for ab, bb, cb in itertools.product(range(nb), repeat=3):
                    ctx.case(("triple", g, ab, bb, cb), True, n=0)
                    ctx.run("C18.triple", (g, ab, bb, cb))
            else:
                for _ in range(ctx.pick(300, 2000)):
                    t = (rng.randrange(nb), rng.randrange(nb), rng.randrange(nb))
                    ctx.case(("triple", g, *t), True, n=0)
                    ctx.run("C18.triple", (g, *t))
        ctx.set_exhaustive(f"dimension {n}: all metrics x all blade pairs", full)
        if n <= 3:
            ctx.set_exhaustive(f"dimension {n}: all blade triples", True)
    ctx.sample("blade-pair", "metric diag(1,-1,0): all six products of e(0,1) and e(1,2)")
    # one object as both operands: homogeneous multivectors of every grade (two to four blades),
    # mixed-grade ones, exact thirds as coefficients, Euclidean and indefinite metrics
    for n in (2, 3, 4, 5):
        for g in ((1,) * n, tuple([1, -1, 2, -1, 1][:n]), tuple([0, 1, -1, 1, 2][:n])):
            for k in range(0, n + 1):
                bl = [b for b in cl.all_blades(n) if len(b) == k]
                for m in (1, 2, 3, 4):
                    if len(bl) < m or not ctx.mine("self"):
                        continue
                    r2 = ctx.sub_rng("self", n, k, m)
                    ref = {b: r2.choice([F(1), F(-2), F(1, 3), F(3), F(2, 3)]) for b in r2.sample(bl, m)}
                    ctx.case(("self", g, k, m), True, n=0)
                    ctx.run("C18.self", (g, ref))
            for m in (2, 3, 5):
                if ctx.mine("self"):
                    r2 = ctx.sub_rng("self-mixed", n, m)
                    ref = {b: r2.choice([F(1), F(-2), F(1, 3), F(3)])
                           for b in r2.sample(list(cl.all_blades(n)), min(m, 2 ** n))}
                    ctx.run("C18.self", (g, ref))
    # random multivectors
    for i in range(ctx.per_shard(ctx.pick(1200, 24000))):
        n = rng.randint(1, 4)
        g = tuple(rng.choice(METRIC_VALUES) for _ in range(n))
        sym = rng.random() < 0.3
        A, B, C = rand_mv(rng, n, sym), rand_mv(rng, n, sym), rand_mv(rng, n, False, ints=sym)
        a, b = rng.choice([2, -1, F(1, 2), 0, 3]), rng.choice([1, F(-3, 4), 5])
        if sym:
            a, b = rng.choice([2, -1, 0, 3]), rng.choice([1, -3, 5])
        ctx.case(("bilinear", g, normal.typed_key((A, B, C))), True, n=0)
        if i < 2:
            ctx.sample("bilinearity", f"metric diag{g}: ({a}*A + {b}*B) o C with A={A} B={B} C={C}")
        ctx.run("C18.bilinear", (g, A, B, C, a, b, sym))
        coeffs = [rng.choice([F(0), F(1), F(-2), F(3), F(1, 2)]) for _ in range(n)]   # exact: int/int would round
        ctx.case(("vecinv", g, tuple(map(str, coeffs))), sum(1 for c in coeffs if c) >= 2, n=0)
        ctx.run("C18.vecinv", (g, coeffs))
        for _ in range(3):
            if rng.random() < 0.6:      # several blades of ONE grade
                k = rng.randint(0, n)
                bl = [b for b in cl.all_blades(n) if len(b) == k]
                Mr = {b: rng.choice([F(1), F(-2), F(3), F(1, 2)])
                      for b in rng.sample(bl, min(len(bl), rng.randint(2, 4)))}
            else:
                Mr = rand_mv(rng, n, False, nterms=min(2 ** n, rng.randint(2, 4)))
            Mr = {k_: F(v_) for k_, v_ in Mr.items()}     # exact: int / int would round
            if Mr:
                ctx.case(("anyinv", g, normal.typed_key(tuple(sorted(Mr.items())))), len(Mr) >= 2, n=0)
                ctx.run("C18.anyinv", (g, Mr))
        A2, B2 = rand_mv(rng, n, False), rand_mv(rng, n, False)
        ctx.case(("eqhash", g, normal.typed_key((A2, B2))), True, n=0)
        ctx.run("C18.eqhash", (g, A2, B2))
        if n >= 4:      # DENSE multivectors: 9 .. 2**n terms, inserted in different orders
            A3 = rand_mv(rng, n, False, nterms=rng.randint(9, 2 ** n))
            B3 = rand_mv(rng, n, False, nterms=rng.randint(9, 2 ** n))
            ctx.case(("eqhash-dense", g, normal.typed_key((A3, B3))), True, n=0)
            ctx.count("dense_multivectors")
            ctx.run("C18.eqhash", (g, A3, B3))
            ctx.run("C18.anyinv", (g, {k_: F(v_) for k_, v_ in A3.items()}))
    ctx.floor("same_object_products", 600)
    ctx.floor("blade_products", 50000)
    ctx.floor("triples", 20000)
    ctx.floor("inv_checked", 500)
    ctx.floor("complex_coefficient_blades", 300)
    ctx.floor("dense_multivectors", 50)
    ctx.floor("general_inverse_returned", 100)
    ctx.floor("general_inverse_refused", 100)
    ctx.floor("inv_null_refused", 200)
    ctx.floor("bilinear_checks", 3000)
    ctx.floor("eq_pairs", 20000)
    ctx.floor("vector_axioms", 500)


RULE = RULE + '  Later additions: one object as both operands; default-metric spaces with thirds as coefficients; Gaussian-integer coefficients.'
