"""C19 — exact-arithmetic helpers and number types compute what they claim."""
from __future__ import annotations

import cmath
import math
import signal
from fractions import Fraction as F

import numpy as np

import pymbolic
import pymbolic.primitives as p
from pymbolic.algorithm import (
    extended_euclidean, fft, find_factors, gcd, ifft, integer_power, lcm, sym_fft)
from pymbolic.geometric_algebra import MultiVector
from pymbolic.mapper import IdentityMapper
from pymbolic.mapper.evaluator import EvaluationMapper
from pymbolic.polynomial import Polynomial

from ..core import check, short
from ..gen import expr as G
from ..ref import normal, refsem
from .c03 import Mat2
from .c18 import space_for

RULE = ("integer_power against repeated multiplication for ints, Fractions, 2x2 matrices, a free "
        "monoid, polynomials and multivectors, EVERY n in [0,64] (thorough [0,200]) plus negative n; "
        "extended_euclidean/gcd/lcm EXHAUSTIVELY over [-40,40]^2 plus big integers and polynomial "
        "pairs; fft against the O(n^2) DFT definition for EVERY length 1..64 plus 100,127,128,210 "
        "(thorough 1000), both signs, ifft(fft(x)), sym_fft evaluated; polynomial homomorphism for + - "
        "* ** divmod on sparse polynomials incl. products with cancelling middle terms and after a "
        "coefficient-rewriting mapper; quotient(n, d) against n/d.  distinct = the argument tuple; "
        "non-trivial = n >= 2 / non-zero pair / length >= 2 / degree >= 1.")
ASSUMPTIONS = [
    "FFT and sym_fft are floating point: tolerance 1e-10*n relative to the input norm",
    "quotient(n, d) goes through floats in Rational.__init__: compared with Python's n/d for |n|,|d| < 2**53",
    "polynomial Euclid is judged only on pairs whose division steps are exact over the integers "
    "(see the known finding for the rest)",
]

KF_POLYEUCLID = "C19-polynomial-euclid-inexact-division"


class Word:
    """free monoid on letters: non-commutative, no inverse"""

    def __init__(self, s):
        self.s = s

    def __mul__(self, o):
        return Word(self.s + o.s)

    def __eq__(self, o):
        return isinstance(o, Word) and o.s == self.s

    def __hash__(self):
        return hash(self.s)

    def __repr__(self):
        return f"Word({self.s!r})"


class Timeout(Exception):
    pass


def with_timeout(fn, seconds=1.0):
    def h(*a):
        raise Timeout()
    old = signal.signal(signal.SIGALRM, h)
    signal.setitimer(signal.ITIMER_REAL, seconds)
    try:
        return fn()
    finally:
        signal.signal(signal.SIGALRM, old)
        from ..core import CASE_TIMEOUT       # re-arm the per-case watchdog of ctx.run
        signal.setitimer(signal.ITIMER_REAL, CASE_TIMEOUT if callable(old) else 0)


X = p.Variable("x")


def monoids(rng):
    sp = space_for((1, -1, 2))
    return [
        ("int", lambda: rng.choice([2, -3, 1, 0, 7]), lambda: 1),
        ("fraction", lambda: F(rng.randint(-5, 5), rng.randint(1, 4)), lambda: F(1)),
        ("mat2", lambda: Mat2(*[rng.randint(-2, 2) for _ in range(4)]), lambda: Mat2(1, 0, 0, 1)),
        ("word", lambda: Word(rng.choice(["a", "ab", ""])), lambda: Word("")),
        ("mutvec", lambda: MutVec(rng.randint(-3, 3), rng.randint(1, 3)), lambda: MutVec(1, 1)),
        ("ndarray", lambda: np.array([rng.randint(-3, 3), rng.randint(1, 3)], dtype=object),
         lambda: np.array([1, 1], dtype=object)),
        ("polynomial", lambda: Polynomial(X, ((0, rng.randint(-2, 2) or 1), (1, rng.randint(1, 2)))),
         lambda: Polynomial(X, ((0, 1),))),
        ("multivector", lambda: MultiVector({0: rng.randint(-1, 2), 1: 1, 6: rng.randint(-2, 2)}, sp),
         lambda: MultiVector({0: 1}, sp)),
    ]


class MutVec:
    """a MUTABLE monoid element (componentwise product) with an in-place multiply, like a numpy
    array: an operand handed to integer_power must come back untouched"""

    def __init__(self, *c):
        self.c = list(c)

    def __mul__(self, o):
        return MutVec(*[a * b for a, b in zip(self.c, o.c)])

    def __imul__(self, o):
        oc = list(o.c)
        for i in range(len(self.c)):
            self.c[i] *= oc[i]
        return self

    def __repr__(self):
        return f"MutVec{tuple(self.c)}"


def keyof(v):
    if isinstance(v, MutVec):
        return ("mutvec", tuple(v.c))
    if isinstance(v, np.ndarray):
        return ("ndarray", tuple(v.tolist()))
    if isinstance(v, Polynomial):
        return ("poly", v.data)
    if isinstance(v, MultiVector):
        return ("mv", tuple(sorted(v.data.items())))
    if isinstance(v, Mat2):
        return ("mat", v.m)
    if isinstance(v, Word):
        return ("word", v.s)
    return (type(v).__name__, v)


@check("C19.power")
def c_power(ctx, case):
    name, x, one_f, n = case
    ctx.case(None)
    ctx.count("power_calls")
    ctx.count("monoid:" + name)
    if n < 0:
        one = one_f()
        # (the identity element itself as the base -- the very object passed as `one`, and the
        #  default one=1 with the base 1 -- is a base like any other)
        for label, call in (("x", lambda: integer_power(x, n, one)),
                            ("identity-object-as-base", lambda: integer_power(one, n, one)),
                            ("base-1-default-one", lambda: integer_power(1, n))):
            try:
                r = call()
            except (RuntimeError, ValueError, AssertionError):
                ctx.count("negative_refused")
                continue
            except Exception as ex:  # noqa: BLE001
                ctx.fail("C19.power", case, f"negative:{type(ex).__name__}",
                         f"integer_power({x!r}, {n}) [{label}] raised {type(ex).__name__} "
                         f"(expected a refusal)")
                continue
            ctx.fail("C19.power", case, f"negative-accepted:{label}",
                     f"integer_power with base {label} ({x!r} / one={one!r}), n={n} returned {r!r}")
        return
    want = one_f()
    for _ in range(n):
        want = want * x
    before = keyof(x)
    one = one_f()
    one_before = keyof(one)
    try:
        got = integer_power(x, n, one)
    except Exception as ex:  # noqa: BLE001
        ctx.fail("C19.power", case, f"raised:{name}:{type(ex).__name__}",
                 f"integer_power({x!r}, {n}) raised {type(ex).__name__}: {ex}")
        return
    if keyof(x) != before:
        ctx.fail("C19.power", case, f"operand-modified:{name}",
                 f"integer_power(x, {n}) changed its operand from {before} to {keyof(x)}")
        return
    if keyof(one) != one_before:
        ctx.fail("C19.power", case, f"identity-modified:{name}",
                 f"integer_power({before}, {n}, one) changed the caller's identity element from "
                 f"{one_before} to {keyof(one)} (the next call with the same object starts from it)")
        return
    if type(got) is not type(want) or keyof(got) != keyof(want):
        ctx.fail("C19.power", case, f"value:{name}:n={'0' if n == 0 else '1' if n == 1 else 'k'}",
                 f"integer_power({x!r}, {n}, one={one_f()!r}) = {got!r}, repeated multiplication "
                 f"gives {want!r}")


@check("C19.euclid")
def c_euclid(ctx, case):
    q, r = case
    ctx.case(None)
    ctx.count("euclid_int")
    try:
        g, a, b = extended_euclidean(q, r)
    except Exception as ex:  # noqa: BLE001
        ctx.fail("C19.euclid", case, f"raised:{type(ex).__name__}",
                 f"extended_euclidean({q}, {r}) raised {type(ex).__name__}: {ex}")
        return
    if g != a * q + b * r:
        ctx.fail("C19.euclid", case, "bezout", f"extended_euclidean({q}, {r}) = {(g, a, b)}: "
                 f"{a}*{q} + {b}*{r} = {a*q + b*r} != {g}")
    if abs(g) != math.gcd(q, r):
        ctx.fail("C19.euclid", case, "gcd", f"extended_euclidean({q}, {r})[0] = {g}, gcd is {math.gcd(q, r)}")
    if gcd(q, r) != g:
        ctx.fail("C19.euclid", case, "gcd-fn", f"gcd({q}, {r}) = {gcd(q, r)} but extended gives {g}")
    if q != 0 and r != 0:
        m = lcm(q, r)       # consistent with gcd up to the sign (unit) gcd itself carries
        if abs(m) != abs(q * r) // math.gcd(q, r) or m % q or m % r or m * g != abs(q * r):
            ctx.fail("C19.euclid", case, "lcm", f"lcm({q}, {r}) = {m} with gcd {g}")


# {{{ independent dense polynomial arithmetic over Fractions (lists, index = degree)

def pnorm(a):
    a = list(a)
    while a and a[-1] == 0:
        a.pop()
    return a


def padd(a, b):
    n = max(len(a), len(b))
    return pnorm([(a[i] if i < len(a) else 0) + (b[i] if i < len(b) else 0) for i in range(n)])


def pmul(a, b):
    if not a or not b:
        return []
    out = [0] * (len(a) + len(b) - 1)
    for i, x in enumerate(a):
        for j, y in enumerate(b):
            out[i + j] += x * y
    return pnorm(out)


def pdivmod(a, b):
    """(quot, rem, integer_exact): exact division over Q; integer_exact says every quotient
    coefficient produced was an integer (so an integer-coefficient routine can follow it)."""
    a, b = pnorm(a), pnorm(b)
    q = [F(0)] * max(len(a) - len(b) + 1, 0)
    exact = True
    r = [F(x) for x in a]
    while len(r) >= len(b) and r:
        c = F(r[-1]) / F(b[-1])
        if c.denominator != 1:
            exact = False
        d = len(r) - len(b)
        q[d] = c
        for i, y in enumerate(b):
            r[i + d] -= c * y
        r = pnorm(r)
    return pnorm(q), r, exact


def to_dense(poly):
    if not poly.data:
        return []
    out = [0] * (poly.data[-1][0] + 1)
    for e, c in poly.data:
        out[e] = c
    return out


def from_dense(a):
    return Polynomial(X, tuple((i, c) for i, c in enumerate(a) if c != 0))


def euclid_exact(a, b):
    """Does integer-coefficient Euclid on (a, b) stay exact?  (independent simulation)"""
    a, b = pnorm(a), pnorm(b)
    if len(a) < len(b):
        a, b = b, a
    steps = 0
    while b:
        q, r, ex = pdivmod(a, b)
        if not ex:
            return False
        a, b = b, r
        steps += 1
        if steps > 50:
            return False
    return True


def pgcd_monic(a, b):
    a, b = [F(x) for x in pnorm(a)], [F(x) for x in pnorm(b)]
    while b:
        _, r, _ = pdivmod(a, b)
        a, b = b, r
    return [x / a[-1] for x in a] if a else []

# }}}


@check("C19.polyeuclid")
def c_polyeuclid(ctx, case):
    da, db = case
    A, B = from_dense(da), from_dense(db)
    exact = euclid_exact(da, db)
    if not exact:
        # each witness of the known non-termination costs a watchdog interval: a few suffice
        if ctx.counters["euclid_poly_inexact"] >= ctx.pick(4, 40):
            return
    ctx.case(None)
    ctx.count("euclid_poly")
    ctx.count("euclid_poly_exact" if exact else "euclid_poly_inexact")
    finding = None if exact else KF_POLYEUCLID
    try:
        g, s, t = with_timeout(lambda: extended_euclidean(A, B), 0.5 if exact else 0.2)
    except Timeout:
        ctx.fail("C19.polyeuclid", case, "hang",
                 f"extended_euclidean on polynomials {da} and {db} (coefficients low->high) did not "
                 f"terminate within 0.5 s", finding=finding)
        return
    except RecursionError:
        raise
    except Exception as ex:  # noqa: BLE001
        ctx.fail("C19.polyeuclid", case, f"raised:{type(ex).__name__}",
                 f"extended_euclidean on polynomials {da}, {db} raised {type(ex).__name__}: {ex}",
                 finding=finding)
        return
    lift = lambda v: to_dense(v) if isinstance(v, Polynomial) else pnorm([v])  # noqa: E731
    gd, sd, td = lift(g), lift(s), lift(t)
    if padd(pmul(sd, da), pmul(td, db)) != gd:
        ctx.fail("C19.polyeuclid", case, "bezout",
                 f"polynomial Euclid on {da}, {db}: g={gd} but s*q + t*r = "
                 f"{padd(pmul(sd, da), pmul(td, db))} (s={sd}, t={td})", finding=finding)
        return
    want = pgcd_monic(da, db)
    gm = [F(x) / F(gd[-1]) for x in gd] if gd else []
    if gm != want:
        ctx.fail("C19.polyeuclid", case, "gcd",
                 f"polynomial Euclid on {da}, {db}: g={gd}, monic gcd is {want}", finding=finding)


def dft(x, sign):
    n = len(x)
    return [sum(cmath.exp(-2j * cmath.pi * sign * k * j / n) * x[j] for j in range(n))
            for k in range(n)]


@check("C19.fft")
def c_fft(ctx, case):
    n, sign, seed = case
    rng = ctx.sub_rng("fft", n, sign, seed)
    x = np.array([complex(rng.uniform(-1, 1), rng.uniform(-1, 1)) for _ in range(n)],
                 dtype=np.complex128)
    # ... after a transform of this length that FAILED part-way and was caught by the caller
    # (the caller's own intermediate-wrapping callback raises at the outermost level; an
    #  object array whose last element cannot be multiplied)
    class _Stop(Exception):
        pass

    def _raising(level, v):
        if level == 0:
            raise _Stop()
        return v
    bad = np.empty(n, dtype=object)
    bad[:] = [1] * n
    bad[-1] = "not a number"
    for attempt in (lambda: fft(x.copy(), sign=sign, complex_dtype=np.complex128, wrap_intermediate_with_level=_raising),
                    lambda: fft(bad, sign=sign, complex_dtype=np.complex128)):
        try:
            attempt()
        except RecursionError:
            raise
        except Exception:  # noqa: BLE001
            ctx.count("failed_transforms_before_the_judged_one")
    ctx.case(None)
    ctx.count("fft_calls")
    want = dft(list(x), sign)
    norm = math.sqrt(sum(abs(v) ** 2 for v in x)) or 1.0
    tol = 1e-10 * n * norm
    try:
        got = fft(x.copy(), sign=sign, complex_dtype=np.complex128)
    except Exception as ex:  # noqa: BLE001
        ctx.fail("C19.fft", case, f"raised:{type(ex).__name__}", f"fft(len {n}) raised {ex}")
        return
    if len(got) != n or max(abs(a - b) for a, b in zip(got, want)) > tol:
        err = max(abs(a - b) for a, b in zip(got, want)) if len(got) == n else None
        ctx.fail("C19.fft", case, f"dft:n={n}" if n < 10 else f"dft:factors={find_factors(n)}",
                 f"fft of length {n} (sign {sign}) differs from the DFT definition by {err} "
                 f"(tolerance {tol})")
        return
    if sign == 1:
        back = ifft(np.array(got), complex_dtype=np.complex128)
        if max(abs(a - b) for a, b in zip(back, x)) > tol:
            ctx.fail("C19.fft", case, "ifft", f"ifft(fft(x)) != x for length {n}")
        ctx.count("ifft_calls")


@check("C19.fftreal")
def c_fftreal(ctx, case):
    """Real input (float64 samples, as measured data are) and no complex_dtype given: fft, and
    the inverse transform called on its own, still are the DFT definition."""
    n, seed = case
    import warnings
    rng = ctx.sub_rng("fftreal", n, seed)
    x = np.array([rng.uniform(-1, 1) for _ in range(n)], dtype=np.float64)
    norm = math.sqrt(sum(abs(v) ** 2 for v in x)) or 1.0
    tol = 1e-10 * n * norm
    for name, fn, want in (("fft", lambda: fft(x.copy()), dft(list(x), 1)),
                           ("fft(sign=-1)", lambda: fft(x.copy(), sign=-1), dft(list(x), -1)),
                           ("ifft", lambda: ifft(x.copy()), [v / n for v in dft(list(x), -1)]),
                           ("ifft(complex128 given)", lambda: ifft(x.copy(), complex_dtype=np.complex128),
                            [v / n for v in dft(list(x), -1)])):
        ctx.case(None)
        ctx.count("real_input_transforms")
        try:
            with warnings.catch_warnings():
                warnings.simplefilter("ignore")
                got = fn()
        except Exception as ex:  # noqa: BLE001
            ctx.fail("C19.fftreal", case, f"real:{name}:raised:{type(ex).__name__}",
                     f"{name} of {n} float64 samples raised {type(ex).__name__}: {ex}")
            continue
        if len(got) != n or max(abs(complex(a) - b) for a, b in zip(got, want)) > tol:
            err = max(abs(complex(a) - b) for a, b in zip(got, want)) if len(got) == n else None
            ctx.fail("C19.fftreal", case, f"real:{name}:" + (f"n={n}" if n < 10 else f"factors={find_factors(n)}"),
                     f"{name} of {n} real (float64) samples differs from the DFT definition by {err} "
                     f"(tolerance {tol})")


@check("C19.polyself")
def c_polyself(ctx, case):
    """ONE polynomial object as both operands (p * p, divmod(p, p), p - p): the value of the
    result is the operation on the value with itself."""
    (da,) = case
    A = Polynomial(X, tuple(da))
    pts = [F(2), F(-1), F(1, 2), F(3)]
    ops = [("+", lambda: A + A, lambda a: a + a), ("-", lambda: A - A, lambda a: a - a),
           ("*", lambda: A * A, lambda a: a * a)]
    for name, f, g in ops:
        ctx.case(None)
        ctx.count("poly_same_object_ops")
        try:
            R = f()
        except Exception as ex:  # noqa: BLE001
            ctx.fail("C19.polyself", case, f"self:raised:{name}:{type(ex).__name__}",
                     f"A {name} A with A = {da} raised {type(ex).__name__}: {ex}")
            continue
        for xv in pts:
            want = g(pval(da, xv))
            got = refsem.outcome(lambda: peval_lib(R, xv))
            if got[0] != "v" or got[1] != want:
                ctx.fail("C19.polyself", case, f"self:homomorphism:{name}",
                         f"A {name} A with the one object A = {da}: the result {getattr(R, 'data', R)} "
                         f"at x={xv} is {short(got)}, the operation on the value gives {want}")
                break
    if not da:
        return
    for name, f in (("divmod", lambda: divmod(A, A)), ("// and %", lambda: (A // A, A % A))):
        ctx.case(None)
        ctx.count("poly_same_object_ops")
        try:
            Q, R = f()
        except Exception as ex:  # noqa: BLE001
            ctx.fail("C19.polyself", case, f"self:raised:{name}:{type(ex).__name__}",
                     f"{name} of A by A with A = {da} raised {type(ex).__name__}: {ex}")
            continue
        for xv in pts:
            a = pval(da, xv)
            q, r = refsem.outcome(lambda: peval_lib(Q, xv)), refsem.outcome(lambda: peval_lib(R, xv))
            if q[0] != "v" or r[0] != "v" or q[1] != 1 or r[1] != 0:
                ctx.fail("C19.polyself", case, f"self:{name}",
                         f"{name} of the one object A = {da} by itself: quotient {getattr(Q, 'data', Q)} "
                         f"(value {short(q)} at {xv}), remainder {getattr(R, 'data', R)} (value "
                         f"{short(r)}); A = 1*A + 0")
                break


@check("C19.symfft")
def c_symfft(ctx, case):
    n, sign, seed = case
    rng = ctx.sub_rng("symfft", n, seed)
    xs = np.empty(n, dtype=object)
    for i in range(n):
        xs[i] = p.Variable(f"x{i}")
    vals = {f"x{i}": complex(rng.uniform(-1, 1), rng.uniform(-1, 1)) for i in range(n)}
    ctx.case(None)
    ctx.count("symfft_calls")
    try:
        sym = sym_fft(xs, sign=sign)
    except Exception as ex:  # noqa: BLE001
        ctx.fail("C19.symfft", case, f"raised:{type(ex).__name__}", f"sym_fft(len {n}) raised {ex}")
        return
    want = dft([vals[f"x{i}"] for i in range(n)], sign)
    tol = 1e-10 * n * (math.sqrt(sum(abs(v) ** 2 for v in vals.values())) or 1)
    for k in range(n):
        got = refsem.outcome(lambda: refsem.ev(sym[k], vals))
        if got[0] != "v" or abs(got[1] - want[k]) > tol:
            ctx.fail("C19.symfft", case, f"symfft:n={n}",
                     f"sym_fft length {n} sign {sign}: output {k} evaluates to {short(got)} "
                     f"instead of {want[k]}")
            return


def rand_poly(rng, maxdeg=4, frac=False):
    d = {}
    for _ in range(rng.randint(1, 4)):
        c = F(rng.randint(-4, 4), rng.randint(1, 3)) if frac else rng.randint(-4, 4)
        if c:
            d[rng.randint(0, maxdeg)] = c
    return tuple(sorted(d.items()))


def pval(data, xv):
    return sum(c * xv ** e for e, c in data)


def peval_lib(poly, xv):
    if not isinstance(poly, Polynomial):
        return poly
    return EvaluationMapper({"x": xv, "u": 3, "v": -2})(poly)


class CoeffRewriter(IdentityMapper):
    def map_variable(self, e):
        if e.name == "u":
            return 3
        return e


@check("C19.poly")
def c_poly(ctx, case):
    da, db, n = case
    # the term data arrive as a tuple, a list or a ONE-SHOT iterable (zip / generator), which
    # the constructor documents no restriction on
    mk_data = [tuple, list, iter, lambda d: (t for t in d), lambda d: zip([e for e, _ in d], [c for _, c in d])]
    A = Polynomial(X, mk_data[(len(da) + n) % len(mk_data)](da))
    B = Polynomial(X, mk_data[(len(db) + 2 * n) % len(mk_data)](db))
    pts = [F(2), F(-1), F(1, 2), F(3)]
    ops = [("+", lambda: A + B, lambda a, b: a + b), ("-", lambda: A - B, lambda a, b: a - b),
           ("*", lambda: A * B, lambda a, b: a * b), ("**", lambda: A ** n, lambda a, b: a ** n),
           ("c-A", lambda: 5 - A, lambda a, b: 5 - a), ("c*A", lambda: 3 * A, lambda a, b: 3 * a),
           ("A*c", lambda: A * 3, lambda a, b: a * 3), ("-A", lambda: -A, lambda a, b: -a),
           ("A+c", lambda: A + 2, lambda a, b: a + 2)]
    for name, f, g in ops:
        ctx.case(None)
        ctx.count("poly_ops")
        ctx.count("polyop:" + name)
        try:
            R = f()
        except Exception as ex:  # noqa: BLE001
            ctx.fail("C19.poly", case, f"raised:{name}:{type(ex).__name__}",
                     f"polynomials {da} {name} {db} raised {type(ex).__name__}: {ex}")
            continue
        for xv in pts:
            want = g(pval(da, xv), pval(db, xv))
            got = refsem.outcome(lambda: peval_lib(R, xv))
            if got != ("v", want) and not (got[0] == "v" and got[1] == want):
                ctx.fail("C19.poly", case, f"homomorphism:{name}",
                         f"value of ({da}) {name} ({db}){' n=' + str(n) if name == '**' else ''} at "
                         f"x={xv}: result polynomial {getattr(R, 'data', R)} evaluates to {short(got)}, "
                         f"the operation on the values gives {want}")
                break
        if isinstance(R, Polynomial):
            exps = [e for e, _ in R.data]
            if exps != sorted(set(exps)) or any(c == 0 for _, c in R.data):
                ctx.fail("C19.poly", case, f"normal-form:{name}",
                         f"({da}) {name} ({db}) = {R.data}: exponents not strictly increasing / zero "
                         f"coefficient kept")
    # accumulation: total = 0; total += A; total += B ... -- augmented assignment rebinds the
    # name; the polynomials that were added (0 + A IS A) are what they were
    a_data, b_data = A.data, B.data
    import operator as _o
    for nm, aug, plain in (("+=", _o.iadd, lambda u, v: u + v), ("-=", _o.isub, lambda u, v: u - v),
                           ("*=", _o.imul, lambda u, v: u * v)):
        ctx.count("poly_augmented")
        try:
            total = 0 if nm != "*=" else 1
            total = aug(total, A)
            step1 = total
            total = aug(total, B)
            alias = A + 0
            alias = aug(alias, B)
        except Exception as ex:  # noqa: BLE001
            ctx.fail("C19.poly", case, f"raised:{nm}:{type(ex).__name__}", f"{da} {nm} {db}: {ex}")
            continue
        if A.data != a_data or B.data != b_data:
            ctx.fail("C19.poly", case, f"operand-changed:{nm}",
                     f"total = {0 if nm != '*=' else 1}; total {nm} A; total {nm} B with A = {a_data}, "
                     f"B = {b_data}: afterwards A holds {A.data}, B holds {B.data}")
            A = Polynomial(X, a_data)
            B = Polynomial(X, b_data)
            continue
        for xv in pts[:2]:
            t0 = 0 if nm != "*=" else 1
            want = plain(plain(t0, pval(da, xv)), pval(db, xv))
            got = refsem.outcome(lambda: peval_lib(total, xv))
            if got[0] != "v" or got[1] != want:
                ctx.fail("C19.poly", case, f"accumulated-value:{nm}",
                         f"accumulating {da} and {db} with {nm}: value at {xv} is {short(got)}, "
                         f"expected {want}")
                break
    # quotient with remainder: a == q*b + r as functions
    if db:
        ctx.case(None)
        ctx.count("poly_divmod")
        try:
            Q, R = divmod(A, B)
        except ZeroDivisionError:
            Q = None
        except Exception as ex:  # noqa: BLE001
            ctx.fail("C19.poly", case, f"raised:divmod:{type(ex).__name__}",
                     f"divmod({da}, {db}) raised {type(ex).__name__}: {ex}")
            Q = None
        if Q is not None:
            for xv in pts:
                lhs = pval(da, xv)
                rhs = refsem.outcome(lambda: peval_lib(Q, xv) * pval(db, xv) + peval_lib(R, xv))
                if rhs[0] != "v" or rhs[1] != lhs:
                    ctx.fail("C19.poly", case, "divmod-identity",
                             f"divmod({da}, {db}) = ({getattr(Q, 'data', Q)}, {getattr(R, 'data', R)}): "
                             f"q*b + r at x={xv} is {short(rhs)}, a is {lhs}")
                    break
            # the operator spellings of the same operation: //, % (and / when it divides)
            for nm, f, ref_ in (("//", lambda: A // B, Q), ("%", lambda: A % B, R)):
                ctx.count("poly_divmod_spellings")
                try:
                    alt = f()
                except Exception as ex:  # noqa: BLE001
                    ctx.fail("C19.poly", case, f"raised:{nm}:{type(ex).__name__}",
                             f"({da}) {nm} ({db}) raised {type(ex).__name__}: {ex}; divmod works")
                    continue
                if getattr(alt, "data", alt) != getattr(ref_, "data", ref_):
                    ctx.fail("C19.poly", case, f"divmod-spelling:{nm}",
                             f"({da}) {nm} ({db}) = {getattr(alt, 'data', alt)} but divmod gives "
                             f"{getattr(ref_, 'data', ref_)}")
            if isinstance(R, Polynomial) and R.degree == -1:
                try:
                    alt = A / B
                    if getattr(alt, "data", alt) != getattr(Q, "data", Q):
                        ctx.fail("C19.poly", case, "divmod-spelling:/",
                                 f"({da}) / ({db}) = {getattr(alt, 'data', alt)}, divmod quotient "
                                 f"{getattr(Q, 'data', Q)}")
                except Exception as ex:  # noqa: BLE001
                    ctx.fail("C19.poly", case, f"raised:/:{type(ex).__name__}",
                             f"({da}) / ({db}) raised {type(ex).__name__}: {ex} although the "
                             f"remainder is zero")
            _, _, exact = pdivmod(to_dense(A), to_dense(B))
            if exact and isinstance(R, Polynomial) and R.degree >= B.degree:
                ctx.fail("C19.poly", case, "divmod-degree",
                         f"divmod({da}, {db}): remainder {R.data} has degree >= divisor although every "
                         f"division step is exact")
    # after a mapper has rewritten the coefficients
    u = p.Variable("u")
    if any(isinstance(c, F) for _, c in da):
        return      # expressions do not multiply with Fractions
    S = Polynomial(X, tuple((e, (c * u if i % 2 == 0 else c)) for i, (e, c) in enumerate(da)))
    ctx.case(None)
    ctx.count("poly_mapped")
    try:
        M = CoeffRewriter()(S)
    except Exception as ex:  # noqa: BLE001
        ctx.fail("C19.poly", case, f"raised:mapper:{type(ex).__name__}", f"mapping {S.data} raised {ex}")
        return
    for xv in pts:
        want = sum((c * 3 if i % 2 == 0 else c) * xv ** e for i, (e, c) in enumerate(da))
        # the evaluator does not evaluate symbolic coefficients: take the structure and
        # evaluate each coefficient independently
        got = refsem.outcome(lambda: sum(refsem.ev(c, {}) * xv ** e for e, c in M.data)
                             if isinstance(M, Polynomial) else M)
        if got[0] != "v" or got[1] != want:
            ctx.fail("C19.poly", case, "mapped-coefficients",
                     f"polynomial {S.data} after rewriting u->3 is {getattr(M, 'data', M)}; at x={xv} "
                     f"it evaluates to {short(got)}, expected {want}")
            break
    _mapped_variants(ctx, case, da, pts)


class CoeffSetter(IdentityMapper):
    def __init__(self, value):
        self.value = value

    def map_variable(self, e):
        return self.value if e.name == "u" else e


class CoeffSetterArgs(IdentityMapper):
    """the value arrives as an extra traversal argument: positionally or by keyword"""

    def map_variable(self, e, value=None, *, by=None):
        v = value if by is None else by
        return v if e.name == "u" else e


def _mapped_variants(ctx, case, da, pts):
    """rewrites that change only SOME coefficients -- the highest, the lowest, one in the middle
    -- to 0 (the term vanishes), 1 or 5; the mapped polynomial must evaluate like the polynomial
    with that coefficient replaced, and so must its sum and product with 1 + x"""
    u = p.Variable("u")
    if len(da) < 2:
        return
    one_plus_x = Polynomial(X, ((0, 1), (1, 1)))
    for which in sorted({0, len(da) - 1, len(da) // 2}):
        for val in (0, 1, 5):
            S = Polynomial(X, tuple((e, (c * u if i == which else c)) for i, (e, c) in enumerate(da)))
            ctx.case(None)
            ctx.count("poly_mapped_partial")
            try:
                M = CoeffSetter(val)(S)
                derived = [("itself", M), ("+ (1+x)", M + one_plus_x), ("* (1+x)", M * one_plus_x)]
                # ... the same rewrite with the value handed down as a traversal argument
                for how, Ma in (("positional argument", CoeffSetterArgs()(S, val)),
                                ("keyword argument", CoeffSetterArgs()(S, by=val)),
                                ("both", CoeffSetterArgs()(S, 99, by=val))):
                    ctx.count("poly_mapped_with_arguments")
                    if not (isinstance(Ma, Polynomial) == isinstance(M, Polynomial)
                            and getattr(Ma, "data", Ma) == getattr(M, "data", M)):
                        ctx.fail("C19.poly", case, f"mapped-coefficients:{how.split()[0]}",
                                 f"polynomial {S.data}: rewriting u->{val} with the value passed as "
                                 f"{how} gives {getattr(Ma, 'data', Ma)}; with the value held by the "
                                 f"mapper: {getattr(M, 'data', M)}")
                        return
            except Exception as ex:  # noqa: BLE001
                ctx.fail("C19.poly", case, f"raised:mapper:{type(ex).__name__}",
                         f"mapping {S.data} with u->{val} raised {type(ex).__name__}: {ex}")
                return
            for xv in pts:
                base = sum((c * val if i == which else c) * xv ** e for i, (e, c) in enumerate(da))
                for (tag, obj), want in zip(derived, (base, base + 1 + xv, base * (1 + xv))):
                    got = refsem.outcome(lambda: sum(refsem.ev(c, {}) * xv ** e for e, c in obj.data)
                                         if isinstance(obj, Polynomial) else obj)
                    if got[0] != "v" or got[1] != want:
                        ctx.fail("C19.poly", case, "mapped-coefficients",
                                 f"polynomial {S.data} after rewriting u->{val} (coefficient #{which} "
                                 f"only) is {getattr(M, 'data', M)}; {tag} at x={xv} evaluates to "
                                 f"{short(got)}, expected {want}")
                        return


class CoeffKindChanger(IdentityMapper):
    """rewrites every numeric coefficient into an EQUAL number of another kind"""

    def map_constant(self, c):
        return _other_kind(c)


def _other_kind(c):
    import numpy as np
    if isinstance(c, (bool, np.bool_)):
        return int(c)
    if isinstance(c, float):
        return int(c) if c.is_integer() else c
    if isinstance(c, int):
        return float(c) if abs(c) < 2**53 else c
    if isinstance(c, (np.integer,)):
        return int(c)
    if isinstance(c, np.floating):
        return float(c)
    return c


@check("C19.polykinds")
def c_polykinds(ctx, case):
    """'... also after a mapper has rewritten their coefficients': a rewrite that changes the
    KIND of a coefficient and not its value (2.0**53 -> 2**53, True -> 1, np.int64(3) -> 3) is
    a rewrite -- the polynomial that comes back holds the new coefficients and evaluates with
    their arithmetic (2**53 + x at x = 1 is 2**53 + 1 exactly, which no double holds)."""
    (coeffs,) = case
    import numpy as np
    S = Polynomial(X, tuple((e, c) for e, c in enumerate(coeffs)))
    ctx.case(None)
    ctx.count("poly_kind_rewrites")
    try:
        M = CoeffKindChanger()(S)
    except Exception as ex:  # noqa: BLE001
        ctx.fail("C19.polykinds", case, f"raised:{type(ex).__name__}",
                 f"rewriting the coefficients of {S.data} raised {type(ex).__name__}: {ex}")
        return
    want = [_other_kind(c) for c in coeffs]
    got = [c for _, c in getattr(M, "data", ())]
    same = len(got) == len(want) and all(type(a) is type(b) and a == b for a, b in zip(got, want))
    if not same:
        ctx.fail("C19.polykinds", case, "kind-rewrite-dropped",
                 f"a mapper rewrote the coefficients {coeffs!r} to {want!r}; the polynomial that "
                 f"came back holds {got!r}")
        return
    for xv in (1, F(1, 3), 3):
        w = sum(c * xv ** e for e, c in enumerate(want))
        g = refsem.outcome(lambda: peval_lib(M, xv))
        inexact = any(isinstance(c, float) for c in want)     # (summation order rounds)
        if g[0] != "v" or (not refsem.values_equal(g[1], w) if inexact
                           else (g[1] != w or type(g[1]) is not type(w))):
            ctx.fail("C19.polykinds", case, "value-after-kind-rewrite",
                     f"polynomial with coefficients {want!r} (after the rewrite) at x={xv}: "
                     f"{short(g)} instead of {w!r}")
            return


@check("C19.bigpoly")
def c_bigpoly(ctx, case):
    """Products / powers of polynomials with THOUSANDS of term pairs, most of which cancel:
    coefficient-for-coefficient equal to an independent dense convolution, zero coefficients
    dropped, exponents strictly increasing."""
    kind, n, seed = case
    rng = ctx.sub_rng("bigpoly", seed)
    if kind == "geometric":         # (1 + x + ... + x**n) * (1 - x) == 1 - x**(n+1)
        da = [1] * (n + 1)
        db = [1, -1]
    elif kind == "binomial":        # (x + 1)**n * (x - 1)**n == (x**2 - 1)**n
        da, db = [1], [1]
        for _ in range(n):
            da = _conv(da, [1, 1])
            db = _conv(db, [-1, 1])
    else:                           # dense random, mixed signs, many cancellations
        da = [rng.choice([1, -1, 2, 0, -2, 3]) for _ in range(n)] + [1]
        db = [rng.choice([1, -1, 1, 0, -1]) for _ in range(n)] + [rng.choice([1, -1])]
    want = _conv(da, db)
    A = Polynomial(X, tuple((e, c) for e, c in enumerate(da) if c != 0))
    B = Polynomial(X, tuple((e, c) for e, c in enumerate(db) if c != 0))
    ctx.case(None)
    ctx.count("big_polynomial_products")
    ctx.count("big_polynomial_term_pairs", len(A.data) * len(B.data))
    for nm, f in (("A*B", lambda: A * B), ("B*A", lambda: B * A)):
        try:
            R = f()
        except Exception as ex:  # noqa: BLE001
            ctx.fail("C19.bigpoly", case, f"raised:{type(ex).__name__}",
                     f"{kind} n={n}: {nm} raised {type(ex).__name__}: {ex}")
            continue
        got = dict(getattr(R, "data", ((0, R),)))
        exps = [e for e, _ in getattr(R, "data", ())]
        wantd = {e: c for e, c in enumerate(want) if c != 0}
        if got != wantd or exps != sorted(set(exps)):
            bad = sorted(set(got.items()) ^ set(wantd.items()))[:4]
            ctx.fail("C19.bigpoly", case, f"product:{kind}",
                     f"{kind} n={n} ({len(A.data)} x {len(B.data)} term pairs): {nm} differs from "
                     f"the dense convolution in {len(set(got.items()) ^ set(wantd.items()))} "
                     f"(exponent, coefficient) entries, e.g. {bad}")


def _conv(a, b):
    out = [0] * (len(a) + len(b) - 1)
    for i, x in enumerate(a):
        if x:
            for j, y in enumerate(b):
                out[i + j] += x * y
    return out


@check("C19.quotient")
def c_quotient(ctx, case):
    n, d = case
    ctx.case(None)
    ctx.count("quotient_nodes")
    try:
        node = pymbolic.quotient(n, d)
        got = EvaluationMapper({})(node)
    except Exception as ex:  # noqa: BLE001
        ctx.fail("C19.quotient", case, f"raised:{type(ex).__name__}",
                 f"quotient({n}, {d}) / its evaluation raised {type(ex).__name__}: {ex}")
        return
    if got != n / d:
        ctx.fail("C19.quotient", case, "value",
                 f"quotient({n}, {d}) = {node!r} evaluates to {got!r}, n/d = {n/d!r}")
        return
    # EXACT: what the node holds is the rational n/d itself, not a rounded image of it
    num, den = getattr(node, "numerator", node), getattr(node, "denominator", 1)
    try:
        exact = F(num) / F(den) == F(n, d) and not isinstance(num, float) and not isinstance(den, float)
    except (TypeError, ValueError):
        exact = False
    if not exact:
        ctx.fail("C19.quotient", case, "not-exact",
                 f"quotient({n}, {d}) = {node!r} holds {num!r} / {den!r}, which is not the exact "
                 f"rational {F(n, d)}")


def workload(ctx):
    rng = ctx.rng
    # integer_power
    nmax = ctx.pick(64, 200)
    for name, xf, onef in monoids(rng):
        for n in list(range(0, nmax + 1)) + [-1, -2, -17]:
            if name in ("polynomial", "multivector", "word") and n > 40:
                continue
            if not ctx.mine("power"):
                continue
            x = xf()
            ctx.case(("power", name, keyof(x), n), n >= 2, n=0)
            ctx.run("C19.power", (name, x, onef, n))
    ctx.set_exhaustive("integer_power: every exponent in range per monoid")
    ctx.sample("integer_power", "Mat2(1, 2, -1, 0) ** 37 with one=identity; Polynomial(1 + 2x) ** 0")
    # Euclid on integers
    R = range(-40, 41)
    for q in R:
        for r in R:
            if ctx.mine("euclid"):
                ctx.case(("euclid", q, r), q != 0 or r != 0, n=0)
                ctx.run("C19.euclid", (q, r))
    ctx.set_exhaustive("extended_euclidean over [-40,40]^2")
    # depth: the pairs with the LONGEST remainder sequences (consecutive Fibonacci numbers:
    # one division step per index), 10 .. 5000 steps, any order, sign and common multiple
    fib = [0, 1]
    while len(fib) < 5002:
        fib.append(fib[-1] + fib[-2])
    for n in (10, 90, 300, 700, 990, 1000, 1100, 1200, 2500, 5000):
        for q, r in ((fib[n], fib[n + 1]), (fib[n + 1], fib[n]), (-fib[n + 1], fib[n]),
                     (6 * fib[n], 6 * fib[n + 1]), (fib[n + 1] * fib[7], -fib[n] * fib[7])):
            if ctx.mine("euclid-long"):
                ctx.case(("euclid-fib", n, q > r, q < 0), True, n=0)
                ctx.count("euclid_long_remainder_sequences")
                ctx.run("C19.euclid", (q, r))
    for _ in range(ctx.per_shard(ctx.pick(400, 8000))):
        g = rng.randint(1, 2 ** 70)
        q, r = g * rng.randint(-2 ** 40, 2 ** 40), g * rng.randint(-2 ** 40, 2 ** 40)
        ctx.case(("euclid", q, r), True, n=0)
        ctx.run("C19.euclid", (q, r))
    # polynomial Euclid
    for i in range(ctx.per_shard(ctx.pick(400, 8000))):
        mon = lambda k: [rng.randint(-3, 3) for _ in range(k)] + [1]  # noqa: E731
        d = mon(rng.randint(0, 2))
        if rng.random() < 0.6:      # chains that stay exact: products of monic linear factors
            roots = [rng.randint(-3, 3) for _ in range(rng.randint(1, 3))]
            a = d
            for rt in roots:
                a = pmul(a, [-rt, 1])
            b = pmul(d, [-rng.choice(roots), 1]) if rng.random() < 0.5 else d
        else:
            a = pmul(d, [rng.randint(-3, 3) for _ in range(rng.randint(1, 3))] + [rng.randint(1, 3)])
            b = pmul(d, [rng.randint(-3, 3) for _ in range(rng.randint(1, 2))] + [rng.randint(1, 3)])
        a, b = pnorm(a), pnorm(b)
        if not a or not b:
            continue
        ctx.case(("polyeuclid", tuple(a), tuple(b)), True, n=0)
        if i < 2:
            ctx.sample("polynomial-euclid", f"q={a} r={b} (coefficients, low degree first)")
        ctx.run("C19.polyeuclid", (tuple(a), tuple(b)))
    # FFT
    lengths = list(range(1, 65)) + [100, 127, 128, 210] + ([1000, 243, 343] if ctx.thorough else [])
    for n in lengths:
        for sign in (1, -1):
            if ctx.mine("fft"):
                ctx.case(("fft", n, sign), n >= 2, n=0)
                ctx.run("C19.fft", (n, sign, ctx.seed))
    ctx.set_exhaustive("fft lengths 1..64")
    for n in lengths:
        if ctx.mine("fftreal"):
            ctx.case(("fftreal", n), n >= 2, n=0)
            ctx.run("C19.fftreal", (n, ctx.seed))
    for n in list(range(1, ctx.pick(13, 33))) + [25]:
        for sign in (1, -1):
            if ctx.mine("symfft"):
                ctx.case(("symfft", n, sign), n >= 2, n=0)
                ctx.run("C19.symfft", (n, sign, ctx.seed))
    # polynomials
    special = [(((0, 1), (1, 1), (2, 1)), ((0, 1), (1, -1), (2, 1))),
               (((1, 1), (2, 1), (3, 1)), ((1, 1), (2, -1), (3, 1))),
               (((0, 1), (1, 1)), ((0, -1), (1, 1))), (((0, 2), (3, 1)), ((0, -2), (3, 1)))]
    for k, (da, db) in enumerate(special):
        if ctx.mine("polyspecial"):
            ctx.case(("poly", da, db), True, n=0)
            ctx.run("C19.poly", (da, db, 2))
            ctx.run("C19.polyself", (da,))
            ctx.run("C19.polyself", (db,))
    for i in range(ctx.per_shard(ctx.pick(200, 4000))):
        r2 = ctx.sub_rng("polyself", i)
        da = rand_poly(r2, 4, r2.random() < 0.5)
        ctx.case(("polyself", da), bool(da), n=0)
        ctx.run("C19.polyself", (da,))
    for i in range(ctx.per_shard(ctx.pick(1500, 30000))):
        frac = rng.random() < 0.3
        da, db = rand_poly(rng, 4, frac), rand_poly(rng, 3, frac)
        if rng.random() < 0.3 and da:       # cancelling middle terms: (s + t)(s - t) shapes
            db = tuple((e, (-c if j % 2 else c)) for j, (e, c) in enumerate(da))
        ctx.case(("poly", da, db), bool(da) and da[-1][0] >= 1, n=0)
        if i < 2:
            ctx.sample("polynomial-pair", f"{da} and {db} as ((exponent, coefficient), ...)")
        ctx.run("C19.poly", (da, db, rng.randint(0, 4)))
    for kind, ns in (("geometric", [10, 100, 2100, 4097, 5000]), ("binomial", [8, 33, 64, 70]),
                     ("random", [20, 63, 64, 65, 90, 130])):
        for n in ns:
            if ctx.mine("bigpoly"):
                ctx.case(("bigpoly", kind, n), True, n=0)
                ctx.run("C19.bigpoly", (kind, n, rng.randrange(10**6)))
    import numpy as np
    kpool = [2.0**53, 2.0, 1.0, -3.0, 0.5, True, False, np.int64(3), np.int32(-2), np.float64(4.0),
             np.float32(0.5), np.bool_(True), 7, -1, 2**53 + 1, 1.5]
    for i in range(ctx.per_shard(ctx.pick(200, 4000))):
        coeffs = tuple(rng.choice(kpool) for _ in range(rng.randint(1, 4)))
        ctx.case(("polykinds", repr(coeffs)), True, n=0)
        ctx.run("C19.polykinds", (coeffs,))
    # quotient node
    for i in range(ctx.per_shard(ctx.pick(3000, 60000))):
        hi = rng.choice([10, 1000, 2 ** 53 - 1, 2 ** 62, 2 ** 90])
        n, d = rng.randint(-hi, hi), rng.randint(-hi, hi)
        if d == 0:
            continue
        ctx.case(("quot", n, d), True, n=0)
        ctx.run("C19.quotient", (n, d))
    ctx.floor("power_calls", 300)
    ctx.floor("negative_refused", 10)
    ctx.floor("euclid_int", 6000)
    ctx.floor("euclid_poly_exact", 100)
    ctx.floor("fft_calls", 120)
    ctx.floor("symfft_calls", 20)
    ctx.floor("poly_ops", 5000)
    ctx.floor("poly_augmented", 3000)
    ctx.floor("poly_kind_rewrites", 150)
    ctx.floor("poly_divmod_spellings", 1000)
    ctx.floor("poly_same_object_ops", 500)
    ctx.floor("failed_transforms_before_the_judged_one", 100)
    ctx.floor("euclid_long_remainder_sequences", 40)
    ctx.floor("poly_mapped_with_arguments", 1000)
    ctx.floor("real_input_transforms", 200)
    ctx.floor("big_polynomial_term_pairs", 50000)
    ctx.floor("poly_mapped", 1000)
    ctx.floor("quotient_nodes", 2000)


RULE = RULE + '  Later additions: Fibonacci pairs up to 5000 division steps; real input without complex_dtype; one polynomial as both operands; coefficient rewrites with the value as a traversal argument; failed transforms before every judged one.'
