"""C20 — statement-stream utilities keep programs well-formed."""
from __future__ import annotations

import itertools
import re

import pymbolic.primitives as p
from pymbolic.imperative.statement import (
    Assignment, ConditionalAssignment, Nop, Statement)
from pymbolic.imperative.transform import (
    disambiguate_and_fuse, disambiguate_identifiers, fuse_statement_streams_with_unique_ids)
from pymbolic.imperative.utils import get_dot_dependency_graph

from ..core import check, short
from ..gen import expr as G
from ..gen import scale
from ..ref import normal
from .c08 import refsub

RULE = ("pairs of statement streams of 0-8 statements (assignments to variables and subscripts, "
        "conditional assignments, no-ops) with deliberately clashing ids and identifiers and acyclic "
        "dependency graphs; fusion repeated on already fused streams (histories up to depth 3); all "
        "filters over the clashing names; read/written sets against an independent scan (sandwich "
        "must <= reported <= may); dot export parsed back and compared with an independent "
        "transitive reduction over random DAGs, long chains with shortcuts in forward / reversed / "
        "shuffled listing order, and (thorough) ALL DAGs on <= 5 nodes.  distinct = typed key of the "
        "streams / the edge set and order; non-trivial = >=2 statements.")
ASSUMPTIONS = [
    "ids are unique within each input stream and dependencies of stream-b statements stay inside "
    "stream b (the functions' evident precondition)",
    "whether the assigned name and call function names count as 'read'/'identifiers' is not fixed: "
    "the read set is accepted between must (rhs, condition, lhs indices) and may (+ assigned name, "
    "+ function names); a function name shared by both streams may be renamed or left alone, "
    "consistently",
]

NAMES = list("abcdxyzij")


def rexpr(rng, d=2, names=NAMES):
    if d <= 0 or rng.random() < 0.3:
        if rng.random() < 0.15:     # numbers that are == across kinds: renaming keeps each as it is
            import numpy as np
            return rng.choice([1, 1.0, True, 2, 2.0, np.int64(2), 0, 0.0, False, 4, 4.0, np.float64(4.0)])
        return rng.choice([p.Variable(rng.choice(names)), rng.randint(0, 5)])
    k = rng.choice(["sum", "prod", "sub", "call", "cmp", "if", "quot"])
    g = lambda: rexpr(rng, d - 1, names)  # noqa: E731
    if k == "sum":
        return p.Sum((g(), g()))
    if k == "prod":
        return p.Product((g(), g()))
    if k == "quot":
        return p.Quotient(g(), g())
    if k == "sub":
        return p.Subscript(p.Variable(rng.choice(names)), g())
    if k == "call":
        # function names are not "identifiers" for these utilities (dependency mapper with
        # include_calls="descend_args"): keep them out of the fresh-name pattern x_0, x_1
        return p.Call(p.Variable(rng.choice(["f", "g", rng.choice([n for n in names if "_" not in n])])),
                      (g(),))
    if k == "cmp":
        return p.Comparison(g(), "<", g())
    return p.If(p.Comparison(g(), "<", g()), g(), g())


def rstream(rng, n, idpool, names=NAMES):
    ids = rng.sample(idpool, n)
    stmts = []
    for i, sid in enumerate(ids):
        deps = frozenset(rng.sample(ids[:i], rng.randint(0, min(i, 2)))) if i else frozenset()
        u = rng.random()
        lhs = p.Variable(rng.choice(names)) if rng.random() < 0.6 else \
            p.Subscript(p.Variable(rng.choice(names)), rexpr(rng, 1, names))
        if u < 0.55:
            s = Assignment(lhs=lhs, rhs=rexpr(rng, 2, names), id=sid, depends_on=deps)
        elif u < 0.85:
            s = ConditionalAssignment(lhs=lhs, rhs=rexpr(rng, 2, names), id=sid, depends_on=deps,
                                      condition=p.Comparison(rexpr(rng, 1, names), "<",
                                                             rexpr(rng, 1, names)))
        else:
            s = Nop(id=sid, depends_on=deps)
        stmts.append(s)
    if rng.random() < 0.5:
        rng.shuffle(stmts)
    return stmts


def to_spec(s):
    """picklable description of a statement (Statement records do not unpickle)"""
    return (type(s).__name__, s.id, tuple(sorted(s.depends_on)), getattr(s, "lhs", None),
            getattr(s, "rhs", None), getattr(s, "condition", None))


def from_spec(t):
    if not isinstance(t, tuple):
        return t
    kind, sid, deps, lhs, rhs, cond = t
    if kind == "Nop":
        return Nop(id=sid, depends_on=frozenset(deps))
    if kind == "ConditionalAssignment":
        return ConditionalAssignment(lhs=lhs, rhs=rhs, id=sid, depends_on=frozenset(deps),
                                     condition=cond)
    return Assignment(lhs=lhs, rhs=rhs, id=sid, depends_on=frozenset(deps))


def skey(s):
    return (type(s).__name__, s.id, tuple(sorted(s.depends_on)),
            normal.typed_key(getattr(s, "lhs", None)), normal.typed_key(getattr(s, "rhs", None)),
            normal.typed_key(getattr(s, "condition", None)))


def sstr(s):
    return f"{s.id}: {s} deps={sorted(s.depends_on)}"


# {{{ independent scans

def scan(stmt):
    """(must_read, may_read, written, function_names)"""
    def vars_of(e, fn_names):
        out = set()
        for x in G.walk(e):
            if isinstance(x, p.Variable):
                out.add(x.name)
        for x in G.walk(e):
            if isinstance(x, (p.Call, p.CallWithKwargs)) and isinstance(x.function, p.Variable):
                fn_names.add(x.function.name)
        return out
    fns = set()
    must, written = set(), set()
    if isinstance(stmt, Assignment):
        nonfn = lambda e: _vars_no_fn(e)  # noqa: E731
        must |= nonfn(stmt.rhs)
        if isinstance(stmt.lhs, p.Subscript):
            written.add(stmt.lhs.aggregate.name)
            must |= nonfn(stmt.lhs.index)
        else:
            written.add(stmt.lhs.name)
        vars_of(stmt.rhs, fns)
        vars_of(stmt.lhs, fns)
    cond = getattr(stmt, "condition", None)
    if cond is not None and cond is not True:
        must |= _vars_no_fn(cond)
        vars_of(cond, fns)
    may = must | written | fns
    return must, may, written, fns


def _vars_no_fn(e):
    """variables except those occurring only as the function of a call"""
    out = set()

    def rec(x):
        if isinstance(x, p.Variable):
            out.add(x.name)
        elif isinstance(x, (p.Call, p.CallWithKwargs)):
            if not isinstance(x.function, p.Variable):
                rec(x.function)
            for c in x.parameters:
                rec(c)
            for c in getattr(x, "kw_parameters", {}).values():
                rec(c)
        elif isinstance(x, p.Expression):
            for _, v in normal.node_fields(x):
                rec(v)
        elif isinstance(x, (tuple, list)):
            for c in x:
                rec(c)
    rec(e)
    return out


def all_names(stmt):
    out = set()
    for part in ("lhs", "rhs", "condition"):
        e = getattr(stmt, part, None)
        if e is not None and e is not True:
            out |= G.variables_of(e)
    return out

# }}}


@check("C20.rw")
def c_rw(ctx, case):
    (stmt,) = case
    stmt = from_spec(stmt)
    ctx.case(None)
    ctx.count("rw_checks")
    must, may, written, fns = scan(stmt)
    try:
        r, w = set(stmt.get_read_variables()), set(stmt.get_written_variables())
    except Exception as ex:  # noqa: BLE001
        ctx.fail("C20.rw", case, f"raised:{type(ex).__name__}", f"{sstr(stmt)}: {ex}")
        return
    if not (must <= r <= may):
        ctx.fail("C20.rw", case, f"read:{'missing' if not must <= r else 'extra'}:{type(stmt).__name__}",
                 f"{sstr(stmt)}: read set {sorted(r)}; independent scan needs {sorted(must)} and "
                 f"allows at most {sorted(may)}")
    if w != written:
        ctx.fail("C20.rw", case, f"written:{type(stmt).__name__}",
                 f"{sstr(stmt)}: written set {sorted(w)}, scan says {sorted(written)}")


def check_fusion(ctx, case, A, B, fused, mapping, tag):
    ids = [s.id for s in fused]
    if len(set(ids)) != len(ids):
        dup = sorted({i for i in ids if ids.count(i) > 1})
        ctx.fail("C20.fuse", case, f"{tag}:duplicate-ids",
                 f"fused stream has duplicate ids {dup}: a={[s.id for s in A]} b={[s.id for s in B]} "
                 f"mapping={mapping}")
        return False
    if [skey(s) for s in fused[:len(A)]] != [skey(s) for s in A] or \
            any(x is not y for x, y in zip(fused, A)) and \
            [skey(s) for s in fused[:len(A)]] != [skey(s) for s in A]:
        ctx.fail("C20.fuse", case, f"{tag}:first-stream-altered",
                 f"first stream changed by fusion: {[sstr(s) for s in fused[:len(A)]]} vs "
                 f"{[sstr(s) for s in A]}")
        return False
    if len(fused) != len(A) + len(B) or set(mapping) != {s.id for s in B}:
        ctx.fail("C20.fuse", case, f"{tag}:shape",
                 f"fused length {len(fused)} for {len(A)}+{len(B)}; mapping keys {sorted(mapping)} vs "
                 f"b ids {[s.id for s in B]}")
        return False
    for orig, new in zip(B, fused[len(A):]):
        want = (type(orig).__name__, mapping[orig.id],
                tuple(sorted(mapping[d] for d in orig.depends_on)),
                normal.typed_key(getattr(orig, "lhs", None)),
                normal.typed_key(getattr(orig, "rhs", None)),
                normal.typed_key(getattr(orig, "condition", None)))
        if skey(new) != want:
            ctx.fail("C20.fuse", case, f"{tag}:renamed-statement",
                     f"statement {sstr(orig)} of the second stream became {sstr(new)}; mapping "
                     f"{mapping} demands id {mapping[orig.id]} and deps "
                     f"{sorted(mapping[d] for d in orig.depends_on)}")
            return False
    if len(set(mapping.values())) != len(mapping):
        ctx.fail("C20.fuse", case, f"{tag}:mapping-not-injective", f"mapping {mapping}")
        return False
    return True


_STREAM_KINDS = [
    ("list,list", list, list), ("tuple,tuple", tuple, tuple),
    ("list,generator", list, lambda b: (s for s in b)), ("generator,list", lambda a: (s for s in a), list),
    ("iter,iter", iter, iter), ("list,filter", list, lambda b: filter(lambda s: True, b)),
    ("list,list", list, list),
]


@check("C20.fuse")
def c_fuse(ctx, case):
    A, B, depth = case
    A, B = [from_spec(t) for t in A], [from_spec(t) for t in B]
    cur_a, hist = list(A), []
    for k in range(depth):
        ctx.case(None)
        ctx.count("fusions")
        # the streams are handed over as lists, tuples or ONE-SHOT iterables (what a caller
        # filtering or generating statements passes); the judgement uses the lists
        wrap = _STREAM_KINDS[(len(cur_a) + 3 * len(B) + k) % len(_STREAM_KINDS)]
        ctx.count("stream_kind:" + wrap[0])
        try:
            fused, mapping = fuse_statement_streams_with_unique_ids(wrap[1](cur_a), wrap[2](B))
        except Exception as ex:  # noqa: BLE001
            ctx.fail("C20.fuse", case, f"raised:{type(ex).__name__}",
                     f"fusion {k} raised {type(ex).__name__}: {ex}; a={[s.id for s in cur_a]} "
                     f"b={[s.id for s in B]}")
            return
        if not check_fusion(ctx, case, cur_a, B, fused, mapping, f"fusion{k}"):
            return
        # three steps: the stream just returned is extended IN PLACE by the caller (it is the
        # caller's list) and handed back -- the very same object -- as the first stream of the
        # next fusion, whose second stream uses the id that was appended
        if isinstance(fused, list) and all(s_.id != "appended_by_caller" for s_ in fused):
            ctx.count("returned_stream_extended_in_place")
            fused.append(Nop(id="appended_by_caller", depends_on=frozenset(s_.id for s_ in fused[:1])))
            C = [Nop(id="appended_by_caller", depends_on=frozenset()),
                 Nop(id="c_tail", depends_on=frozenset(["appended_by_caller"]))]
            try:
                f3, m3 = fuse_statement_streams_with_unique_ids(fused, C)
            except Exception as ex:  # noqa: BLE001
                ctx.fail("C20.fuse", case, f"raised-after-extension:{type(ex).__name__}", str(ex))
                return
            ok3 = check_fusion(ctx, case, list(fused), C, f3, m3, f"fusion{k}-after-in-place-extension")
            fused.pop()
            if not ok3:
                return
        # the same operation under its earlier (still exported, deprecated) name
        import warnings
        from pymbolic.imperative.transform import fuse_instruction_streams_with_unique_ids
        ctx.count("fusions_through_old_name")
        try:
            with warnings.catch_warnings():
                warnings.simplefilter("ignore")
                fused2, mapping2 = fuse_instruction_streams_with_unique_ids(wrap[1](cur_a), wrap[2](B))
        except Exception as ex:  # noqa: BLE001
            ctx.fail("C20.fuse", case, f"old-name-raised:{type(ex).__name__}",
                     f"fuse_instruction_streams_with_unique_ids raised {type(ex).__name__}: {ex}")
            return
        if not check_fusion(ctx, case, cur_a, B, fused2, mapping2, f"fusion{k}-old-name"):
            return
        hist.append(mapping)
        # history: next round fuses the original b into the already fused stream, or the fused
        # stream into the original a
        if k % 2 == 0:
            cur_a = fused
        else:
            cur_a, B = list(A), fused


@check("C20.disambiguate")
def c_disambiguate(ctx, case):
    A, B, allowed = case
    A, B = [from_spec(t) for t in A], [from_spec(t) for t in B]
    filt = None if allowed is None else (lambda name: name in allowed)
    # ... after a call that FAILED half-way and was caught: the caller's filter raises on the
    # second (and on the first) clash it is asked about, through either entry point
    class _Stop(Exception):
        pass
    for after in (1, 0):
        asked = []

        def raising_filter(name, after=after, asked=asked):
            asked.append(name)
            if len(asked) > after:
                raise _Stop()
            return True
        for fn in (disambiguate_identifiers, disambiguate_and_fuse):
            del asked[:]
            try:
                fn(A, B, raising_filter)
            except _Stop:
                ctx.count("failed_disambiguations_before_the_judged_one")
            except RecursionError:
                raise
            except Exception:  # noqa: BLE001
                pass
    ctx.case(None)
    ctx.count("disambiguations")
    try:
        B2, subst = disambiguate_identifiers(A, B, filt)
    except Exception as ex:  # noqa: BLE001
        ctx.fail("C20.disambiguate", case, f"raised:{type(ex).__name__}",
                 f"disambiguate_identifiers raised {type(ex).__name__}: {ex}")
        return
    names_a = set().union(*[all_names(s) for s in A]) if A else set()
    names_b = set().union(*[all_names(s) for s in B]) if B else set()
    fn_only_a = names_a - set().union(*[scan(s)[1] - scan(s)[3] | scan(s)[0] | scan(s)[2] for s in A]) \
        if A else set()
    fn_only_b = names_b - set().union(*[scan(s)[0] | scan(s)[2] for s in B]) if B else set()
    ident_a = names_a - fn_only_a
    ident_b = names_b - fn_only_b
    must_rename = {n for n in ident_a & ident_b if allowed is None or n in allowed}
    may_rename = {n for n in names_a & names_b if allowed is None or n in allowed}
    renamed = set(subst)
    if not (must_rename <= renamed <= may_rename):
        ctx.fail("C20.disambiguate", case,
                 f"renamed-set:{'missing' if not must_rename <= renamed else 'extra'}",
                 f"renamed {sorted(renamed)}; clashing identifiers that pass the filter: "
                 f"{sorted(must_rename)} (at most {sorted(may_rename)}); a={[sstr(s) for s in A]} "
                 f"b={[sstr(s) for s in B]} filter={allowed}")
        return
    fresh = set()
    for n, v in subst.items():
        if not isinstance(v, p.Variable) or v.name in names_a | names_b or v.name in fresh:
            ctx.fail("C20.disambiguate", case, "not-fresh",
                     f"{n} renamed to {v!r}, which is not a fresh name (used: "
                     f"{sorted(names_a | names_b)})")
            return
        fresh.add(v.name)
    smap = [(k, v) for k, v in subst.items()]
    for orig, new in zip(B, B2):
        want = (type(orig).__name__, orig.id, tuple(sorted(orig.depends_on)),
                normal.typed_key(refsub(getattr(orig, "lhs", None), smap)),
                normal.typed_key(refsub(getattr(orig, "rhs", None), smap)),
                normal.typed_key(refsub(getattr(orig, "condition", None), smap)))
        if skey(new) != want:
            ctx.fail("C20.disambiguate", case, f"statement:{type(orig).__name__}",
                     f"{sstr(orig)} became {sstr(new)} under renaming {subst}: not the consistent "
                     f"renaming of lhs, rhs and condition")
            return
    left = set().union(*[all_names(s) for s in B2]) if B2 else set()
    if left & renamed:
        ctx.fail("C20.disambiguate", case, "survivor",
                 f"renamed identifiers {sorted(left & renamed)} still occur in the second stream")
    ctx.count("identifiers_renamed", len(renamed))
    # the same second stream written with ONE object wherever it has equal sub-expressions (an
    # in-place update u[i] <- u[i] + ... with one u[i] node; a guard shared by statements)
    Bs, nshared = _shared_stream(B)
    if nshared:
        ctx.count("streams_with_shared_nodes")
        try:
            B3, subst3 = disambiguate_identifiers(A, Bs, filt)
            if set(subst3) != renamed or [skey(s_) for s_ in B3] != [
                    (type(o).__name__, o.id, tuple(sorted(o.depends_on)),
                     normal.typed_key(refsub(getattr(o, "lhs", None), list(subst3.items()))),
                     normal.typed_key(refsub(getattr(o, "rhs", None), list(subst3.items()))),
                     normal.typed_key(refsub(getattr(o, "condition", None), list(subst3.items()))))
                    for o in B]:
                ctx.fail("C20.disambiguate", case, "shared-nodes",
                         f"second stream {[sstr(s_) for s_ in B]} written with one object per distinct "
                         f"sub-expression: renamed to {[sstr(s_) for s_ in B3]} under {subst3}; not "
                         f"the consistent renaming")
                return
        except Exception as ex:  # noqa: BLE001
            ctx.fail("C20.disambiguate", case, f"shared-nodes:raised:{type(ex).__name__}", str(ex))
            return
    # attribute look-ups whose ATTRIBUTE NAME spells a clashing identifier (cfg.n next to n):
    # the attribute name is not an identifier and stays
    if names_b:
        nm = sorted(names_b)
        Bl = []
        for k, o in enumerate(B):
            if hasattr(o, "rhs"):
                extra = p.Sum((o.rhs, p.Lookup(p.Variable("zz_cfg"), nm[k % len(nm)]),
                               p.Lookup(p.Lookup(p.Variable(nm[(k + 1) % len(nm)]), nm[k % len(nm)]), "zz_attr")))
                kw = dict(lhs=o.lhs, rhs=extra, id=o.id, depends_on=o.depends_on)
                if isinstance(o, ConditionalAssignment):
                    kw["condition"] = o.condition
                Bl.append(type(o)(**kw))
            else:
                Bl.append(o)
        ctx.count("streams_with_lookups")
        try:
            B4, subst4 = disambiguate_identifiers(A, Bl, filt)
            sm4 = list(subst4.items())
            for o, new in zip(Bl, B4):
                want = (type(o).__name__, o.id, tuple(sorted(o.depends_on)),
                        normal.typed_key(refsub(getattr(o, "lhs", None), sm4)),
                        normal.typed_key(_rename_vars(getattr(o, "rhs", None), subst4)),
                        normal.typed_key(refsub(getattr(o, "condition", None), sm4)))
                if skey(new) != want:
                    ctx.fail("C20.disambiguate", case, f"lookup-attribute:{type(o).__name__}",
                             f"{sstr(o)} became {sstr(new)} under renaming {subst4}: identifiers are "
                             f"renamed, attribute names of look-ups are not identifiers")
                    return
        except Exception as ex:  # noqa: BLE001
            ctx.fail("C20.disambiguate", case, f"lookup-attribute:raised:{type(ex).__name__}", str(ex))
            return
    # the combined entry point must agree with the two steps
    try:
        fused, subst2, idmap = disambiguate_and_fuse(A, B, filt)
        if set(subst2) != renamed:
            ctx.fail("C20.disambiguate", case, "combined-differs",
                     f"disambiguate_and_fuse renamed {sorted(subst2)} vs {sorted(renamed)}")
        else:
            check_fusion(ctx, case, A, disambiguate_identifiers(A, B, filt)[0], fused, idmap, "combined")
    except Exception as ex:  # noqa: BLE001
        ctx.fail("C20.disambiguate", case, f"combined-raised:{type(ex).__name__}", str(ex))


def _rename_vars(e, subst):
    """independent model: Variables renamed by name, everything else (attribute names of
    look-ups included) rebuilt as it is"""
    import dataclasses
    if isinstance(e, p.Variable):
        return subst.get(e.name, e)
    if isinstance(e, tuple):
        return tuple(_rename_vars(c, subst) for c in e)
    if isinstance(e, p.Expression) and dataclasses.is_dataclass(e):
        return type(e)(*[_rename_vars(getattr(e, f.name), subst) for f in dataclasses.fields(e)])
    return e


def _shared_stream(B):
    """the stream with structurally (type-strictly) equal composite sub-expressions represented
    by ONE object, across lhs, rhs, condition and statements; how many places now share"""
    import dataclasses
    seen = {}
    n = [0]

    def intern(e):
        if isinstance(e, tuple):
            return tuple(intern(c) for c in e)
        if not isinstance(e, p.Expression) or not dataclasses.is_dataclass(e):
            return e
        e2 = type(e)(*[intern(getattr(e, f.name)) if isinstance(getattr(e, f.name), (p.Expression, tuple))
                       else getattr(e, f.name) for f in dataclasses.fields(e)])
        k = normal.typed_key(e2)
        if k in seen:
            if not isinstance(e2, p.Variable):
                n[0] += 1
            return seen[k]
        seen[k] = e2
        return e2
    out = []
    for o in B:
        if hasattr(o, "rhs"):
            kw = dict(lhs=intern(o.lhs), rhs=intern(o.rhs), id=o.id, depends_on=o.depends_on)
            if isinstance(o, ConditionalAssignment):
                kw["condition"] = intern(o.condition)
            out.append(type(o)(**kw))
        else:
            out.append(o)
    return out, n[0]


def transitive_reduction(nodes, edges):
    adj = {n: set() for n in nodes}
    for u, v in edges:
        adj.setdefault(u, set()).add(v)
        adj.setdefault(v, set())

    def reach(u, skip):
        seen, stack = set(), [w for w in adj[u] if w != skip]
        while stack:
            x = stack.pop()
            if x in seen:
                continue
            seen.add(x)
            stack.extend(adj[x])
        return seen
    return {(u, v) for u, v in edges if v not in reach(u, v)}


EDGE_RE = re.compile(r"^\s*\"?([A-Za-z0-9_]+)\"?\s*->\s*\"?([A-Za-z0-9_]+)\"?\s*(\[.*\])?;?\s*$")


@check("C20.dot")
def c_dot(ctx, case):
    order, edges = case
    stmts = [Nop(id=n, depends_on=frozenset(v for u, v in edges if u == n)) for n in order]
    ctx.case(None)
    ctx.count("dot_exports")
    try:
        dot = get_dot_dependency_graph(stmts, use_stmt_ids=True)
    except Exception as ex:  # noqa: BLE001
        ctx.fail("C20.dot", case, f"raised:{type(ex).__name__}", str(ex))
        return
    got = set()
    for line in dot.splitlines():
        m = EDGE_RE.match(line)
        if m and "label=" not in line.split("->")[0]:
            got.add((m.group(1), m.group(2)))
    want = transitive_reduction(order, set(edges))
    if got != want:
        ctx.fail("C20.dot", case, f"edges:{'extra' if got - want else ''}{'missing' if want - got else ''}",
                 f"statements listed {order} with dependencies {sorted(edges)}: dot draws "
                 f"{sorted(got)}, transitive reduction is {sorted(want)} (extra {sorted(got - want)}, "
                 f"missing {sorted(want - got)})")
    ctx.count("dot_edges", len(got))


def random_dag(rng, n, dens):
    nodes = [f"s{i}" for i in range(n)]
    edges = [(nodes[j], nodes[i]) for i in range(n) for j in range(i + 1, n) if rng.random() < dens]
    return nodes, edges


def workload(ctx):
    rng = ctx.rng
    idpool = ["init", "upd", "done", "s1", "s2", "s3", "init_0", "upd_0", "done_0", "s1_0",
              "init_1", "k", "k_0", "k_0_0"]
    for i in range(ctx.per_shard(ctx.pick(1500, 30000))):
        A = rstream(rng, rng.randint(0, 6), idpool)
        # hostile naming: stream b already uses the names a fresh-name generator would pick
        B = rstream(rng, rng.randint(0, 6), idpool,
                    names=rng.choice([NAMES, list("abcpq"), ["a", "x", "i", "a_0", "x_0", "i_0", "x_1"]]))
        key = (tuple(skey(s) for s in A), tuple(skey(s) for s in B))
        ctx.case(key, len(A) + len(B) >= 2, n=0)
        if i < 2:
            ctx.sample("stream-pair", {"a": [sstr(s) for s in A], "b": [sstr(s) for s in B]})
        SA, SB = [to_spec(s) for s in A], [to_spec(s) for s in B]
        for s in A + B:
            ctx.run("C20.rw", (to_spec(s),))
            ctx.node(type(s).__name__)
        ctx.run("C20.fuse", (SA, SB, rng.randint(1, 3)))
        if rng.random() < 0.3:
            ctx.run("C20.fuse", (SA, SA, 3))         # self-fusion: every id clashes
        na = set().union(*[all_names(s) for s in A]) if A else set()
        nb = set().union(*[all_names(s) for s in B]) if B else set()
        clash = sorted(na & nb)
        filters = [None, frozenset(), frozenset(clash[:1]), frozenset(clash[1:]),
                   frozenset(rng.sample(clash, len(clash) // 2))] if clash else [None]
        if len(clash) <= 3:
            filters = [None] + [frozenset(c) for r in range(len(clash) + 1)
                                for c in itertools.combinations(clash, r)]
        for f in filters:
            ctx.run("C20.disambiguate", (SA, SB, f))
    # dot export
    for i in range(ctx.per_shard(ctx.pick(1500, 30000))):
        n = rng.randint(1, 8)
        nodes, edges = random_dag(rng, n, rng.choice([0.2, 0.4, 0.7]))
        if rng.random() < 0.4:       # long chain + shortcuts
            n = rng.randint(4, 8)
            nodes = [f"s{k}" for k in range(n)]
            edges = [(nodes[k + 1], nodes[k]) for k in range(n - 1)]
            for _ in range(rng.randint(1, 3)):
                a, b = sorted(rng.sample(range(n), 2))
                if b - a >= 2:
                    edges.append((nodes[b], nodes[a]))
            edges = list(set(edges))
        order = list(nodes)
        mode = rng.choice(["forward", "reversed", "shuffled"])
        if mode == "reversed":
            order.reverse()
        elif mode == "shuffled":
            rng.shuffle(order)
        ctx.case(("dot", tuple(order), tuple(sorted(edges))), len(order) >= 2, n=0)
        ctx.count("dot_order:" + mode)
        if i < 1:
            ctx.sample("dot-graph", {"order": order, "edges": sorted(edges)})
        ctx.run("C20.dot", (order, edges))
    # scale: chains of 9 .. 130 statements with shortcut edges, listed forwards, backwards
    # (dependents first) and shuffled; long streams with many clashing ids
    for n in scale.WIDTHS:
        for mode in ("forward", "reversed", "shuffled"):
            if not ctx.mine("long-dot"):
                continue
            nodes = [f"s{k}" for k in range(n)]
            edges = [(nodes[k + 1], nodes[k]) for k in range(n - 1)]
            edges += [(nodes[n - 1], nodes[0]), (nodes[n // 2], nodes[0]), (nodes[n - 1], nodes[n // 3])]
            for _ in range(rng.randint(0, 4)):
                a, b = sorted(rng.sample(range(n), 2))
                if b - a >= 2:
                    edges.append((nodes[b], nodes[a]))
            edges = sorted(set(edges))
            order = list(nodes)
            if mode == "reversed":
                order.reverse()
            elif mode == "shuffled":
                rng.shuffle(order)
            ctx.case(("dot", tuple(order), tuple(edges)), True, n=0)
            ctx.count("long_chains")
            ctx.run("C20.dot", (order, edges))
        if ctx.mine("long-fuse") and n <= 70:
            longpool = idpool + [f"t{k}" for k in range(90)] + [f"t{k}_0" for k in range(40)]
            A = rstream(rng, n, longpool)
            B = rstream(rng, n // 2 + 1, longpool)
            ctx.count("long_streams")
            ctx.run("C20.fuse", ([to_spec(s_) for s_ in A], [to_spec(s_) for s_ in B], 2))
            ctx.run("C20.disambiguate", ([to_spec(s_) for s_ in A], [to_spec(s_) for s_ in B], None))
    if ctx.thorough:
        for n in range(1, 6):
            nodes = [f"s{k}" for k in range(n)]
            pairs = [(nodes[j], nodes[i]) for i in range(n) for j in range(i + 1, n)]
            for mask in range(2 ** len(pairs)):
                if not ctx.mine("alldags"):
                    continue
                edges = [pr for b, pr in enumerate(pairs) if mask >> b & 1]
                for order in (nodes, nodes[::-1]):
                    ctx.case(("dot", tuple(order), tuple(sorted(edges))), n >= 2, n=0)
                    ctx.run("C20.dot", (list(order), edges))
        ctx.set_exhaustive("all DAGs on <= 5 nodes, forward and reversed listing")
    ctx.floor("streams_with_shared_nodes", 50)
    ctx.floor("failed_disambiguations_before_the_judged_one", 500)
    ctx.floor("streams_with_lookups", 1000)
    ctx.floor("long_chains", 60)
    ctx.floor("returned_stream_extended_in_place", 500)
    ctx.floor("long_streams", 15)
    ctx.floor("fusions_through_old_name", 1500)
    ctx.floor("rw_checks", 3000)
    ctx.floor("fusions", 1500)
    ctx.floor("disambiguations", 2000)
    ctx.floor("identifiers_renamed", 1000)
    ctx.floor("dot_exports", 1000)
    ctx.floor("dot_edges", 2000)


RULE = RULE + '  Later additions: interned second streams; look-ups whose attribute name spells an identifier; failed disambiguations (raising filter) before every judged one.'
