"""Independent table: which parts of each node type are child expressions.

Written from the documented fields of the node classes, not from any mapper.
`children(x)` returns the child *occurrences* of x in a canonical order
(constants included; `None` slice parts and non-expression fields excluded).
"""
from __future__ import annotations

import numpy as np

import pymbolic.primitives as p


def children(x):
    if isinstance(x, p.Expression):
        t = type(x)
        if isinstance(x, (p.Variable, p.Wildcard, p.DotWildcard, p.StarWildcard,
                          p.FunctionSymbol, p.NaN)):
            return []
        if isinstance(x, p.CallWithKwargs):
            return [x.function, *x.parameters, *x.kw_parameters.values()]
        if isinstance(x, p.Call):
            return [x.function, *x.parameters]
        if isinstance(x, p.Subscript):
            return [x.aggregate, x.index]
        if isinstance(x, p.Lookup):
            return [x.aggregate]
        if isinstance(x, (p.Sum, p.Product, p.BitwiseOr, p.BitwiseXor, p.BitwiseAnd,
                          p.LogicalOr, p.LogicalAnd, p.Min, p.Max)):
            return list(x.children)
        if isinstance(x, p.QuotientBase):
            return [x.numerator, x.denominator]
        if isinstance(x, p.Power):
            return [x.base, x.exponent]
        if isinstance(x, (p.LeftShift, p.RightShift)):
            return [x.shiftee, x.shift]
        if isinstance(x, (p.BitwiseNot, p.LogicalNot)):
            return [x.child]
        if isinstance(x, p.Comparison):
            return [x.left, x.right]
        if isinstance(x, p.If):
            return [x.condition, x.then, x.else_]
        if isinstance(x, p.CommonSubexpression):
            return [x.child]
        if isinstance(x, p.Substitution):
            return [x.child, *x.values]
        if isinstance(x, p.Derivative):
            return [x.child]
        if isinstance(x, p.Slice):
            return [c for c in x.children if c is not None]
        from pymbolic.polynomial import Polynomial
        if isinstance(x, Polynomial):
            return [x.base, *[c for _, c in x.data]]
        from pymbolic.rational import Rational
        if isinstance(x, Rational):
            return [x.numerator, x.denominator]
        raise TypeError(f"children: unknown node type {t.__name__}")
    if isinstance(x, (tuple, list)):
        return list(x)
    if isinstance(x, np.ndarray):
        return list(x.flat)
    try:
        from pymbolic.geometric_algebra import MultiVector
        if isinstance(x, MultiVector):
            return list(x.data.values())
    except ImportError:
        pass
    return []


def is_node(x):
    """Things a traversal dispatches on (expressions, containers, scalars)."""
    return True


def occurrences(x):
    """Pre-order list of all node occurrences below and including x."""
    out = []
    stack = [x]
    while stack:
        y = stack.pop()
        out.append(y)
        stack.extend(reversed(children(y)))
    return out
