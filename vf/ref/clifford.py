"""Independent Clifford-algebra reference: blades as sorted index tuples,
product by concatenation + bubble sort (sign flips) + metric contraction.

A multivector is a dict {sorted index tuple: coefficient} without zero
entries.  Diagonal metric given as a list g (g[i] = e_i . e_i).
"""
from __future__ import annotations


def blade_product(a, b, g):
    """(sign*metric factor, resulting blade) of e_a e_b for index tuples a, b."""
    idx = list(a) + list(b)
    sign = 1
    # bubble sort, counting transpositions of distinct anticommuting vectors
    n = len(idx)
    swapped = True
    while swapped:
        swapped = False
        for i in range(n - 1):
            if idx[i] > idx[i + 1]:
                idx[i], idx[i + 1] = idx[i + 1], idx[i]
                sign = -sign
                swapped = True
    out = []
    i = 0
    factor = sign
    while i < len(idx):
        if i + 1 < len(idx) and idx[i] == idx[i + 1]:
            factor = factor * g[idx[i]]
            i += 2
        else:
            out.append(idx[i])
            i += 1
    return factor, tuple(out)


def clean(mv):
    return {k: v for k, v in mv.items() if v != 0}


def add(a, b):
    out = dict(a)
    for k, v in b.items():
        out[k] = out.get(k, 0) + v
    return clean(out)


def scale(c, a):
    return clean({k: c * v for k, v in a.items()})


def gp(a, b, g, select=None):
    """geometric product; select(r, s, t) -> bool keeps only the grade-t part of
    the product of a grade-r and a grade-s blade."""
    out = {}
    for ka, va in a.items():
        for kb, vb in b.items():
            f, k = blade_product(ka, kb, g)
            if f == 0:
                continue
            if select is not None and not select(len(ka), len(kb), len(k)):
                continue
            out[k] = out.get(k, 0) + f * va * vb
    return clean(out)


SELECT = {
    "geometric": None,
    "outer": lambda r, s, t: t == r + s,
    "inner": lambda r, s, t: t == abs(r - s),
    "scalar": lambda r, s, t: t == 0,
    "left_contraction": lambda r, s, t: t == s - r,
    "right_contraction": lambda r, s, t: t == r - s,
}


def product(name, a, b, g):
    return gp(a, b, g, SELECT[name])


def rev(a):
    return clean({k: (v if (len(k) * (len(k) - 1) // 2) % 2 == 0 else -v) for k, v in a.items()})


def invol(a):
    return clean({k: (v if len(k) % 2 == 0 else -v) for k, v in a.items()})


def pseudoscalar(n):
    return {tuple(range(n)): 1}


def dual(a, n, g):
    return product("inner", a, rev(pseudoscalar(n)), g)


def norm_squared(a, g):
    return product("scalar", rev(a), a, g).get((), 0)


def bits_to_blade(bits):
    out, i = [], 0
    while bits:
        if bits & 1:
            out.append(i)
        bits >>= 1
        i += 1
    return tuple(out)


def blade_to_bits(k):
    b = 0
    for i in k:
        b |= 1 << i
    return b


def all_blades(n):
    return [bits_to_blade(b) for b in range(2 ** n)]
