"""Forward-mode automatic differentiation with dual numbers.

Exact over Fraction for + - * / and integer powers; float (math module) for
everything else.  `Kinks` records how close an evaluation came to a
non-differentiable point (|x| of fabs/sign, the two sides of a comparison).
"""
from __future__ import annotations

import math
from fractions import Fraction as F


class Kinks:
    margin = math.inf

    @classmethod
    def reset(cls):
        cls.margin = math.inf

    @classmethod
    def near(cls, d):
        d = abs(float(d))
        if d < cls.margin:
            cls.margin = d


def _is_intlike(v):
    return (isinstance(v, int) and not isinstance(v, bool)) or \
        (isinstance(v, F) and v.denominator == 1)


class D:
    __slots__ = ("v", "d")

    def __init__(self, v, d=0):
        self.v = v
        self.d = d

    @staticmethod
    def lift(x):
        return x if isinstance(x, D) else D(x, 0)

    def __add__(self, o):
        o = D.lift(o)
        return D(self.v + o.v, self.d + o.d)
    __radd__ = __add__

    def __sub__(self, o):
        o = D.lift(o)
        return D(self.v - o.v, self.d - o.d)

    def __rsub__(self, o):
        return D.lift(o) - self

    def __mul__(self, o):
        o = D.lift(o)
        return D(self.v * o.v, self.d * o.v + self.v * o.d)
    __rmul__ = __mul__

    def __truediv__(self, o):
        o = D.lift(o)
        return D(self.v / o.v, (self.d * o.v - self.v * o.d) / (o.v * o.v))

    def __rtruediv__(self, o):
        return D.lift(o) / self

    def __neg__(self):
        return D(-self.v, -self.d)

    def __pos__(self):
        return self

    def __pow__(self, o):
        o = D.lift(o)
        if o.d == 0 and _is_intlike(o.v):
            n = int(o.v)
            if n == 0:
                return D(self.v ** 0, 0 * self.d)
            return D(self.v ** n, n * self.v ** (n - 1) * self.d)
        b, e = float(self.v), float(o.v)
        val = b ** e
        dd = 0.0
        if o.d != 0:
            dd += float(o.d) * math.log(b) * val
        if self.d != 0:
            dd += e * b ** (e - 1) * float(self.d)
        return D(val, dd)

    def __rpow__(self, o):
        return D.lift(o) ** self

    def _cmp(self, o):
        o = D.lift(o)
        Kinks.near(float(self.v) - float(o.v))
        return self.v, o.v

    def __lt__(self, o):
        a, b = self._cmp(o)
        return a < b

    def __le__(self, o):
        a, b = self._cmp(o)
        return a <= b

    def __gt__(self, o):
        a, b = self._cmp(o)
        return a > b

    def __ge__(self, o):
        a, b = self._cmp(o)
        return a >= b

    def __eq__(self, o):
        a, b = self._cmp(o)
        return a == b

    def __ne__(self, o):
        a, b = self._cmp(o)
        return a != b

    __hash__ = None

    def __bool__(self):
        Kinks.near(float(self.v))
        return bool(self.v)

    def __repr__(self):
        return f"D({self.v!r}, {self.d!r})"


def _mk1(f, df):
    def g(x):
        x = D.lift(x)
        xv = float(x.v)
        return D(f(xv), df(xv) * float(x.d) if x.d != 0 else 0.0)
    return g


class DualMath:
    """Stand-in for the `math` module operating on dual numbers."""
    sin = staticmethod(_mk1(math.sin, math.cos))
    cos = staticmethod(_mk1(math.cos, lambda x: -math.sin(x)))
    tan = staticmethod(_mk1(math.tan, lambda x: 1 + math.tan(x) ** 2))
    log = staticmethod(_mk1(math.log, lambda x: 1 / x))
    exp = staticmethod(_mk1(math.exp, math.exp))
    sinh = staticmethod(_mk1(math.sinh, math.cosh))
    cosh = staticmethod(_mk1(math.cosh, math.sinh))
    tanh = staticmethod(_mk1(math.tanh, lambda x: 1 - math.tanh(x) ** 2))
    expm1 = staticmethod(_mk1(math.expm1, math.exp))
    atan = staticmethod(_mk1(math.atan, lambda x: 1 / (1 + x * x)))

    @staticmethod
    def fabs(x):
        x = D.lift(x)
        Kinks.near(x.v)
        s = math.copysign(1.0, float(x.v))
        return D(math.fabs(float(x.v)), s * float(x.d))

    @staticmethod
    def copysign(a, b):
        a, b = D.lift(a), D.lift(b)
        Kinks.near(b.v)
        s = math.copysign(1.0, float(b.v))
        # d/da |a|*s ; piecewise constant in b
        sa = math.copysign(1.0, float(a.v))
        return D(math.copysign(float(a.v), float(b.v)), s * sa * float(a.d))
