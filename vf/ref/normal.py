"""Typed structural keys / equality and AC-normal forms.

Independent of pymbolic's own __eq__/__hash__ and of every mapper: only
isinstance, dataclasses.fields and the legacy init-arg protocol are used.
"""
from __future__ import annotations

import dataclasses
import hashlib
import math
from collections.abc import Mapping

import numpy as np

import pymbolic.primitives as p


def is_expr_dataclass(cls) -> bool:
    return "_is_expr_dataclass" in cls.__dict__ and dataclasses.is_dataclass(cls)


def node_fields(x):
    """[(name, value)] of the structural fields of an Expression instance."""
    cls = type(x)
    if is_expr_dataclass(cls):
        return [(f.name, getattr(x, f.name)) for f in dataclasses.fields(x)]
    # legacy protocol
    try:
        names = tuple(x.init_arg_names)
        vals = tuple(x.__getinitargs__())
    except NotImplementedError:
        if dataclasses.is_dataclass(x):
            return [(f.name, getattr(x, f.name)) for f in dataclasses.fields(x)]
        raise
    if len(names) != len(vals):
        names = tuple(f"arg{i}" for i in range(len(vals)))
    return list(zip(names, vals))


def scalar_key(x):
    if isinstance(x, float) and math.isnan(x):
        return ("float", "nan")
    if isinstance(x, complex) and (math.isnan(x.real) or math.isnan(x.imag)):
        return ("complex", "nan")
    if type(x) is int:
        return ("int", x)       # no decimal conversion: the evaluator builds 10^5-digit ints
    return (type(x).__name__, repr(x))


def typed_key(x):
    """Hashable key; equal keys <=> same classes, same fields, same scalar types."""
    if isinstance(x, p.Expression):
        from pymbolic.polynomial import Polynomial
        if isinstance(x, Polynomial):
            return ("Polynomial", typed_key(x.base),
                    tuple((e, typed_key(c)) for e, c in x.data))
        return (type(x).__module__ + "." + type(x).__qualname__,
                tuple((n, typed_key(v)) for n, v in node_fields(x)))
    if isinstance(x, tuple):
        return ("tuple", tuple(typed_key(c) for c in x))
    if isinstance(x, list):
        return ("list", tuple(typed_key(c) for c in x))
    if isinstance(x, np.ndarray):
        return ("ndarray", x.shape, str(x.dtype),
                tuple(typed_key(c) for c in x.flat))
    if isinstance(x, Mapping):
        return ("map", tuple(sorted((str(k), typed_key(v)) for k, v in x.items())))
    if isinstance(x, (set, frozenset)):
        return ("set", tuple(sorted((typed_key(c) for c in x), key=repr)))
    if x is None:
        return ("None",)
    if isinstance(x, type):
        return ("type", x.__module__ + "." + x.__qualname__)
    try:
        from pymbolic.geometric_algebra import MultiVector
        if isinstance(x, MultiVector):
            return ("MultiVector", x.space.dimensions,
                    tuple(sorted((b, typed_key(c)) for b, c in x.data.items())))
    except ImportError:
        pass
    if isinstance(x, (int, float, complex, str, bytes, bool, np.generic)):
        return scalar_key(x)
    from fractions import Fraction
    if isinstance(x, Fraction):
        return scalar_key(x)
    if callable(x):
        return ("callable", getattr(x, "__qualname__", repr(type(x))))
    return ("obj", type(x).__qualname__, repr(x))


def typed_eq(a, b) -> bool:
    return typed_key(a) == typed_key(b)


def digest(key) -> int:
    return int.from_bytes(
        hashlib.blake2b(repr(key).encode(), digest_size=8).digest(), "big")


def count_ops(x) -> int:
    """Number of Expression nodes that are not leaves (operator nodes)."""
    n = 0
    stack = [x]
    while stack:
        y = stack.pop()
        if isinstance(y, p.Expression):
            if not isinstance(y, (p.Variable, p.Wildcard, p.DotWildcard,
                                  p.StarWildcard, p.FunctionSymbol, p.NaN)):
                n += 1
            try:
                stack.extend(v for _, v in node_fields(y))
            except Exception:
                pass
        elif isinstance(y, (tuple, list)):
            stack.extend(y)
        elif isinstance(y, Mapping):
            stack.extend(y.values())
        elif isinstance(y, np.ndarray):
            stack.extend(y.flat)
    return n


# {{{ structural flattening and AC normal form

def flat_key(x):
    """typed_key modulo flattening of nested Sum-in-Sum / Product-in-Product."""
    if isinstance(x, (p.Sum, p.Product)) and type(x) in (p.Sum, p.Product):
        cls = type(x)
        out = []
        stack = list(reversed(x.children))
        while stack:
            c = stack.pop()
            if type(c) is cls:
                stack.extend(reversed(c.children))
            else:
                out.append(flat_key(c))
        return (cls.__name__ + "~flat", tuple(out))
    if isinstance(x, p.Expression):
        return (type(x).__module__ + "." + type(x).__qualname__,
                tuple((n, flat_key(v)) for n, v in node_fields(x)))
    if isinstance(x, tuple):
        return ("tuple", tuple(flat_key(c) for c in x))
    if isinstance(x, list):
        return ("list", tuple(flat_key(c) for c in x))
    if isinstance(x, Mapping):
        return ("map", tuple(sorted((str(k), flat_key(v)) for k, v in x.items())))
    return typed_key(x)


def ac_key(x, strip_cse=False, untyped_scalars=True):
    """Key modulo associativity+commutativity of Sum/Product, dropping
    neutral elements (0 in sums, 1 in products); scalars by value."""
    if strip_cse:
        while isinstance(x, p.CommonSubexpression):
            x = x.child
    if type(x) in (p.Sum, p.Product):
        cls = type(x)
        neutral = 0 if cls is p.Sum else 1
        out = []
        stack = list(x.children)
        while stack:
            c = stack.pop()
            if strip_cse:
                while isinstance(c, p.CommonSubexpression):
                    c = c.child
            if type(c) is cls:
                stack.extend(c.children)
            elif not isinstance(c, p.Expression) and not isinstance(c, (tuple, list)) \
                    and c == neutral:
                continue
            else:
                out.append(ac_key(c, strip_cse, untyped_scalars))
        out.sort(key=repr)
        if len(out) == 1:
            return out[0]
        return (cls.__name__ + "~ac", tuple(out))
    if isinstance(x, p.Expression):
        return (type(x).__qualname__,
                tuple((n, ac_key(v, strip_cse, untyped_scalars))
                      for n, v in node_fields(x)))
    if isinstance(x, tuple):
        return ("tuple", tuple(ac_key(c, strip_cse, untyped_scalars) for c in x))
    if isinstance(x, list):
        return ("list", tuple(ac_key(c, strip_cse, untyped_scalars) for c in x))
    if isinstance(x, Mapping):
        return ("map", tuple(sorted(
            (str(k), ac_key(v, strip_cse, untyped_scalars)) for k, v in x.items())))
    if untyped_scalars and isinstance(x, (int, float, np.number)) \
            and not isinstance(x, bool):
        try:
            if x == int(x):
                return ("num", repr(int(x)))
        except (ValueError, OverflowError):
            pass
        return ("num", repr(float(x)))
    return typed_key(x)

# }}}
