"""Exact multivariate rational functions over Fraction.

Polynomial: dict {monomial: Fraction}, monomial = tuple of sorted (symbol, exp>0).
Rational function: (num, den) with den != 0; equality by cross-multiplication,
so no gcd computation is needed.  Symbols are variable names; any sub-tree that
is not polynomial arithmetic (calls, subscripts, ...) is an opaque atom keyed
by its typed structural key, with its own children normalised first where
possible.
"""
from __future__ import annotations

from fractions import Fraction as F

import pymbolic.primitives as p

from . import normal


class NotRational(Exception):
    pass


ZERO = {}
ONE = {(): F(1)}


def p_const(c):
    c = F(c)
    return {(): c} if c else {}


def p_var(s):
    return {((s, 1),): F(1)}


def p_add(a, b):
    out = dict(a)
    for m, c in b.items():
        v = out.get(m, 0) + c
        if v:
            out[m] = v
        else:
            out.pop(m, None)
    return out


def p_neg(a):
    return {m: -c for m, c in a.items()}


def _mmul(m1, m2):
    d = dict(m1)
    for s, e in m2:
        d[s] = d.get(s, 0) + e
    return tuple(sorted(d.items()))


def p_mul(a, b):
    out = {}
    for m1, c1 in a.items():
        for m2, c2 in b.items():
            m = _mmul(m1, m2)
            v = out.get(m, 0) + c1 * c2
            if v:
                out[m] = v
            else:
                out.pop(m, None)
    return out


def p_pow(a, n):
    out = ONE
    for _ in range(n):
        out = p_mul(out, a)
    return out


class R:
    """rational function num/den"""
    __slots__ = ("n", "d")

    def __init__(self, n, d=None):
        self.n = n
        self.d = ONE if d is None else d
        if not self.d:
            raise ZeroDivisionError("rational function with zero denominator")

    def __add__(self, o):
        return R(p_add(p_mul(self.n, o.d), p_mul(o.n, self.d)), p_mul(self.d, o.d))

    def __sub__(self, o):
        return self + (-o)

    def __neg__(self):
        return R(p_neg(self.n), self.d)

    def __mul__(self, o):
        return R(p_mul(self.n, o.n), p_mul(self.d, o.d))

    def __truediv__(self, o):
        if not o.n:
            raise ZeroDivisionError("division by the zero function")
        return R(p_mul(self.n, o.d), p_mul(self.d, o.n))

    def __pow__(self, k):
        if k >= 0:
            return R(p_pow(self.n, k), p_pow(self.d, k))
        if not self.n:
            raise ZeroDivisionError("zero to a negative power")
        return R(p_pow(self.d, -k), p_pow(self.n, -k))

    def __eq__(self, o):
        return p_mul(self.n, o.d) == p_mul(o.n, self.d)

    __hash__ = None

    def close(self, o, rel=1e-9):
        """== up to float rounding: the cross products agree coefficient by coefficient within
        rel * (largest coefficient).  For results that contain inexact float constants."""
        a, b = p_mul(self.n, o.d), p_mul(o.n, self.d)
        scale = max([abs(c) for c in a.values()] + [abs(c) for c in b.values()] + [F(0)])
        return all(abs(a.get(m, 0) - b.get(m, 0)) <= rel * scale for m in set(a) | set(b))

    def is_zero(self):
        return not self.n

    def symbols(self):
        out = set()
        for poly in (self.n, self.d):
            for m in poly:
                out |= {s for s, _ in m}
        # a symbol only counts if it does not cancel: compare with the function at s -> s
        return out

    def depends_on(self, sym):
        """exact: does the function depend on *sym*?  d/dsym (n/d) == 0  <=>  n' d - n d' == 0"""
        dn, dd = p_diff(self.n, sym), p_diff(self.d, sym)
        return bool(p_add(p_mul(dn, self.d), p_neg(p_mul(self.n, dd))))

    def __repr__(self):
        return f"R({_pstr(self.n)} / {_pstr(self.d)})"


def p_diff(a, sym):
    out = {}
    for m, c in a.items():
        d = dict(m)
        if sym in d:
            e = d[sym]
            if e == 1:
                del d[sym]
            else:
                d[sym] = e - 1
            mm = tuple(sorted(d.items()))
            out[mm] = out.get(mm, 0) + c * e
    return {m: c for m, c in out.items() if c}


def _pstr(a):
    if not a:
        return "0"
    return " + ".join(f"{c}*" + "*".join(f"{s}^{e}" for s, e in m) if m else str(c)
                      for m, c in sorted(a.items(), key=repr))


def const(c):
    return R(p_const(c))


def sym(s):
    return R(p_var(s))


def atom_name(e):
    if isinstance(e, p.Variable):
        return e.name
    return "@" + repr(normal.typed_key(e))


def from_expr(e, atoms=None):
    """Rational-function normal form of a pymbolic tree.  Non-polynomial leaves
    (subscripts, calls, lookups, ...) become opaque symbols; *atoms* (dict)
    collects symbol -> node."""
    if isinstance(e, bool):
        return const(int(e))
    if isinstance(e, (int, F)):
        return const(e)
    if isinstance(e, float):
        if e != e or e in (float("inf"), float("-inf")):
            raise NotRational("non-finite float")
        return const(F(e))
    if isinstance(e, p.Variable):
        return sym(e.name)
    if isinstance(e, p.Sum):
        out = const(0)
        for c in e.children:
            out = out + from_expr(c, atoms)
        return out
    if isinstance(e, p.Product):
        out = const(1)
        for c in e.children:
            out = out * from_expr(c, atoms)
        return out
    if type(e) is p.Quotient:
        return from_expr(e.numerator, atoms) / from_expr(e.denominator, atoms)
    if isinstance(e, p.Power):
        ex = e.exponent
        if isinstance(ex, bool) or not isinstance(ex, int):
            if isinstance(ex, F) and ex.denominator == 1:
                ex = int(ex)
            elif isinstance(ex, float) and ex.is_integer():
                ex = int(ex)
            else:
                exr = from_expr(ex, atoms) if isinstance(ex, p.Expression) else None
                if exr is not None and not exr.symbols() and len(exr.n) <= 1 \
                        and exr.d == ONE and F(exr.n.get((), 0)).denominator == 1:
                    ex = int(exr.n.get((), 0))
                else:
                    name = atom_name(e)
                    if atoms is not None:
                        atoms[name] = e
                    return sym(name)
        return from_expr(e.base, atoms) ** ex
    if isinstance(e, p.CommonSubexpression):
        return from_expr(e.child, atoms)
    from pymbolic.rational import Rational
    if isinstance(e, Rational):
        return from_expr(e.numerator, atoms) / from_expr(e.denominator, atoms)
    if isinstance(e, p.Expression):
        name = atom_name(e)
        if atoms is not None:
            atoms[name] = e
        return sym(name)
    raise NotRational(type(e).__name__)
