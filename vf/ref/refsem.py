"""Independent denotational evaluator for pymbolic trees.

Does not import pymbolic.mapper.  Evaluates left-to-right, lazily where the
construct is lazy, and can record

* the *effect log* an evaluation is entitled to (variable names read, calls
  made), and
* in fault-collecting mode, *every* primitive fault (unbound name, arithmetic
  error) that lies in the lazily reachable part of the tree, so the caller
  knows whether the expected exceptional outcome is unique (exactly one fault)
  or order-dependent (several).
"""
from __future__ import annotations

import cmath
import math
import operator

import numpy as np

import pymbolic.primitives as p


class Unknown(Exception):
    """Unbound variable; args[0] is the name."""


class _Poison:
    def __repr__(self):
        return "POISON"


POISON = _Poison()

CMP = {"<": operator.lt, "<=": operator.le, "==": operator.eq,
       "!=": operator.ne, ">": operator.gt, ">=": operator.ge}


class Log:
    __slots__ = ("reads", "calls")

    def __init__(self):
        self.reads = set()
        self.calls = []


def _fname(f):
    return f.name if isinstance(f, p.Variable) else str(f)


def _mk_slice(*a):
    return slice(*a)


def _mk_tuple(*a):
    return tuple(a)


def _mk_list(*a):
    return list(a)


def _minl(*a):
    return min(a)


def _maxl(*a):
    return max(a)


def _psum(*a):
    return sum(a)


_EXACT = [False]


class exact:
    """with refsem.exact(): int / int and int ** -n stay exact rationals.  For laws that hold
    over exact arithmetic (a rewrite may reassociate a sum; with a float by-product below a
    // or % that moves the result by a whole unit)."""

    def __enter__(self):
        self.old = _EXACT[0]
        _EXACT[0] = True

    def __exit__(self, *a):
        _EXACT[0] = self.old


def _rat(v):
    from fractions import Fraction
    return isinstance(v, (int, Fraction)) and not isinstance(v, bool)


def _truediv(a, b):
    from fractions import Fraction
    if _EXACT[0] and isinstance(a, (int, Fraction)) and isinstance(b, (int, Fraction)):
        return Fraction(a) / Fraction(b)        # (bools are ints: 1996 / True)
    return a / b


def ev(e, env, over=None, log=None, faults=None):
    """Value of *e* in *env*.

    over: optional list of (node, value): a node of the same type and == to a
      key evaluates to the value (substitution of whole nodes).
    log: optional Log receiving reads/calls.
    faults: optional list; if given, primitive faults are appended as outcome
      tuples and POISON is propagated instead of raising.
    """
    def ap(f, *args):
        if faults is None:
            return f(*args)
        for a in args:
            if a is POISON:
                return POISON
        try:
            return f(*args)
        except RecursionError:
            raise
        except Exception as ex:
            faults.append(("exc", type(ex).__name__))
            return POISON

    def truth(v):
        return ap(bool, v)

    def r(c):
        return ev(c, env, over, log, faults)

    if over:
        if isinstance(e, p.Expression):
            for k, v in over:
                if type(e) is type(k) and e == k:
                    return v
    if isinstance(e, p.Variable):
        if log is not None:
            log.reads.add(e.name)
        try:
            return env[e.name]
        except KeyError:
            if faults is None:
                raise Unknown(e.name) from None
            faults.append(("unk", e.name))
            return POISON
    if isinstance(e, tuple):
        return ap(_mk_tuple, *[r(c) for c in e])
    if isinstance(e, list):
        return ap(_mk_list, *[r(c) for c in e])
    if isinstance(e, np.ndarray):
        out = np.empty(e.shape, dtype=object)
        bad = False
        for i in np.ndindex(e.shape):
            v = r(e[i])
            bad = bad or v is POISON
            out[i] = v
        return POISON if bad else out
    if not isinstance(e, p.Expression):
        if _EXACT[0] and type(e) is float and e == e and e not in (float("inf"), float("-inf")):
            from fractions import Fraction
            return Fraction(e)      # exact mode: float constants are the rationals they denote
        return e
    t = type(e)
    if isinstance(e, p.Sum):
        # Python's own sum(): 0 + v1 + v2 + ... in operand order (CPython >= 3.12
        # compensates float addition; using the builtin keeps float by-products
        # bit-identical with any evaluator that sums the same way)
        return ap(_psum, *[r(c) for c in e.children])
    if isinstance(e, p.Product):
        acc = 1
        for c in e.children:
            acc = ap(operator.mul, acc, r(c))
        return acc
    if isinstance(e, p.Quotient):
        return ap(_truediv, r(e.numerator), r(e.denominator))
    if isinstance(e, p.FloorDiv):
        return ap(operator.floordiv, r(e.numerator), r(e.denominator))
    if isinstance(e, p.Remainder):
        return ap(operator.mod, r(e.numerator), r(e.denominator))
    if isinstance(e, p.Power):
        return ap(_pow, r(e.base), r(e.exponent))
    if isinstance(e, p.LeftShift):
        return ap(_lshift, r(e.shiftee), r(e.shift))
    if isinstance(e, p.RightShift):
        return ap(operator.rshift, r(e.shiftee), r(e.shift))
    if isinstance(e, p.BitwiseNot):
        return ap(operator.invert, r(e.child))
    if isinstance(e, (p.BitwiseOr, p.BitwiseXor, p.BitwiseAnd)):
        f = {p.BitwiseOr: operator.or_, p.BitwiseXor: operator.xor,
             p.BitwiseAnd: operator.and_}[t]
        vs = [r(c) for c in e.children]
        acc = vs[0]
        for v in vs[1:]:
            acc = ap(f, acc, v)
        return acc
    if isinstance(e, p.LogicalNot):
        return ap(operator.not_, r(e.child))
    if isinstance(e, p.LogicalOr):
        for c in e.children:
            tv = truth(r(c))
            if tv is POISON:
                return POISON
            if tv:
                return True
        return False
    if isinstance(e, p.LogicalAnd):
        for c in e.children:
            tv = truth(r(c))
            if tv is POISON:
                return POISON
            if not tv:
                return False
        return True
    if isinstance(e, p.Comparison):
        return ap(CMP[e.operator], r(e.left), r(e.right))
    if isinstance(e, p.If):
        tv = truth(r(e.condition))
        if tv is POISON:
            return POISON
        return r(e.then) if tv else r(e.else_)
    if isinstance(e, p.Min):
        return ap(_minl, *[r(c) for c in e.children])
    if isinstance(e, p.Max):
        return ap(_maxl, *[r(c) for c in e.children])
    if isinstance(e, p.CallWithKwargs):
        f = r(e.function)
        a = [r(c) for c in e.parameters]
        kw = {k: r(v) for k, v in e.kw_parameters.items()}
        if faults is not None and (f is POISON or any(x is POISON for x in a)
                                   or any(x is POISON for x in kw.values())):
            return POISON
        if log is not None:
            log.calls.append((_fname(e.function), tuple(a), tuple(kw.items())))   # in the node's order
        return ap(lambda: f(*a, **kw))
    if isinstance(e, p.Call):
        f = r(e.function)
        a = [r(c) for c in e.parameters]
        if faults is not None and (f is POISON or any(x is POISON for x in a)):
            return POISON
        if log is not None:
            log.calls.append((_fname(e.function), tuple(a), ()))
        return ap(lambda: f(*a))
    if isinstance(e, p.Subscript):
        return ap(operator.getitem, r(e.aggregate), r(e.index))
    if isinstance(e, p.Lookup):
        return ap(getattr, r(e.aggregate), e.name)
    if isinstance(e, p.CommonSubexpression):
        return r(e.child)
    if isinstance(e, p.NaN):
        return math.nan if e.data_type is None else e.data_type(math.nan)
    if isinstance(e, p.Slice):
        return ap(_mk_slice, *[None if c is None else r(c) for c in e.children])
    from pymbolic.rational import Rational
    if isinstance(e, Rational):
        return ap(_truediv, r(e.numerator), r(e.denominator))
    if hasattr(e, "vf_reference"):      # an application-defined node that says what it means
        return r(e.vf_reference())
    raise TypeError(f"refsem: not evaluable: {type(e).__name__}")


def outcome(fn, unknown_types=()):
    """('v', value) | ('unk', name) | ('exc', ExceptionTypeName)."""
    try:
        return ("v", fn())
    except Unknown as e:
        return ("unk", e.args[0])
    except unknown_types as e:
        return ("unk", e.args[0] if e.args else None)
    except RecursionError:
        raise
    except Exception as e:
        return ("exc", type(e).__name__)


def expected(e, env, over=None):
    """(outcome, faults, log): outcome is ('v', value) or, when faults were
    found, the first fault in left-to-right order; *faults* lists every fault
    in the lazily reachable part (len > 1: order-dependent outcome)."""
    faults = []
    log = Log()
    v = ev(e, env, over, log, faults)
    if faults:
        return faults[0], faults, log
    return ("v", v), faults, log


class TooCostly(BaseException):
    """The reference refuses an input whose value has millions of bits (towers of powers,
    huge shifts): Python would compute it, in minutes.  Deterministic (no clock); the case is
    skipped and counted, never judged."""


MAX_BITS = 2_000_000


def _isint(v):
    return isinstance(v, int)


def _pow(a, b):
    from fractions import Fraction
    if isinstance(b, Fraction) and b.denominator == 1 and isinstance(a, (int, Fraction)) \
            and abs(b) > 64:
        n = max(abs(a.numerator), abs(a.denominator)) if isinstance(a, Fraction) else abs(a)
        if n > 1 and n.bit_length() * abs(b.numerator) > MAX_BITS:
            raise TooCostly()
    if _isint(b) and isinstance(a, (int, Fraction)) and abs(b) > 64:
        n = max(abs(a.numerator), abs(a.denominator)) if isinstance(a, Fraction) else abs(a)
        if n > 1 and n.bit_length() * abs(b) > MAX_BITS:
            raise TooCostly()
    if _EXACT[0] and _rat(a) and _isint(b) and not isinstance(b, bool) and b < 0:
        return Fraction(a) ** b
    return operator.pow(a, b)


def _lshift(a, b):
    if _isint(a) and _isint(b) and b > MAX_BITS:
        raise TooCostly()
    return operator.lshift(a, b)


def values_equal(a, b) -> bool:
    """== that treats nan as equal to nan and recurses into containers."""
    if isinstance(a, (float, np.floating)) and isinstance(b, (float, np.floating)):
        if math.isnan(a) and math.isnan(b):
            return type(a) is type(b)
    if isinstance(a, np.ndarray) or isinstance(b, np.ndarray):
        if not (isinstance(a, np.ndarray) and isinstance(b, np.ndarray)):
            return False
        if a.shape != b.shape:
            return False
        return all(values_equal(x, y) for x, y in zip(a.flat, b.flat))
    if isinstance(a, (tuple, list)) and isinstance(b, (tuple, list)):
        if type(a) is not type(b) or len(a) != len(b):
            return False
        return all(values_equal(x, y) for x, y in zip(a, b))
    try:
        r = a == b
        if isinstance(r, np.ndarray):
            return bool(r.all())
        if not r and isinstance(a, (float, complex)) and isinstance(b, (float, complex)) \
                and cmath.isnan(a) and cmath.isnan(b):
            return True     # (nan+nanj) from a negative base under a fractional power, both sides
        if not r and (isinstance(a, (float, complex)) or isinstance(b, (float, complex))):
            # floats are by-products (int/int, negative powers); CPython >= 3.12
            # sums floats with compensation, so a left fold may differ in the
            # last bits.  Exact types (int, Fraction, bool) are compared exactly.
            return cmath.isclose(a, b, rel_tol=1e-9, abs_tol=1e-12)
        return bool(r)
    except Exception:
        return False


def same_outcome(got, want) -> bool:
    if got[0] != want[0]:
        return False
    if got[0] == "v":
        return values_equal(got[1], want[1])
    return got[1] == want[1]


def consistent(got, want, faults) -> bool:
    """got agrees with the reference: equal outcome, or — if the reference saw
    several faults — any one of those faults."""
    if same_outcome(got, want):
        return True
    if len(faults) > 1 and got[0] != "v":
        return any(got == f for f in faults)
    return False
