"""CLI:  python -m vf.run <Cxx> <quick|thorough> [--seed N] [--replay FILE]

exit 0: property held on everything explored (known findings are printed)
exit 1: VIOLATION property=<id> replay=<path>
exit 2: INCONCLUSIVE (a deciding monitor saw too little / a worker died)
"""
from __future__ import annotations

import argparse
import base64
import importlib
import json
import os
import pickle
import sys
import time

from . import check_repo, core


def load(prop):
    mod = importlib.import_module(f"vf.props.{prop.lower()}")
    core.RULES[prop] = mod.RULE
    return mod


def _suite(ctx, prop):
    """second workload: the inputs the repository's own tests build, harvested at the API
    boundary, through the same checks (one shard; see vf/suite)"""
    from .suite.feed import FEEDERS, feed
    if prop in FEEDERS and not os.environ.get("VF_NO_SUITE"):
        feed(ctx, prop)
        if ctx.shard == 0:
            ctx.floor("suite:inputs", 50)


def main(argv=None):
    ap = argparse.ArgumentParser()
    ap.add_argument("prop")
    ap.add_argument("tier", nargs="?", default=os.environ.get("VERIF_TIER", "quick"),
                    choices=["quick", "thorough"])
    ap.add_argument("--seed", type=int,
                    default=int(os.environ.get("VERIF_SEED", "0") or 0))
    ap.add_argument("--shard", default=None)
    ap.add_argument("--out", default=None)
    ap.add_argument("--replay", default=None)
    ap.add_argument("--shards", type=int, default=None)
    ap.add_argument("--inline", action="store_true",
                    help="run all shards in this process (debugging)")
    a = ap.parse_args(argv)
    prop = a.prop.upper()
    check_repo()
    mod = load(prop)

    if a.replay:
        with open(a.replay) as f:
            v = json.load(f)
        hs = v.get("hashseed")
        if hs is not None and os.environ.get("PYTHONHASHSEED") != str(hs):
            # replay under the string-hash seed the violation was observed with
            os.execve(sys.executable, [sys.executable, "-m", "vf.run", *sys.argv[1:]],
                      dict(os.environ, PYTHONHASHSEED=str(hs)))
        ctx = core.Ctx(prop, v.get("tier", "quick"), v.get("seed", 0))
        if not v.get("case_pickle"):
            print("replay file has no pickled case; case_repr:", v.get("case_repr"))
            return 2
        case = pickle.loads(base64.b64decode(v["case_pickle"]))
        print(f"replaying {v['check']} on {core.short(case, 600)}")
        ctx.run(v["check"], case)
        if ctx.violations:
            for w in ctx.violations:
                print(f"VIOLATION property={prop} replay={a.replay}")
                print("  signature:", w["signature"])
                print("  detail:", w["detail"])
            return 1
        for k, d in ctx.known_seen.items():
            print(f"KNOWN-FINDING: property={prop} {k}: {d}")
        print("replay: no violation")
        return 0

    if a.shard:
        s, n = (int(x) for x in a.shard.split("/"))
        ctx = core.Ctx(prop, a.tier, a.seed, s, n)
        try:
            mod.workload(ctx)
            _suite(ctx, prop)
        except core.StopWorkload:
            ctx.note("workload stopped early after repeated case time-outs")
        with open(a.out, "w") as f:
            json.dump(ctx.dump(), f, default=str)
        return 0

    t0 = time.time()
    shards_cfg = getattr(mod, "SHARDS", {})
    nshards = a.shards or shards_cfg.get(a.tier, 8 if a.tier == "quick" else 16)
    timeout = getattr(mod, "TIMEOUT", {}).get(a.tier, 600 if a.tier == "quick" else 3600)
    if a.inline:
        parts, problems = [], []
        for s in range(nshards):
            ctx = core.Ctx(prop, a.tier, a.seed, s, nshards)
            try:
                mod.workload(ctx)
                _suite(ctx, prop)
            except core.StopWorkload:
                pass
            parts.append(json.loads(json.dumps(ctx.dump(), default=str)))
    else:
        parts, problems = core.run_shards(prop, a.tier, a.seed, nshards, timeout)
    m = core.merge(parts) if parts else core.merge([])
    m["inconclusive"].extend(problems)
    for name, n in m["floors"].items():
        got = m["counters"].get(name, 0)
        if got < n:
            m["inconclusive"].append(f"monitor {name}: {got} events < floor {n}")
    if len(m["distinct"]) < 2 or m["evaluations"] < 1:
        m["inconclusive"].append("fewer than 2 distinct non-trivial cases")
    wall = time.time() - t0
    core.write_evidence(prop, a.tier, a.seed, m, wall, nshards,
                        getattr(mod, "ASSUMPTIONS", []))
    known = core.load_known()
    for k in sorted(m["known_seen"]):
        mech = known.get(k, {}).get("mechanism", "")
        print(f"KNOWN-FINDING: property={prop} {k}: {core.short(mech, 150)} "
              f"[{m['known_counts'][k]} cases]")
    print(f"{prop} {a.tier} seed={a.seed}: {m['evaluations']} executions judged, "
          f"{len(m['distinct'])} distinct non-trivial, "
          f"{sum(m['counters'].values())} monitor events, "
          f"{len(m['violations'])} violation signature(s), {wall:.1f}s")
    if m["violations"]:
        paths = core.write_replays(prop, m)
        for v, path in zip(m["violations"], paths):
            print(f"VIOLATION property={prop} replay={path}")
            print(f"  check={v['check']} signature={v['signature']}")
            print(f"  detail: {core.short(v['detail'], 600)}")
            print(f"  case: {core.short(v['case_repr'], 400)}")
        return 1
    if m["inconclusive"]:
        for r in m["inconclusive"]:
            print(f"INCONCLUSIVE property={prop} reason={r}")
        return 2
    return 0


if __name__ == "__main__":
    sys.exit(main())
