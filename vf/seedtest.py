"""Seeded-defect bookkeeping.

  python -m vf.seedtest confirm <candidate_dir> <seed_id>
      candidate_dir holds patch.diff, demo.py, meta.json (written by an independent
      sub-agent).  Confirms on scratch copies of /repo: patch applies, the repository's
      tests still pass with it, demo fails with it and passes without it; then stores it
      as /verif/seeded/<seed_id>/.
  python -m vf.seedtest run [--tier quick] [--only C01,C02] [--id substr]
      applies each stored patch to a scratch copy and runs the property's check against
      it (VF_REPO=<copy>); prints CAUGHT / MISSED.

Scratch copies live under $VF_TMP (default /tmp) and are removed immediately.
"""
from __future__ import annotations

import argparse
import json
import os
import shutil
import subprocess
import sys
import tempfile
import time
from concurrent.futures import ThreadPoolExecutor

from . import VERIF_DIR
from .muttest import make_copy

PY = sys.executable
SEEDED = os.path.join(VERIF_DIR, "seeded")


def _env(repo, **kw):
    return dict(os.environ, PYTHONPATH=repo, PYTHONDONTWRITEBYTECODE="1", **kw)


def apply_patch(repo, patch):
    r = subprocess.run(["patch", "-p1", "--no-backup-if-mismatch", "-i", patch],
                       cwd=repo, capture_output=True, text=True)
    return r.returncode == 0, r.stdout + r.stderr


def run_tests(repo):
    r = subprocess.run([PY, "-m", "pytest", "-q", "-p", "no:cacheprovider", "test"],
                       cwd=repo, env=_env(repo), capture_output=True, text=True)
    tail = (r.stdout.strip().splitlines() or [""])[-1]
    return r.returncode == 0, tail


def run_demo(repo, demo):
    try:
        r = subprocess.run([PY, demo], cwd=repo, env=_env(repo), capture_output=True,
                           text=True, timeout=300)
    except subprocess.TimeoutExpired:
        return None, "timeout"
    return r.returncode, (r.stdout + r.stderr)[-300:]


def confirm(cand, seed_id):
    base = tempfile.mkdtemp(prefix="vfseed-", dir=os.environ.get("VF_TMP"))
    try:
        clean, mut = os.path.join(base, "clean"), os.path.join(base, "mut")
        make_copy(clean)
        make_copy(mut)
        patch, demo = os.path.join(cand, "patch.diff"), os.path.join(cand, "demo.py")
        ok, out = apply_patch(mut, patch)
        if not ok:
            print("patch does not apply:", out)
            return 1
        t_ok, t_tail = run_tests(mut)
        d_mut, o_mut = run_demo(mut, demo)
        d_clean, o_clean = run_demo(clean, demo)
        print(f"tests with patch: {'pass' if t_ok else 'FAIL'} ({t_tail}); "
              f"demo with patch exit={d_mut}; demo without exit={d_clean}")
        if not (t_ok and d_mut not in (0, None) and d_clean == 0):
            print("NOT CONFIRMED", o_mut, o_clean)
            return 1
        dst = os.path.join(SEEDED, seed_id)
        os.makedirs(dst, exist_ok=True)
        shutil.copy(patch, os.path.join(dst, "patch.diff"))
        shutil.copy(demo, os.path.join(dst, "demo.py"))
        meta = {}
        try:
            meta = json.load(open(os.path.join(cand, "meta.json")))
        except Exception:
            pass
        meta["confirmed"] = {
            "tests_with_patch": t_tail, "demo_exit_with_patch": d_mut,
            "demo_exit_without_patch": d_clean,
            "how": "scratch copies of /repo working tree; `pytest -q test` and `python demo.py` "
                   "with PYTHONPATH=<copy>",
            "repo_head": subprocess.run(["git", "-C", "/repo", "rev-parse", "--short", "HEAD"],
                                        capture_output=True, text=True).stdout.strip()}
        json.dump(meta, open(os.path.join(dst, "meta.json"), "w"), indent=1)
        print("confirmed ->", dst)
        return 0
    finally:
        shutil.rmtree(base, ignore_errors=True)


def run_one(seed_id, tier, shards):
    d = os.path.join(SEEDED, seed_id)
    meta = json.load(open(os.path.join(d, "meta.json")))
    prop = meta.get("property", seed_id[:3]).upper()[:3]
    base = tempfile.mkdtemp(prefix="vfseed-", dir=os.environ.get("VF_TMP"))
    try:
        repo = os.path.join(base, "repo")
        make_copy(repo)
        ok, out = apply_patch(repo, os.path.join(d, "patch.diff"))
        if not ok:
            return seed_id, "STALE", out[-200:]
        if not os.path.exists(os.path.join(VERIF_DIR, "vf", "props", prop.lower() + ".py")):
            return seed_id, "NOCHECK", ""
        env = dict(os.environ, VF_REPO=repo, VF_TMP=base, PYTHONDONTWRITEBYTECODE="1",
                   VF_EVIDENCE_DIR=os.path.join(base, "ev"), VF_REPLAY_DIR=os.path.join(base, "rp"))
        t0 = time.time()
        cmd = [PY, "-m", "vf.run", prop, tier]
        if shards:
            cmd += ["--shards", str(shards)]
        r = subprocess.run(cmd, cwd=VERIF_DIR, env=env, capture_output=True, text=True)
        out = r.stdout + r.stderr
        sigs = [ln.strip()[:160] for ln in out.splitlines() if "signature=" in ln]
        dt = time.time() - t0
        if r.returncode == 1 and "VIOLATION" in out:
            return seed_id, "CAUGHT", f"{dt:.0f}s {sigs[:2]}"
        return seed_id, "MISSED", f"exit={r.returncode} {dt:.0f}s {out[-300:]}"
    finally:
        shutil.rmtree(base, ignore_errors=True)


def main():
    ap = argparse.ArgumentParser()
    sub = ap.add_subparsers(dest="cmd", required=True)
    c = sub.add_parser("confirm")
    c.add_argument("cand")
    c.add_argument("seed_id")
    r = sub.add_parser("run")
    r.add_argument("--tier", default="quick")
    r.add_argument("--only", default="")
    r.add_argument("--id", default="")
    r.add_argument("--jobs", type=int, default=3)
    r.add_argument("--shards", type=int, default=4)
    a = ap.parse_args()
    if a.cmd == "confirm":
        return confirm(a.cand, a.seed_id)
    ids = sorted(os.listdir(SEEDED)) if os.path.isdir(SEEDED) else []
    if a.only:
        keep = set(a.only.upper().split(","))
        ids = [i for i in ids if i[:3].upper() in keep]
    if a.id:
        ids = [i for i in ids if a.id in i]
    res = []
    with ThreadPoolExecutor(a.jobs) as ex:
        for sid, status, info in ex.map(lambda i: run_one(i, a.tier, a.shards), ids):
            print(f"{status:7s} {sid}: {info}", flush=True)
            res.append(status)
    print({s: res.count(s) for s in set(res)})
    return 0


if __name__ == "__main__":
    sys.exit(main())
