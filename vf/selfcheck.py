"""setup_cmd: verify the framework can run offline from files on disk only."""
from __future__ import annotations

import importlib
import json
import os
import shutil
import sys

from . import VERIF_DIR, check_repo


def main():
    print("pymbolic from", check_repo())
    for m in ("numpy", "immutabledict", "pytools"):
        importlib.import_module(m)
    for tool in ("gcc", "clang-14"):
        print(tool, shutil.which(tool) or "MISSING")
    man = json.load(open(os.path.join(VERIF_DIR, "MANIFEST.json")))
    for c in man["checks"]:
        importlib.import_module("vf.props." + c["property_id"].lower())
    json.load(open(os.path.join(VERIF_DIR, "known_findings.json")))
    print("vf selfcheck ok:", len(man["checks"]), "checks importable")
    return 0


if __name__ == "__main__":
    sys.exit(main())
