"""The repository's own test-suite as a workload.

`harvest()` runs /repo/test under pytest with the plug-in `vf.suite.plugin`, which hooks the
two dispatch entry points (Mapper.__call__, CachedMapper.__call__) and the parser's entry point
at the API boundary and records, for every OUTERMOST call, the mapper class, the expression, the
extra arguments and (for evaluators) the context.  The recorded real-usage inputs are then fed
to the property's ordinary checks, so the same oracles that judge generated inputs judge the
shapes the maintainers' tests use (deeply shared FFT trees, the big test strings, ...).

Nothing is patched in /repo; the plug-in lives in /verif and is only active in that pytest
subprocess.  The harvest is redone on every run (checks rebuild from the current tree).
"""
from __future__ import annotations

import os
import pickle
import subprocess
import sys
import tempfile

from .. import REPO, VERIF_DIR


def harvest(timeout=150):
    """-> dict(calls=[(mapper_qualname, expr, args, kwargs, extra)], strings=[...],
               tests=int, outcome=str) or None if pytest could not run."""
    fd, out = tempfile.mkstemp(prefix="vfharvest-", suffix=".pkl", dir=os.environ.get("VF_TMP"))
    os.close(fd)
    try:
        env = dict(os.environ, PYTHONPATH=VERIF_DIR + os.pathsep + REPO,
                   PYTHONDONTWRITEBYTECODE="1", VF_HARVEST_OUT=out, VF_REPO=REPO)
        try:
            r = subprocess.run([sys.executable, "-m", "pytest", "-q", "-p", "no:cacheprovider",
                                "-p", "vf.suite.plugin", "test"],
                               cwd=REPO, env=env, capture_output=True, text=True, timeout=timeout)
        except subprocess.TimeoutExpired:
            # (the unchanged suite takes ~5 s; a tree whose own tests hang cannot be harvested)
            return {"calls": [], "strings": [], "outcome": f"test-suite did not finish in {timeout}s"}
        tail = (r.stdout.strip().splitlines() or [""])[-1]
        if not os.path.getsize(out):
            return {"calls": [], "strings": [], "outcome": tail, "error": (r.stdout + r.stderr)[-800:]}
        with open(out, "rb") as f:
            raw = pickle.load(f)
    finally:
        try:
            os.unlink(out)
        except OSError:
            pass
    calls = []
    for blob in raw["calls"]:
        try:
            calls.append(pickle.loads(blob))
        except Exception:  # noqa: BLE001   (classes defined inside a test function)
            raw["dropped"] = raw.get("dropped", 0) + 1
    raw["calls"] = calls
    raw["outcome"] = tail
    return raw
