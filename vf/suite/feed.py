"""Feed the inputs harvested from the repository's own tests to a property's ordinary checks."""
from __future__ import annotations

import pymbolic.primitives as p

from ..gen import expr as G
from ..ref import normal, refsem
from . import harvest

MAX_OPS = 400       # larger trees (the 910-operator FFT result) only go to the cheap checks


def _pool(h, max_ops=MAX_OPS):
    """distinct (typed) expressions seen at the API boundary, with one (mapper, extra) each"""
    seen, out = set(), []
    for qual, e, args, kwargs, extra in h["calls"]:
        if not isinstance(e, (p.Expression, tuple)):
            continue
        try:
            k = normal.typed_key(e)
            hash(k)
            n = normal.count_ops(e)
        except Exception:  # noqa: BLE001
            continue
        if k in seen or n > max_ops:
            continue
        seen.add(k)
        out.append((e, qual, extra, n))
    return out


def _evaluable(e):
    """inside what the reference evaluator models (typed fragment, all node types of C02)"""
    try:
        refsem.ev(e, _Any())
        return True
    except (TypeError, refsem.TooCostly):
        return False
    except RecursionError:
        raise
    except Exception:  # noqa: BLE001
        return True


TEXT_TYPES = (p.Variable, p.Call, p.CallWithKwargs, p.Subscript, p.Lookup, p.Sum, p.Product,
              p.Quotient, p.FloorDiv, p.Remainder, p.Power, p.LeftShift, p.RightShift,
              p.BitwiseNot, p.BitwiseOr, p.BitwiseXor, p.BitwiseAnd, p.LogicalNot, p.LogicalOr,
              p.LogicalAnd, p.Comparison, p.If, p.Slice)
BRIDGE_TYPES = (p.Variable, p.Call, p.Subscript, p.Sum, p.Product, p.Quotient, p.FloorDiv,
                p.Remainder, p.Power, p.LeftShift, p.RightShift, p.BitwiseNot, p.BitwiseOr,
                p.BitwiseXor, p.BitwiseAnd, p.LogicalNot, p.LogicalOr, p.LogicalAnd,
                p.Comparison, p.If)
RATIONAL_TYPES = (p.Variable, p.Sum, p.Product, p.Quotient, p.Power)


def _within(e, types, exact=True):
    """every node is one of *types* (exactly: subclasses defined by a test are other node types)
    and every constant is a plain Python number"""
    import fractions
    for x in G.walk(e):
        if isinstance(x, p.Expression):
            if (type(x) not in types) if exact else (not isinstance(x, types)):
                return False
        elif isinstance(x, (tuple, str)) or x is None:
            continue
        elif type(x) not in (int, float, bool, fractions.Fraction):
            return False
    return True


class _Any(dict):
    def __missing__(self, k):
        return 1

    def __contains__(self, k):
        return True


def feed(ctx, prop):
    """Run on ONE shard.  Returns the number of harvested inputs handed to checks."""
    if ctx.shard != 0:
        return 0
    h = harvest()
    if h is None or not h.get("calls"):
        ctx.inconclusive.append(f"repository test-suite harvest failed: {(h or {}).get('outcome')} "
                                f"{(h or {}).get('error', '')[-300:]}")
        return 0
    ctx.count("suite:outermost_calls_observed", h["stats"]["outermost_calls"])
    ctx.count("suite:dispatch_events_observed", h["stats"]["dispatch_events"])
    ctx.count("suite:parser_calls_observed", h["stats"]["parser_calls"])
    ctx.note(f"repository test-suite under the recorder: {h['outcome']}")
    fn = FEEDERS.get(prop)
    if fn is None:
        return 0
    n0 = ctx.evaluations
    rng = ctx.sub_rng("suite")
    fn(ctx, h, rng)
    ctx.count("suite:executions_judged", ctx.evaluations - n0)
    return ctx.evaluations - n0


def _plainnum(x):
    import numpy as np
    if isinstance(x, np.bool_):
        return bool(x)
    if isinstance(x, np.integer):
        return int(x)
    if isinstance(x, np.floating):
        return float(x)
    return x


def _each(ctx, h, max_ops=MAX_OPS, limit=None, plain=False):
    """plain=True: numpy scalar constants (the suite's random-expression generator draws them)
    are replaced by the equal Python numbers, for the oracles that are typed over Python
    numbers; duplicates after that conversion are dropped."""
    pool = _pool(h, max_ops)
    if plain:
        seen, conv = set(), []
        for e, qual, extra, n in pool:
            e2 = G.deep_rebuild(e, _plainnum)
            k = normal.typed_key(e2)
            if k not in seen:
                seen.add(k)
                conv.append((e2, qual, extra, n))
        pool = conv
    if limit is not None and len(pool) > limit:
        step = len(pool) / limit
        pool = [pool[int(i * step)] for i in range(limit)]
    for e, qual, extra, n in pool:
        ctx.case(("suite", normal.typed_key(e)), n >= 1, n=0)
        ctx.count("suite:inputs")
        ctx.count("suite:from:" + qual.rsplit(".", 1)[-1])
        yield e, qual, extra


# {{{ per-property feeders (case formats are those of the property's own workload)

def f_c01(ctx, h, rng):
    prev = None
    for e, qual, extra in _each(ctx, h, 1000):
        if not isinstance(e, p.Expression):
            continue
        ctx.run("C01.pair", (e, G.deep_rebuild(e)))
        if prev is not None:
            ctx.run("C01.pair", (e, prev))
        ctx.run("C01.immutable", e)
        prev = e


def f_c02(ctx, h, rng):
    for e, qual, extra in _each(ctx, h, plain=True):
        if not _evaluable(e):
            ctx.count("suite:outside_reference_fragment")
            continue
        envs = []
        if "context" in extra and not extra.get("context_dropped"):
            envs.append(dict(extra["context"]))
        names = sorted(G.variables_of(e))
        for _ in range(2):
            env = G.base_env(0, 0, 0)
            for n in names:
                if n not in ("f", "g", "a", "m", "o"):
                    env[n] = rng.choice([-2, -1, 1, 2, 3, 5])
            envs.append(env)
        for env in envs:
            ctx.run("C02.eval", (e, env, True))


def f_c04(ctx, h, rng):
    for e, qual, extra in _each(ctx, h, 1000):
        ctx.run("C04.walk", (e, (), {}, ()))
        ctx.run("C04.identity", (e, (), {}))
        ctx.run("C04.combine", (e, (), {}))


def f_c05(ctx, h, rng):
    pool = [e for e, _, _, _ in _pool(h, 120)]
    flagsets = [dict(include_subscripts=a, include_lookups=b, include_calls=c, include_cses=d)
                for a in (True, False) for b in (True, False) for c in (True, False, "descend_args")
                for d in (True, False)]
    for i in range(0, min(len(pool), 300), 6):
        sub = pool[i:i + 6]
        if len(sub) < 2:
            break
        sub = sub + [G.deep_rebuild(sub[0])]
        hist = [(rng.randrange(len(sub)), (), {}) for _ in range(rng.randint(4, 14))]
        ctx.case(("suite-hist", i), True, n=0)
        ctx.count("suite:inputs", len(sub))
        ctx.run("C05.history", (sub, hist, rng.choice(flagsets)))


def f_c06(ctx, h, rng):
    for e, qual, extra in _each(ctx, h, 1000, plain=True):
        if isinstance(e, p.Expression) and _within(e, TEXT_TYPES):
            ctx.run("C06.roundtrip", (e,))
        else:
            ctx.count("suite:outside_text_syntax")


def f_c07(ctx, h, rng):
    for s in h["strings"]:
        if len(s) > 400:
            ctx.count("suite:long_strings_skipped")
            continue
        ctx.case(("suite-str", s), True, n=0)
        ctx.count("suite:inputs")
        ctx.run("C07.string", (s, 0))


def f_c08(ctx, h, rng):
    from ..props.c08 import make_map, pick_keys
    for e, qual, extra in _each(ctx, h, 300, limit=900):
        if not isinstance(e, p.Expression):
            continue
        names = sorted(G.variables_of(e)) or ["x"]
        keys = pick_keys(rng, e, names, rng.randint(1, 3))
        d = make_map(rng, keys, lambda: p.Sum((p.Variable(rng.choice(names)), rng.randint(1, 3))))
        ctx.run("C08.subst", (e, d, {}))


def f_c09(ctx, h, rng):
    from ..props.c09 import FLAGS
    for e, qual, extra in _each(ctx, h, 1000, limit=400):
        ctx.run("C09.deps", (e, FLAGS))


def _envs(e, rng, n=3):
    out = []
    for _ in range(n):
        env = G.base_env(rng.choice([-2, 1, 3]), rng.choice([-1, 2, 5]), rng.choice([1, 2, 3]))
        for name in sorted(G.variables_of(e)):
            if name not in env:
                env[name] = rng.choice([-2, -1, 1, 2, 3, 5])
        out.append(env)
    return out


def f_c11(ctx, h, rng):
    for e, qual, extra in _each(ctx, h, 150, limit=600, plain=True):
        if not isinstance(e, p.Expression):
            continue
        if _within(e, RATIONAL_TYPES):
            ctx.run("C11.flatten", (e,))
            ctx.run("C11.fold", (e,))
        elif _within(e, TEXT_TYPES + (p.CommonSubexpression, p.Min, p.Max)) and _evaluable(e):
            ctx.run("C11.context", (e, _envs(e, rng)))
        else:
            ctx.count("suite:outside_fragment")


def f_c12(ctx, h, rng):
    for e, qual, extra in _each(ctx, h, 150, limit=600, plain=True):
        if isinstance(e, p.Expression) and _evaluable(e) \
                and _within(e, TEXT_TYPES + (p.CommonSubexpression, p.Min, p.Max)):
            ctx.run("C12.tagger", e)
        else:
            ctx.count("suite:outside_fragment")


def f_c13(ctx, h, rng):
    for e, qual, extra in _each(ctx, h, 150, limit=600, plain=True):
        if isinstance(e, p.Expression) and _within(e, TEXT_TYPES + (p.CommonSubexpression, p.Min, p.Max)):
            ctx.run("C13.ast", (e, 0))
        else:
            ctx.count("suite:outside_fragment")


def f_c16(ctx, h, rng):
    for e, qual, extra in _each(ctx, h, 150, limit=400, plain=True):
        if isinstance(e, p.Expression) and _within(e, BRIDGE_TYPES):
            ctx.run("C16.roundtrip", (e,))
        else:
            ctx.count("suite:outside_bridge_fragment")


FEEDERS = {"C01": f_c01, "C02": f_c02, "C04": f_c04, "C05": f_c05, "C06": f_c06, "C07": f_c07,
           "C08": f_c08, "C09": f_c09, "C11": f_c11, "C12": f_c12, "C13": f_c13, "C16": f_c16}

# }}}
