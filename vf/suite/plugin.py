"""pytest plug-in: record outermost mapper / parser calls made by the repository's tests.

Observation is by sys.monitoring (PEP 669) PY_START events on the code objects of the two
dispatch entry points and of the parser's entry point: nothing in pymbolic is replaced (the
mapper optimizer reads the source of these very functions, so they must stay what they are).
A call is 'outermost' when its caller is not itself a mapper method.
"""
from __future__ import annotations

import os
import pickle
import sys

CALLS = []          # pickled (qualname, expr, args, kwargs, extra)
STRINGS = []
SEEN = set()
STATS = {"dispatch_events": 0, "outermost_calls": 0, "unpicklable": 0, "parser_calls": 0,
         "duplicate": 0, "recorder_errors": 0}
MAX_CALLS = 6000
_TOOL = 3
_codes = {}


def _plain(v):
    try:
        pickle.dumps(v, protocol=4)
        return True
    except Exception:  # noqa: BLE001
        return False


def _record(self, expr, args, kwargs):
    STATS["outermost_calls"] += 1
    if len(CALLS) >= MAX_CALLS:
        return
    extra = {}
    ctx = getattr(self, "context", None)
    if isinstance(ctx, dict):
        extra["context"] = {k: v for k, v in ctx.items() if isinstance(k, str) and _plain(v)}
        extra["context_dropped"] = sorted(k for k in ctx
                                          if isinstance(k, str) and k not in extra["context"])
    var = getattr(self, "variable", None)
    if var is not None and _plain(var):
        extra["variable"] = var
    for flag in ("include_subscripts", "include_lookups", "include_calls", "include_cses",
                 "composite_leaves"):
        if hasattr(self, flag) and _plain(getattr(self, flag)):
            extra[flag] = getattr(self, flag)
    cls = type(self)
    item = (cls.__module__ + "." + cls.__qualname__, expr,
            tuple(a for a in args if _plain(a)), {k: v for k, v in kwargs.items() if _plain(v)},
            extra)
    try:
        blob = pickle.dumps(item, protocol=4)
    except Exception:  # noqa: BLE001
        STATS["unpicklable"] += 1
        return
    if blob in SEEN:
        STATS["duplicate"] += 1
        return
    SEEN.add(blob)
    CALLS.append(blob)


def _on_start(code, offset):
    kind = _codes.get(code)
    if kind is None:
        return
    try:
        f = sys._getframe(1)
        if f.f_code is not code:
            return
        if kind == "parse":
            STATS["parser_calls"] += 1
            s = f.f_locals.get("expr_str")
            if isinstance(s, str) and len(STRINGS) < 4000:
                STRINGS.append(s)
            return
        STATS["dispatch_events"] += 1
        caller = f.f_back
        if caller is not None:
            cc = caller.f_code
            if cc in _codes or cc.co_name.startswith("map_"):
                return
            if cc.co_varnames[:1] == ("self",):
                from pymbolic.mapper import Mapper
                if isinstance(caller.f_locals.get("self"), Mapper):
                    return
        loc = f.f_locals
        _record(loc["self"], loc["expr"], tuple(loc.get("args", ())), dict(loc.get("kwargs", {})))
    except Exception:  # noqa: BLE001   (the recorder must never disturb a test)
        STATS["recorder_errors"] += 1


def pytest_configure(config):
    import pymbolic.mapper as m
    import pymbolic.parser as ps
    _codes[m.Mapper.__call__.__code__] = "call"
    _codes[m.CachedMapper.__call__.__code__] = "call"
    _codes[ps.Parser.__call__.__code__] = "parse"
    mon = sys.monitoring
    mon.use_tool_id(_TOOL, "vf-harvest")
    mon.register_callback(_TOOL, mon.events.PY_START, _on_start)
    for c in _codes:
        mon.set_local_events(_TOOL, c, mon.events.PY_START)


def pytest_sessionfinish(session, exitstatus):
    out = os.environ.get("VF_HARVEST_OUT")
    if not out:
        return
    with open(out, "wb") as f:
        pickle.dump({"calls": CALLS, "strings": sorted(set(STRINGS)), "stats": STATS,
                     "exitstatus": int(exitstatus)}, f, protocol=4)
