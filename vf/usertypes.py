"""User-defined node classes and mappers that must live in a real module
(picklable by reference; `optimize_mapper` reads class source from the file).
"""
from __future__ import annotations

import pymbolic.primitives as p
from pymbolic.mapper import (
    CachedIdentityMapper, CachedMapper, CachedWalkMapper, CombineMapper, IdentityMapper,
    WalkMapper)
from pymbolic.primitives import Expression, expr_dataclass


# {{{ node classes

@expr_dataclass()
class UNode(Expression):
    """decorated user node: child expression + string tag"""
    child: object
    tag: str


@expr_dataclass()
class UNodeSub(UNode):
    """decorated subclass adding a field"""
    extra: object


@expr_dataclass()
class ABCNode2D(Expression):
    """decorated leaf with an acronym/digit name (handler-name derivation)"""
    ident: int


@expr_dataclass()
class UExplicit(Expression):
    """decorated node that names its handler itself"""
    child: object
    mapper_method = "map_u_custom"


@expr_dataclass(init=False)
class UInitFalse(Expression):
    """decorated with init=False: hand-written constructor"""
    child: object
    weight: int

    def __init__(self, child, weight=1):
        object.__setattr__(self, "child", child)
        object.__setattr__(self, "weight", weight)


@expr_dataclass(hash=False)
class UHashFalse(Expression):
    """decorated with hash=False: the class supplies its own hash"""
    child: object
    label: str

    def __hash__(self):
        return hash(("UHashFalse", self.child, self.label))


@expr_dataclass(init=False, hash=False)
class UInitHashFalse(Expression):
    child: object

    def __init__(self, child):
        object.__setattr__(self, "child", child)

    def __hash__(self):
        return hash(("UInitHashFalse", self.child))


class LegacyPure(Expression):
    """undecorated legacy class using the init-args protocol only"""
    init_arg_names = ("u", "v")

    def __init__(self, u, v):
        self.u = u
        self.v = v

    def __getinitargs__(self):
        return (self.u, self.v)

    mapper_method = "map_legacy_pure"


class LegacyVar(p.Variable):
    """legacy (undecorated) subclass of a decorated class, adding an init arg"""
    init_arg_names = ("name", "tag")

    def __init__(self, name, tag):
        super().__init__(name)
        self.tag = tag

    def __getinitargs__(self):
        return (self.name, self.tag)

    mapper_method = "map_legacy_var"


class LegacySum(p.Sum):
    """legacy subclass of a decorated class with the same init args"""
    init_arg_names = ("children",)

    def __getinitargs__(self):
        return (self.children,)

    mapper_method = "map_legacy_sum"


@expr_dataclass()
class UFieldless(Expression):
    """a decorated user base class without fields ..."""


@expr_dataclass()
class UFieldlessChild(UFieldless):
    """... and a subclass of it that has one"""
    payload: object


@expr_dataclass()
class TaggedCSE(p.CommonSubexpression):
    """a common-subexpression subclass with an extra constructor property, forwarded through
    identity-style mappers by the documented get_extra_properties() hook"""
    tag: str = ""

    def get_extra_properties(self):
        return {"tag": self.tag}


# undecorated subclasses of stock operator nodes: same fields, same handler, same meaning
class SubFloorDiv(p.FloorDiv):
    pass


class SubRemainder(p.Remainder):
    pass


class SubQuotient(p.Quotient):
    pass


class SubProduct(p.Product):
    pass


class SubSum(p.Sum):
    pass


class SubPower(p.Power):
    pass


class LegacyMid(p.Variable):
    """legacy subclass that adds nothing (like the in-tree MultiVectorVariable) ..."""
    mapper_method = "map_legacy_mid"


class LegacyLeafTag(LegacyMid):
    """... and a second legacy level below it that adds an init arg"""
    init_arg_names = ("name", "tag")

    def __init__(self, name, tag):
        super().__init__(name)
        self.tag = tag

    def __getinitargs__(self):
        return (self.name, self.tag)

    mapper_method = "map_legacy_leaf_tag"


USER_CLASSES = [UNode, UNodeSub, ABCNode2D, UExplicit, UInitFalse, UHashFalse, UInitHashFalse,
                LegacyPure, LegacyVar, LegacySum, LegacyMid, LegacyLeafTag]
LEGACY_CLASSES = [LegacyPure, LegacyVar, LegacySum, LegacyMid, LegacyLeafTag]

# }}}


# {{{ subjects for optimize_mapper (the optimizer reads class *source* from this file)

class OptPlainRenamer(IdentityMapper):
    """uncached, argument-free"""

    def map_variable(self, expr):
        return p.Variable(expr.name + "_r")


class OptCachedRenamer(CachedIdentityMapper):
    """cached, argument-free: admits all 32 option combinations"""

    def map_variable(self, expr):
        return p.Variable(expr.name + "_r")

    def get_cache_key(self, expr):
        return (type(expr), expr)


class OptArgRenamer(CachedIdentityMapper):
    """cached, takes an extra positional and a keyword argument"""

    def map_variable(self, expr, prefix, *, suffix="s"):
        return p.Variable(prefix + expr.name + suffix)


class OptArgPlain(IdentityMapper):
    """uncached, takes extra arguments"""

    def map_variable(self, expr, prefix, *, suffix="s"):
        return p.Variable(prefix + expr.name + suffix)

    def map_constant(self, expr, prefix, *, suffix="s"):
        return expr + len(prefix) if isinstance(expr, int) and not isinstance(expr, bool) else expr


class OptCachedCounter(CachedIdentityMapper):
    """cached, argument-free, counts handler entries (at-most-once observable)"""

    def __init__(self):
        super().__init__()
        self.entered = 0

    def map_sum(self, expr):
        self.entered += 1
        return super().map_sum(expr)

    def map_variable(self, expr):
        self.entered += 1
        return p.Variable(expr.name.upper())

    def get_cache_key(self, expr):
        return (type(expr), expr)


class OptCachedWalker(CachedWalkMapper):
    """cached, argument-free, every handler returns None (a memoized None is still a hit);
    counts visits"""

    def __init__(self):
        super().__init__()
        self.entered = 0

    def visit(self, expr):
        self.entered += 1
        return True

    def get_cache_key(self, expr):
        return (type(expr), expr)


class OptCachedTwice(CachedIdentityMapper):
    """cached, argument-free; handlers that map the RESULT of a mapped operand again (a rec call
    in the argument of a rec call, in one expression), on one and on two lines"""

    def map_variable(self, expr):
        return p.Variable(expr.name + "_r")

    def map_power(self, expr):
        return p.Power(self.rec(self.rec(expr.base)), self.rec(expr.exponent))

    def map_quotient(self, expr):
        inner = self.rec(expr.numerator)
        return p.Quotient(self.rec(inner), self.rec(self.rec(self.rec(expr.denominator))))

    def map_call(self, expr):
        return p.Call(expr.function, tuple(self.rec(self.rec(par)) for par in expr.parameters))

    def get_cache_key(self, expr):      # (as OptCachedRenamer: the inherited one reads *args)
        return (type(expr), expr)


OPT_SUBJECTS = {c.__name__: c for c in (OptPlainRenamer, OptCachedRenamer, OptArgRenamer,
                                        OptArgPlain, OptCachedCounter, OptCachedWalker,
                                        OptCachedTwice)}

# }}}


# {{{ an application-defined node that brings its own printer (documented extension hook:
#     Expression.make_stringifier + StringifyMapper.handle_unsupported_expression)

def _biased_printer(base):
    from pymbolic.mapper.stringifier import PREC_SUM

    class BiasedPrinter(base):
        def map_u_biased(self, expr, enclosing_prec, *args, **kwargs):
            return self.parenthesize_if_needed(
                self.format("%s + %s", self.rec(expr.child, PREC_SUM, *args, **kwargs),
                            self.rec(expr.bias, PREC_SUM, *args, **kwargs)),
                enclosing_prec, PREC_SUM)
    return BiasedPrinter


@expr_dataclass()
class UBiased(Expression):
    """child + bias as a node of its own; stock printers reach its text through the hook"""
    child: object
    bias: object

    def make_stringifier(self, originating_stringifier=None):
        from pymbolic.mapper.c_code import CCodeMapper
        from pymbolic.mapper.stringifier import StringifyMapper
        if isinstance(originating_stringifier, CCodeMapper):
            return _biased_printer(CCodeMapper)()
        return _biased_printer(StringifyMapper)()

    def vf_reference(self):
        return p.Sum((self.child, self.bias))

# }}}
